"""C34 -- A Hy name means the same Python identifier in every construct."""
import ast
import builtins
import inspect
import re
import sys
import types
import unicodedata
import warnings

from lib import vlib
from translator import names_sites

META = {
    "technique": "Coq theorems, for an arbitrary mangle function, over a table of the name-computing expression of every "
                 "name-handling call site, regenerated from the compiler source on every run (fail-closed); table "
                 "evaluated against the identifiers found in compiled ASTs; runtime oracle on generated names in every "
                 "construct",
    "level_text": "Theorems C34_sites_emit_mangle_partial / C34_same_binding_iff_mangle_eq / C34_local_macro_same_iff / "
                  "C34_require_alias / C34_let_reaches_iff (coq/Props/C34.v): at each of the 31 regenerated call sites "
                  "(variable, attribute, method, parameter, keyword argument, defn/defclass name, import names and "
                  "aliases, macro install/lookup, (:s obj), global/nonlocal, match captures, except name, setv renaming, "
                  "let, local macros, require, deftype/type parameters) the identifier is mangle(name) for every mangle "
                  "function and every name; the class-pattern keyword site (fixed by 7ce654c) is among them; "
                  "C34_class_kwd_status decides it by computation. The run compares the table with the identifiers in "
                  "compiled ASTs and checks globals/attribute/kwarg/parameter/macro names and same-binding behaviour at "
                  "run time for generated names (punctuation, Unicode, hyphens/underscores, Python keywords).",
    "level_note": "Partial: the theorems are about the expression found at each call site (tie: translator/names_sites.py, "
                  "fail-closed, plus the AST-level comparison), not about the whole compiler; that the identifier computed "
                  "at the site is what Python finally binds is decided by the runtime oracle only. Trusted: Coq kernel; "
                  "translator; harness.",
}

TRUSTED = [
    "Coq 8.16.1 kernel (coqc, full .vo); vm_compute for the per-site obligations over Gen/NameSites.v",
    "axioms: none (Print Assumptions: Closed under the global context for every C34 theorem)",
    "translator/names_sites.py: locates each site's expression in the source and restates it as an nexp term "
    "(fail-closed on any other shape); validated on every run by comparing the evaluated table with the identifier the "
    "compiled AST really contains at that site",
    "the harness's evaluator of nexp terms (compared with Coq's neval on every run under a toy mangle)",
    "modelled, not verified: that the identifier computed at a site reaches the Python binding unchanged (scope "
    "renaming for let/except is modelled in Names/Scope.v; everything else is observed at run time)",
]

RESERVED = "zq_"


# ------------------------------------------------------------------ nexp evaluation (harness side)

def neval(t, mangle, nm, pfx=""):
    k = t[0]
    if k == "NName":
        return nm
    if k == "NPrefix":
        return pfx
    if k == "NLit":
        return t[1]
    sub = neval(t[-1], mangle, nm, pfx) if k != "NCat" else None
    if k == "NCat":
        a, b = neval(t[1], mangle, nm, pfx), neval(t[2], mangle, nm, pfx)
        return None if a is None or b is None else a + b
    if sub is None:
        return None
    if k == "NMangle":
        return mangle(sub)
    if k == "NNonconst":
        return None if sub in ("None", "True", "False") else sub
    if k == "NKwStr":
        return ":" + sub
    if k == "NTail":
        return sub[1:]
    if k == "NReplaceCh":
        return sub.replace(chr(t[1]), t[2])
    raise ValueError(k)


def toy_mangle(s):
    return s.replace("-", "_")


def coq_correspondence(chk, table):
    names = ["a-b", "x", "None", "D.d-D", "-", "True-", "a.b"]
    exprs, expect = [], []
    for sid, term, _ in table:
        for nm in names:
            for pfx in ("", "p-q."):
                exprs.append("neval toy_mangle %s %s (site_expr %s)" % (vlib.coq_text(nm), vlib.coq_text(pfx), sid))
                expect.append((sid, nm, pfx, neval(term, toy_mangle, nm, pfx)))
    res = vlib.coq_eval(["HyV.Base.Text", "HyV.Names.Syntax", "HyV.Names.Model", "HyV.Gen.NameSites", "HyV.Names.Proofs"],
                        "", exprs, tag="c34")
    for r, (sid, nm, pfx, py) in zip(res, expect):
        if r.startswith("None"):
            got = None
        else:
            got = vlib.parse_coq_nlist(r[len("Some"):])
        chk.case(("coq-neval", sid, nm, pfx), nontrivial=(py != nm))
        chk.count("corr:coq-neval-vs-harness-neval")
        if got != py:
            chk.disagree("Names.Model.neval vs harness neval (toy mangle)", {"site": sid, "name": nm, "prefix": pfx}, got, py)


# ------------------------------------------------------------------ names

KEYWORDS = ["if", "class", "def", "lambda", "import", "pass", "for", "while", "in", "is", "not", "and", "or",
            "with", "yield", "return", "try", "del", "from", "global", "async", "await", "match", "case", "type", "print"]
PUNCT = "!$%&*+-/<=>?@^|_"
UNI = ["ï", "é", "ﬁ", "ａ", "𝕕", "λ", "⚘", "²", "µ", "日", "ß", "ǆ", "ⅷ", "ª", "‿", "⁀", "︳", "＿", "·", "́", "א", "ǅ"]
FIXED = ["a-b", "a_b", "foo-bar-baz", "-a", "--a", "a-", "a--b", "_a-b", "__a-b", "_-a", "a?", "a!", "*a*", "<=>", "a+b",
         "&rest", "a/b", "$", "%x", "a=b", "@x", "^x", "|", "+", "-", "*", "/", "<", "=", "->", "->>", "naïve", "ﬁne",
         "ａbc", "𝕕𝕖𝕗", "λ", "⚘", "x²", "µ", "hyx_XasteriskX", "hyx_a", "hyx_", "hyx_XhyphenHminusXa", "A", "a", "aB-c",
         "is-not", "not-in", "None-", "-None", "ＮＯ", "ℕ", "__init__", "__a__", "a__b", "a_-b", "a-_b", "·a", "a·b",
         "1+", "+1x", "a'", "a#b", "a:b", "a,b", "a\\b", "x‿y", "_ﬁ", "ｉｆ", "𝐢𝐟", "dＥf"]


def readable_symbol(hy, s):
    try:
        m = hy.read(s + " ")
    except Exception:
        return False
    return type(m) is hy.models.Symbol and str(m) == s


def gen_names(chk, hy, n_random):
    rng = chk.rng
    seen = set()
    out = []

    def add(kind, s):
        if s in seen:
            return
        seen.add(s)
        if not readable_symbol(hy, s):
            chk.count("filtered:not-a-plain-symbol")
            return
        try:
            m = hy.mangle(s)
        except Exception as e:
            chk.fail("mangle-raises", {"name": s}, type(e).__name__, "an identifier", "hy.mangle(%r)" % s)
            return
        if s in ("None", "True", "False", "...", "_", "hy") or m in ("None", "True", "False", "hy", "_"):
            chk.count("filtered:constant-or-wildcard-or-hy")
            return
        if m.startswith("_hy_") or m.startswith(RESERVED) or "." in s:
            chk.count("filtered:reserved-prefix-or-dotted")
            return
        out.append((kind, s))

    for s in FIXED:
        add("fixed", s)
    for s in KEYWORDS:
        add("pykeyword", s)
    letters = "abcxyzABZ"
    for _ in range(n_random):
        r = rng.random()
        ln = rng.randint(1, 7)
        if r < 0.25:
            s = "".join(rng.choice(letters + "--_") for _ in range(ln))
            kind = "ascii-hyphen"
        elif r < 0.5:
            s = "".join(rng.choice(letters + PUNCT) for _ in range(ln))
            kind = "punct"
        elif r < 0.75:
            s = "".join(rng.choice(letters + "-_") if rng.random() < 0.6 else rng.choice(UNI) for _ in range(ln))
            kind = "unicode"
        elif r < 0.85:
            s = rng.choice("-_") * rng.randint(1, 3) + "".join(rng.choice(letters + "-") for _ in range(ln))
            kind = "leading"
        elif r < 0.93:
            s = rng.choice(KEYWORDS) + rng.choice(["", "-", "_", "?", "-x"])
            kind = "pykeyword"
        else:
            s = "".join(chr(rng.choice([rng.randint(0x21, 0x7e), rng.randint(0xa1, 0x24f), rng.randint(0x370, 0x3ff),
                                         rng.randint(0x2000, 0x2bff), rng.randint(0xff01, 0xff5e), rng.randint(0x1d400, 0x1d7ff)]))
                        for _ in range(rng.randint(1, 4)))
            kind = "random-codepoints"
        add(kind, s)
    return out


def partners(hy, rng, s):
    """names to pair with s: some with the same mangling, some near misses"""
    m = hy.mangle(s)
    cand = [m, s]
    body = s.lstrip("_")
    lead = s[:len(s) - len(body)]
    if len(body) > 1:
        cand.append(lead + body[0] + body[1:].replace("-", "_"))
        cand.append(lead + body[0] + body[1:].replace("_", "-"))
    cand.append(unicodedata.normalize("NFKC", s))
    try:
        cand.append(hy.unmangle(m))
    except Exception:
        pass
    cand += [s + "x", s.swapcase(), s + "-", "_" + s, s.replace("-", "--", 1), s[:-1] or "q", m + "_"]
    out = []
    for c in cand:
        if c and readable_symbol(hy, c) and "." not in c and c not in ("None", "True", "False", "_", "hy", "...") \
                and hy.mangle(c) not in ("None", "True", "False", "hy", "_") and not hy.mangle(c).startswith(("_hy_", RESERVED)):
            if c not in out:
                out.append(c)
    return out


# ------------------------------------------------------------------ running programs

class Env:
    def __init__(self, hy):
        self.hy = hy
        self.counter = 0

    def fresh(self, extra_macros=None):
        hy = self.hy
        self.counter += 1
        mod = types.ModuleType("zq_testmod_%d" % self.counter)
        log = []

        class zq_Rec:
            def __getattr__(self, k):
                if k.startswith("__") and k.endswith("__"):
                    raise AttributeError(k)
                log.append(("get", k))
                return lambda *a, **kw: ("called", k)

            def __setattr__(self, k, v):
                log.append(("set", k))

        class zq_Dict(dict):
            def __getitem__(self, k):
                log.append(("item", k))
                return 1

        class zq_Base:
            def __init_subclass__(cls, **kw):
                log.append(("classkw", tuple(sorted(kw))))

        def zq_f(*a, **kw):
            return sorted(kw)

        recmods = {}

        def rec_import(name, globals=None, locals=None, fromlist=(), level=0):
            if name == "hy" or name.startswith("hy."):
                return builtins.__import__(name, globals, locals, fromlist, level)
            log.append(("import", name, tuple(fromlist or ()), level))
            m = recmods.get(name)
            if m is None:
                class M(types.ModuleType):
                    def __getattr__(self, k):
                        if k.startswith("__") and k.endswith("__"):
                            raise AttributeError(k)
                        log.append(("from", k))
                        return ("imported", k)
                m = recmods[name] = M(name)
            return m

        b = dict(builtins.__dict__)
        b["__import__"] = rec_import
        mod.__dict__.update(__builtins__=b, zq_obj=zq_Rec(), zq_Rec=zq_Rec, zq_d=zq_Dict(), zq_f=zq_f, zq_Base=zq_Base)
        mod.zq_log = log
        return mod

    def run(self, src, mod=None, execute=True, extra_macros=None):
        """-> (module, ast, error class name or None, error message)"""
        hy = self.hy
        mod = mod or self.fresh()
        sys.modules[mod.__name__] = mod
        tree = None
        try:
            with warnings.catch_warnings():
                warnings.simplefilter("ignore")
                forms = hy.read_many(src)
                tree = hy.compiler.hy_compile(forms, mod, source=src, filename="<c34>", extra_macros=extra_macros)
                if execute:
                    exec(compile(tree, "<c34>", "exec"), mod.__dict__)
            return mod, tree, None, ""
        except Exception as e:
            return mod, tree, type(e).__name__, str(e)[:200]
        finally:
            sys.modules.pop(mod.__name__, None)


BASE_KEYS = None


def new_globals(mod):
    # compiler temporaries (_hy_...) are C12's subject; dunder entries belong to the module object
    return sorted(k for k in mod.__dict__ if not k.startswith(("zq_", "_hy_"))
                  and k not in ("hy", "__annotations__", "__builtins__", "__name__", "__doc__", "__package__", "__loader__", "__spec__"))


def how(src):
    return ("PYTHONPATH=%s python -c 'import hy,types,sys; m=types.ModuleType(\"m\"); sys.modules[\"m\"]=m; "
            "exec(compile(hy.compiler.hy_compile(hy.read_many(%r), m), \"<s>\", \"exec\"), m.__dict__)'" % (vlib.REPO, src))


# ------------------------------------------------------------------ AST-level: table vs compiled AST

def first(tree, typ, pred=lambda n: True):
    for n in ast.walk(tree):
        if isinstance(n, typ) and pred(n):
            return n
    return None


def strip_temp(prefix):
    def f(s):
        m = re.match(r"^_hy_%s_(.*)_\d+$" % prefix, s or "")
        return m.group(1) if m else ("<not a _hy_%s_ temporary: %r>" % (prefix, s))
    return f


AST_SITES = {
    # site: (program template, extractor of the observed identifier from the module AST, post-processing of the table's value)
    "S_symbol": ("(zq_f {n})", lambda t: first(t, ast.Call).args[0].id),
    "S_attr": ("(. zq_obj {n})", lambda t: first(t, ast.Attribute).attr),
    "S_method": ("(. zq_obj ({n} 1))", lambda t: first(t, ast.Attribute).attr),
    "S_param": ("(fn [{n}] 1)", lambda t: first(t, ast.arg).arg),
    "S_kwarg": ("(zq_f :{n} 1)", lambda t: first(t, ast.keyword).arg),
    "S_defn": ("(defn {n} [] 1)", lambda t: first(t, ast.FunctionDef).name),
    "S_defclass": ("(defclass {n} [])", lambda t: first(t, ast.ClassDef).name),
    "S_import_name": ("(import zq_mod [{n}])", lambda t: first(t, ast.ImportFrom).names[0].name),
    "S_import_asname": ("(import zq_mod [zq_x :as {n}])", lambda t: first(t, ast.ImportFrom).names[0].asname),
    "S_import_as": ("(import zq_mod :as {n})", lambda t: first(t, ast.Import, lambda n: n.names[0].name != "hy").names[0].asname),
    "S_import_module": ("(import {n})", lambda t: first(t, ast.Import, lambda n: n.names[0].name != "hy").names[0].name),
    "S_global": ("(global {n})", lambda t: first(t, ast.Global).names[0]),
    "S_match_as": ("(match 5 1 :as {n} 0)", lambda t: first(t, ast.MatchAs).name),
    "S_match_capture": ("(match 5 {n} 0)", lambda t: first(t, ast.MatchAs).name),
    "S_match_star": ("(match [5] [#* {n}] 0)", lambda t: first(t, ast.MatchStar).name),
    "S_match_rest": ("(match {{}} {{#** {n}}} 0)", lambda t: first(t, ast.MatchMapping).rest),
    "S_match_class_kwd": ("(match zq_obj (zq_Rec :{n} 1) 0)", lambda t: first(t, ast.MatchClass).kwd_attrs[0]),
    "S_except_name": ("(try 1 (except [{n} ValueError] 2))", lambda t: strip_temp("exc")(first(t, ast.ExceptHandler).name)),
    "S_setv_rename": ("(setv {n} (defn zq_g [] 1))", lambda t: first(t, ast.FunctionDef).name),
    "S_let_bind": ("(let [{n} 1] 2)", lambda t: strip_temp("let")(first(t, ast.Assign).targets[0].id)),
    "S_local_macro": ("(defn zq_g [] (defmacro {n} [] 1))",
                      lambda t: first(t, ast.Assign, lambda n: isinstance(n.targets[0], ast.Name)).targets[0].id),
    "S_deftype": ("(deftype {n} int)", lambda t: first(t, ast.TypeAlias).name.id),
    "S_typevar": ("(defn :tp [{n}] zq_g [] 1)", lambda t: first(t, ast.TypeVar).name),
    "S_typevartuple": ("(defn :tp [#* {n}] zq_g [] 1)", lambda t: first(t, ast.TypeVarTuple).name),
    "S_paramspec": ("(defn :tp [#** {n}] zq_g [] 1)", lambda t: first(t, ast.ParamSpec).name),
}
# sites with no AST field: observed through recording dictionaries / runtime behaviour
DYNAMIC_SITES = ["S_macro_install", "S_macro_lookup", "S_kw_call", "S_require_name", "S_require_alias", "S_defmacro_local"]


class RecMacros(dict):
    """a macro table that records every key it is asked about"""
    def __init__(self, log):
        super().__init__(zq_dummy=lambda: 1)
        self.log = log

    def __contains__(self, k):
        self.log.append(k)
        return False


def observe_dynamic(env, sid, nm):
    """-> observed key(s) at a site that has no AST field, or an error marker"""
    hy = env.hy
    if sid == "S_macro_install":
        mod, _, err, msg = env.run("(defmacro %s [] 1)" % nm, execute=False)
        return err and ("error", err, msg) or sorted(mod.__dict__.get("_hy_macros", {}))
    if sid == "S_macro_lookup":
        log = []
        mod, _, err, msg = env.run("(%s)" % nm, execute=False, extra_macros=RecMacros(log))
        # the lookup happens before a core macro of that name can object to the empty call
        return sorted(set(log)) if log else ("error", err, msg)
    if sid == "S_kw_call":
        log = []

        class D(dict):
            def __getitem__(self, k):
                log.append(k)
                return 1
        try:
            hy.models.Keyword(nm, from_parser=True)(D())
        except Exception as e:
            return ("error", type(e).__name__, str(e))
        return log
    if sid in ("S_require_name", "S_require_alias"):
        log = []

        class Src(dict):
            def __contains__(self, k):
                log.append(("src", k))
                return True

            def __getitem__(self, k):
                return lambda: 1
        src = types.ModuleType("zq_macmod")
        src._hy_macros = Src(zq_m=lambda: 1)
        sys.modules["zq_macmod"] = src
        try:
            if sid == "S_require_name":
                mod, _, err, msg = env.run("(require zq_macmod [%s])" % nm, execute=False)
                return err and ("error", err, msg) or [k for t, k in log]
            mod, _, err, msg = env.run("(require zq_macmod [zq_m :as %s])" % nm, execute=False)
            return err and ("error", err, msg) or sorted(mod.__dict__.get("_hy_macros", {}))
        finally:
            sys.modules.pop("zq_macmod", None)
    if sid == "S_defmacro_local":
        mod, _, err, msg = env.run("(defn zq_g [] (defmacro %s [] 1) (local-macros))\n(setv zq_r (zq_g))" % nm)
        return err and ("error", err, msg) or sorted(mod.__dict__.get("zq_r", {}))
    raise KeyError(sid)


def table_vs_ast(chk, env, table, names):
    hy = env.hy
    terms = {sid: term for sid, term, _ in table}
    for sid in terms:
        if sid not in AST_SITES and sid not in DYNAMIC_SITES:
            chk.obligation("every site of the table has an observation in the harness: " + sid, False)
    for kind, nm in names:
        for sid, term in terms.items():
            pred = neval(term, hy.mangle, nm, "")
            if sid in AST_SITES:
                if sid in ("S_param",) and nm in ("/", "*"):
                    continue
                tmpl, ext = AST_SITES[sid]
                src = tmpl.format(n=nm)
                mod, tree, err, msg = env.run(src, execute=False)
                if err:
                    obs = ("error", err, msg)
                else:
                    try:
                        obs = ext(tree)
                    except Exception as e:
                        obs = ("no-such-node", type(e).__name__)
            else:
                obs = observe_dynamic(env, sid, nm)
                if isinstance(obs, list):
                    obs = obs[0] if len(obs) == 1 else ("several", tuple(obs))
            chk.count("corr:table-vs-ast")
            chk.case(("ast", sid, nm), nontrivial=(pred != nm))
            if obs != pred:
                chk.disagree("Gen/NameSites (evaluated with hy.mangle) vs identifier at the site", {"site": sid, "name": nm},
                             pred, obs)


# ------------------------------------------------------------------ runtime oracle

def sig_names(f):
    c = f.__code__
    n = c.co_argcount + c.co_kwonlyargcount + bool(c.co_flags & inspect.CO_VARARGS) + bool(c.co_flags & inspect.CO_VARKEYWORDS)
    return list(c.co_varnames[:n])


def o_globals(src):
    """the program must create exactly the global mangle(n)"""
    return ("globals", src)


CONSTRUCTS = [
    # (id, template, observation kind, extra)
    ("variable", "(setv {n} 11)", "globals"),
    ("variable-annotated", "(setv #^ int {n} 11)", "globals"),
    ("walrus", "(zq_f (setx {n} 11))", "globals"),
    ("for-target", "(for [{n} [1]] 0)", "globals"),
    ("with-target", "(with [{n} (open \"/dev/null\")] 0)", "globals"),
    ("function-name", "(defn {n} [] 1)", "globals+name"),
    ("function-name-via-setv", "(setv {n} (defn zq_g [] 1))", "globals+name"),
    ("class-name", "(defclass {n} [])", "globals+name"),
    ("type-alias", "(deftype {n} int)", "globals"),
    ("global-decl", "(defn zq_g [] (global {n}) (setv {n} 5))\n(zq_g)", "globals:zq_g"),
    ("match-capture", "(match 5 {n} 0)", "globals"),
    ("match-as", "(match 5 1 0 _ :as {n} 0)", "globals"),
    ("match-star", "(match [5] [#* {n}] 0)", "globals"),
    ("match-rest", "(match {{\"k\" 1}} {{#** {n}}} 0)", "globals"),
    ("import-from", "(import zq_mod [{n}])", "globals+from"),
    ("import-from-as", "(import zq_mod [zq_x :as {n}])", "globals"),
    ("import-as", "(import zq_mod :as {n})", "globals"),
    ("import-module", "(import {n})", "globals+import"),
    ("import-submodule", "(import zq_pkg.{n})", "import-dotted"),
    ("param", "(defn zq_g [{n}] {n})", "sig"),
    ("param-posonly", "(defn zq_g [{n} /] {n})", "sig"),
    ("param-default", "(defn zq_g [[{n} 1]] {n})", "sig"),
    ("param-kwonly", "(defn zq_g [* {n}] {n})", "sig"),
    ("param-varargs", "(defn zq_g [#* {n}] {n})", "sig"),
    ("param-kwargs", "(defn zq_g [#** {n}] {n})", "sig"),
    ("param-annotated", "(defn zq_g [#^ int {n}] {n})", "sig"),
    ("param-lambda", "(setv zq_g (fn [{n}] {n}))", "sig"),
    ("typevar", "(defn :tp [{n}] zq_g [] 1)", "typeparam"),
    ("kwarg", "(setv zq_r (zq_f :{n} 1))", "result-list"),
    ("kwarg-method", "(setv zq_r ((. zq_f __call__) :{n} 1))", "result-list"),
    ("kwarg-class", "(defclass zq_C [zq_Base :{n} 1])", "log:classkw"),
    ("attr-dot-form", "(. zq_obj {n})", "log:get"),
    ("attr-dotted-ident", "zq_obj.{n}", "log:get"),
    ("attr-set", "(setv zq_obj.{n} 1)", "log:set"),
    ("attr-set-dot-form", "(setv (. zq_obj {n}) 1)", "log:set"),
    ("method-dot-form", "(. zq_obj ({n} 1))", "log:get"),
    ("method-leading-dot", "(.{n} zq_obj 1)", "log:get"),
    ("method-dotted-head", "(zq_obj.{n} 1)", "log:get"),
    ("keyword-call", "(:{n} zq_d)", "log:item"),
    ("match-class-keyword", "(match zq_obj (zq_Rec :{n} 1) 0)", "log:get"),
    ("macro-name", "(defmacro {n} [] 7)", "macros"),
    # definitions inside a let that binds the same name: the definition takes the name over (ScopeLet.define)
    ("import-from-inside-let", "(let [{n} 11] (import zq_mod [{n}]) (setv zq_r {n}))", "result-imported"),
    ("import-from-as-inside-let", "(let [{n} 11] (import zq_mod [zq_x :as {n}]) (setv zq_r {n}))", "result-imported:zq_x"),
    ("import-as-inside-let", "(let [{n} 11] (import zq_mod :as {n}) (setv zq_r (. {n} __name__)))", "result-value:zq_mod"),
    ("defn-inside-let", "(let [{n} 11] (defn {n} [] 5) (setv zq_r ((do {n}))))", "result-value:5"),
    ("defclass-inside-let", "(let [{n} 11] (defclass {n} [] (setv zq_v 5)) (setv zq_r (. (do {n}) zq_v)))", "result-value:5"),
]

PAIRS = [
    # (id, template with {a} binding and {b} referring, value when they are the same binding, how a miss shows)
    ("variable/variable", "(setv {a} 11)\n(setv zq_r {b})", 11),
    ("param/variable", "(defn zq_g [{a}] {b})\n(setv zq_r (zq_g 11))", 11),
    ("param/kwarg", "(defn zq_g [{a}] {a})\n(setv zq_r (zq_g :{b} 11))", 11),
    ("kwonly/kwarg", "(defn zq_g [* {a}] {a})\n(setv zq_r (zq_g :{b} 11))", 11),
    ("defn/call", "(defn {a} [] 11)\n(setv zq_r ((do {b})))", 11),
    ("defclass/variable", "(defclass {a} [] (setv zq_v 11))\n(setv zq_r (. (do {b}) zq_v))", 11),
    ("class-attr/attr", "(defclass zq_C [] (setv {a} 11))\n(setv zq_r (. zq_C {b}))", 11),
    ("class-attr/keyword-call", "(defclass zq_C [] (setv {a} 11))\n(setv zq_r (:{b} (vars zq_C)))", 11),
    ("class-attr/match-class-keyword", "(defclass zq_C [] (setv {a} 11))\n(setv zq_r (match (zq_C) (zq_C :{b} 11) 11 _ 12))", 11),
    ("let/variable", "(let [{a} 11] (setv zq_r {b}))", 11),
    ("except/variable", "(try (raise (ValueError 11)) (except [{a} ValueError] (setv zq_r (get (. {b} args) 0))))", 11),
    ("global/variable", "(defn zq_g [] (global {a}) (setv {a} 11))\n(zq_g)\n(setv zq_r {b})", 11),
    ("nonlocal/variable", "(defn zq_g [] (setv {a} 1) (defn zq_h [] (nonlocal {b}) (setv {b} 11)) (zq_h) {a})\n(setv zq_r (zq_g))", 11),
    ("match-capture/variable", "(setv zq_r (match 11 {a} {b}))", 11),
    ("match-as/variable", "(setv zq_r (match 11 11 :as {a} {b}))", 11),
    ("lfor/variable", "(setv zq_r (get (lfor {a} [11] {b}) 0))", 11),
    ("import-as/variable", "(import zq_mod [zq_x :as {a}])\n(setv zq_r (if (= {b} #(\"imported\" \"zq_x\")) 11 12))", 11),
    ("defmacro/macro-call", "(defmacro {a} [] 11)\n(setv zq_r ({b}))", 11),
    ("local-defmacro/macro-call", "(defn zq_g [] (defmacro {a} [] 11) ({b}))\n(setv zq_r (zq_g))", 11),
    ("require-as/macro-call", "(require zq_macmod [zq_m :as {a}])\n(setv zq_r ({b}))", 11),
    ("require-prefix/dotted-macro-call", "(require zq_macmod :as {a})\n(setv zq_r ({b}.zq_m))", 11),
    ("require-prefix/dotted-macro-call-mangled-macro", "(require zq_macmod :as {a})\n(setv zq_r ({b}.zq-m2))", 11),
    ("setv-rename/variable", "(setv {a} (defn zq_g [] 11))\n(setv zq_r ((do {b})))", 11),
]


def install_macmod(hy):
    src = types.ModuleType("zq_macmod")
    src._hy_macros = {"zq_m": lambda: 11, "zq_m2": lambda: 11}
    sys.modules["zq_macmod"] = src


def class_kwd_matcher(rec, params):
    """the class-pattern keyword attribute of `match` is emitted unmangled: only failures of exactly that construct,
    and only for names whose mangling differs from the name (the observed attribute is the raw keyword text)"""
    inp = rec.get("input", {})
    if rec.get("key") == "construct:match-class-keyword":
        return inp.get("mangled") != inp.get("name") and rec.get("observed") == [inp.get("name")]
    if rec.get("key") == "pair:class-attr/match-class-keyword":
        return inp.get("same_mangling") is True and inp.get("b") != inp.get("mangled_b")
    return False


def run_constructs(chk, env, names):
    hy = env.hy
    core = set(getattr(builtins, "_hy_macros", {}))
    for kind, nm in names:
        m = hy.mangle(nm)
        for cid, tmpl, obs in CONSTRUCTS:
            if cid.startswith("param") and nm in ("/", "*"):
                chk.count("filtered:slash-or-star-as-parameter")
                continue
            if cid in ("attr-dotted-ident", "attr-set", "method-leading-dot", "method-dotted-head"):
                probe = "zq_obj." + nm if cid != "method-leading-dot" else "." + nm
                try:
                    r = hy.read(probe + " ")
                    ok = isinstance(r, hy.models.Expression) and str(r[-1]) == nm and len(r) == 3
                except Exception:
                    ok = False
                if not ok:
                    chk.count("filtered:not-readable-as-dotted-part")
                    continue
            dunder = m.startswith("__") and m.endswith("__")
            if dunder and (obs.startswith("log:") or "import" in cid or "inside-let" in cid):
                chk.count("filtered:dunder-name-on-recording-object")
                continue
            if cid == "import-submodule" and not readable_dotted(hy, "zq_pkg." + nm, nm):
                chk.count("filtered:not-readable-as-dotted-part")
                continue
            src = tmpl.format(n=nm)
            mod = env.fresh()
            mod, tree, err, msg = env.run(src, mod)
            chk.count("construct:" + cid)
            chk.case(("construct", cid, nm), nontrivial=(m != nm),
                     sample={"construct": cid, "program": src, "expected_identifier": m} if (chk.evaluations % 1499 == 3) else None)
            inp = {"construct": cid, "name": nm, "mangled": m, "program": src}

            def bad(observed, expected):
                chk.fail("construct:" + cid, inp, observed, expected, how(src))
            if err:
                bad("%s: %s" % (err, msg), "identifier %r" % m)
                continue
            log = mod.zq_log
            if obs == "globals" or obs.startswith("globals"):
                g = new_globals(mod)
                want = [m]
                if g != want:
                    bad(g, want)
                    continue
                if cid == "variable-annotated" and list(mod.__dict__.get("__annotations__", {})) != [m]:
                    bad(list(mod.__dict__.get("__annotations__", {})), [m])
                if obs == "globals+name" and getattr(mod.__dict__[m], "__name__", None) != m:
                    bad(getattr(mod.__dict__[m], "__name__", None), m)
                if obs == "globals+from" and [x[1] for x in log if x[0] == "from"] != [m]:
                    bad([x for x in log if x[0] in ("from", "import")], [("from", m)])
                if obs == "globals+import" and [x[1] for x in log if x[0] == "import"] != [m]:
                    bad([x for x in log if x[0] == "import"], [("import", m)])
            elif obs == "import-dotted":
                got = [x[1] for x in log if x[0] == "import"]
                if got != ["zq_pkg." + m]:
                    bad(got, ["zq_pkg." + m])
            elif obs == "sig":
                got = sig_names(mod.zq_g)
                if got != [m]:
                    bad(got, [m])
            elif obs == "typeparam":
                got = [t.__name__ for t in mod.zq_g.__type_params__]
                if got != [m]:
                    bad(got, [m])
            elif obs.startswith("result-imported"):
                want = ("imported", obs.split(":")[1] if ":" in obs else m)
                if mod.__dict__.get("zq_r") != want:
                    bad(mod.__dict__.get("zq_r", "<unbound>"), want)
            elif obs.startswith("result-value:"):
                want = obs.split(":", 1)[1]
                if str(mod.__dict__.get("zq_r", "<unbound>")) != want:
                    bad(mod.__dict__.get("zq_r", "<unbound>"), want)
            elif obs == "result-list":
                if mod.__dict__.get("zq_r") != [m]:
                    bad(mod.__dict__.get("zq_r"), [m])
            elif obs.startswith("log:"):
                tag = obs[4:]
                got = [x[1] for x in log if x[0] == tag]
                want = [m] if tag != "classkw" else [(m,)]
                if got != want:
                    bad(got, want)
            elif obs == "macros":
                got = sorted(mod.__dict__.get("_hy_macros", {}))
                if got != [m]:
                    bad(got, [m])


def readable_dotted(hy, text, last):
    try:
        r = hy.read(text + " ")
        return isinstance(r, hy.models.Expression) and str(r[-1]) == last
    except Exception:
        return False


REQUIRE_RUNTIME = [
    # (id, program, expected keys of _hy_macros as a function of the mangled name)
    ("require-alias-at-run-time", "(require zq_macmod [zq_m :as {n}])", lambda m: [m]),
    ("require-two-aliases-at-run-time", "(require zq_macmod [zq_m :as {n} zq-m2 :as zq-other])", lambda m: sorted([m, "zq_other"])),
    ("require-prefix-at-run-time", "(require zq_macmod :as {n})", lambda m: sorted([m + ".zq_m", m + ".zq_m2"])),
]


def run_require_runtime(chk, env, names):
    """What a module does when it is loaded from its cached bytecode: only the run-time code that compile_require
    emitted runs (hy.macros.require without a compiler, with the names as written in the brackets).  The program is
    compiled in one module object and its code executed in a fresh module of the same name; the macro table of that
    fresh module must hold the mangled alias."""
    hy = env.hy
    install_macmod(hy)
    try:
        for kind, nm in names:
            m = hy.mangle(nm)
            for cid, tmpl, want_of in REQUIRE_RUNTIME:
                src = tmpl.format(n=nm)
                mod1 = env.fresh()
                mod1, tree, err, msg = env.run(src, mod1, execute=False)
                chk.count("construct:" + cid)
                chk.case(("construct", cid, nm), nontrivial=(m != nm))
                inp = {"construct": cid, "name": nm, "mangled": m, "program": src}
                if err:
                    chk.fail("construct:" + cid, inp, "%s: %s" % (err, msg), "macro key %r" % m, how(src))
                    continue
                mod2 = types.ModuleType(mod1.__name__)
                sys.modules[mod2.__name__] = mod2
                try:
                    with warnings.catch_warnings():
                        warnings.simplefilter("ignore")
                        exec(compile(tree, "<c34>", "exec"), mod2.__dict__)
                    got = sorted(mod2.__dict__.get("_hy_macros", {}))
                except Exception as e:
                    got = "%s: %s" % (type(e).__name__, str(e)[:120])
                finally:
                    sys.modules.pop(mod2.__name__, None)
                want = want_of(m)
                if got != want:
                    chk.fail("construct:" + cid, inp, got, want,
                             "compile the program in module X, then exec the code object in a fresh module named X and look at its _hy_macros")
    finally:
        sys.modules.pop("zq_macmod", None)


def run_pairs(chk, env, names, per_name):
    hy = env.hy
    rng = chk.rng
    core = set(getattr(builtins, "_hy_macros", {}))
    install_macmod(hy)
    try:
        for kind, a in names:
            ps = partners(hy, rng, a)
            rng.shuffle(ps)
            same = [b for b in ps if hy.mangle(b) == hy.mangle(a)]
            diff = [b for b in ps if hy.mangle(b) != hy.mangle(a)]
            chosen = same[:per_name] + diff[:per_name]
            for b in chosen:
                eq = hy.mangle(a) == hy.mangle(b)
                for pid, tmpl, val in PAIRS:
                    if "param" in pid or "kwonly" in pid:
                        if a in ("/", "*"):
                            continue
                    if pid.startswith("class-attr") and hy.mangle(a).startswith("__"):
                        # Python's own class-private renaming and special methods
                        chk.count("filtered:python-class-private-or-special-name")
                        continue
                    if "dotted-macro-call" in pid and not (readable_dotted(hy, b + ".zq_m", "zq_m") and "." not in b):
                        chk.count("filtered:not-readable-as-dotted-part")
                        continue
                    if "macro-call" in pid and (hy.mangle(b) in core and not eq):
                        chk.count("filtered:reference-is-a-core-macro")
                        continue
                    src = tmpl.format(a=a, b=b)
                    mod, tree, err, msg = env.run(src)
                    chk.count("pair:" + pid)
                    chk.count("pair-same-mangling" if eq else "pair-different-mangling")
                    chk.case(("pair", pid, a, b), nontrivial=(a != b and eq) or (not eq),
                             sample={"pair": pid, "program": src, "same_binding_expected": eq}
                             if (chk.evaluations % 2999 == 5) else None)
                    got = mod.__dict__.get("zq_r", "<unbound>") if not err else "%s" % err
                    reached = (not err) and got == val
                    inp = {"pair": pid, "a": a, "b": b, "mangled_a": hy.mangle(a), "mangled_b": hy.mangle(b),
                           "same_mangling": eq, "program": src}
                    if eq and not reached:
                        chk.fail("pair:" + pid, inp, "%s %s" % (got, msg if err else ""), "the binding of %r is reached through %r" % (a, b), how(src))
                    if not eq and reached:
                        chk.fail("pair:" + pid, inp, got, "%r does not reach the binding of %r" % (b, a), how(src))
    finally:
        sys.modules.pop("zq_macmod", None)


def corpus_first(chk, env):
    """minimised past failures (corpus/C34/cases.json): program text and the globals it must produce"""
    import json
    import os
    path = os.path.join(vlib.VERIF, "corpus", "C34", "cases.json")
    if not os.path.exists(path):
        return
    for c in json.load(open(path)):
        mod, tree, err, msg = env.run(c["source"])
        chk.count("corpus")
        chk.case(("corpus", c["source"]), nontrivial=True)
        got = {k: mod.__dict__.get(k, "<unbound>") for k in c["expect"]}
        if err or got != c["expect"]:
            chk.fail("corpus-regression", {"program": c["source"], "note": c["note"]}, err or got, c["expect"], how(c["source"]))


def run(chk):
    chk.trusted = TRUSTED
    chk.assumptions = [
        "names are those the reader yields as one plain Symbol; None/True/False/.../_ (special meaning), `hy`, names whose "
        "mangling is a constant name or starts with _hy_ are filtered and counted; / and * are not used as parameters",
        "`refers to the Python identifier (hy.mangle s)` is observed as: the key created in module globals, the "
        "__name__ of functions/classes, inspect.signature parameter names, received **kwargs keys, the attribute name "
        "seen by __getattr__/__setattr__, the names given to __import__, the key in _hy_macros, the key passed to "
        "__getitem__ by (:s obj)",
        "for let and except the identifier is a compiler temporary; what is checked is which references reach the binding",
    ]
    chk.matchers["c34_match_class_keyword_unmangled"] = class_kwd_matcher
    ok = chk.prove("Props/C34.v", ["Props/C34.vo"], [names_sites.translate])
    thorough = chk.tier == "thorough"
    hy = vlib.use_repo_in_process()
    import hy.compiler  # noqa
    env = Env(hy)
    try:
        table = names_sites.sites(vlib.REPO)
    except Exception as e:   # a broken tie must not stop the oracle
        table = []
        chk.notes.append("site table not available: %s: %s" % (type(e).__name__, e))
    chk.extra["sites"] = [{"site": s, "expr": repr(t), "where": w} for s, t, w in table]
    chk.extra["class_kwd_site_mangles"] = any(s == "S_match_class_kwd" and t[0] == "NMangle" for s, t, _ in table)
    if table and ok:
        try:
            coq_correspondence(chk, table)
        except Exception as e:
            chk.obligation("Coq neval evaluates on the generated table", False, str(e)[-1500:])
    corpus_first(chk, env)
    names = gen_names(chk, hy, 1500 if thorough else 110)
    for k, _ in names:
        chk.count("namekind:" + k)
    chk.rule = ("names = fixed list of hyphen/underscore/punctuation/Unicode/keyword names + seeded random names of 6 kinds, "
                "kept when the reader yields them as one Symbol; each name is put into every construct template "
                "(%d constructs) and, with partners of equal and of different mangling, into every binding/reference pair "
                "template (%d pairs); table-vs-AST: each name at each regenerated site; non-trivial = the name's mangling "
                "differs from the name (constructs), partner differs from the name or has another mangling (pairs)"
                % (len(CONSTRUCTS), len(PAIRS)))
    if table:
        sub = names if thorough else names[:90]
        table_vs_ast(chk, env, table, sub)
    run_constructs(chk, env, names)
    run_require_runtime(chk, env, names)
    run_pairs(chk, env, names if thorough else names[:100], 2 if thorough else 1)
    chk.extra["names"] = len(names)


def replay(path):
    """re-run the program of a replay file and show the resulting names"""
    import json
    d = json.load(open(path))
    print(json.dumps({k: d.get(k) for k in ("key", "input", "observed", "expected")}, indent=1, ensure_ascii=False)[:3000])
    inp = d.get("input", {})
    if "program" not in inp:
        return 1
    hy = vlib.use_repo_in_process()
    import hy.compiler  # noqa
    env = Env(hy)
    mod, tree, err, msg = env.run(inp["program"])
    print("error:", err, msg)
    print("globals:", new_globals(mod), "log:", mod.zq_log[:20], "zq_r:", mod.__dict__.get("zq_r", "<unbound>"))
    return 1
