"""C17 -- Runtime tracebacks point at the line of the failing form."""
import ast
import sys
import traceback
import types
import warnings

from lib import vlib
from translator import pos_tables

META = {
    "technique": "Coq model of position propagation (Asty._get_pos choice with the regenerated POS_ATTRS table, the "
                 "position source of every asty.X(...) call site regenerated from the handlers, Object/Sequence.replace for "
                 "macro output, reader nesting) with the theorem that every emitted node's lineno lies in the source form's "
                 "line span; AST-level containment check and traceback oracle on generated multi-line programs with one "
                 "raising form moved over every position and context",
    "level_text": "Theorems (coq/Props/C17.v): for every form tree whose positions are nested (reader invariant) and every "
                  "handler that positions its nodes by the form, one of its sub-forms, or a node/Result already emitted "
                  "for them (the regenerated call-site table is checked to contain only such sources), every emitted "
                  "node's lineno lies within the form's line span, also through statement lifting "
                  "(C17_emitted_lines_within_span_partial); Sequence.replace gives every position-less node of a macro "
                  "expansion the call form's span and keeps positioned ones (C17_macro_expansion_positions). Each run "
                  "checks, on the real compiler, AST-level containment for every node of generated programs and that the "
                  "innermost traceback frame of the compiled module lies in the raising form's reader span, for ~60 "
                  "contexts x raising forms x layouts.",
    "level_note": "Partial: CPython's line table (tb_lineno = lineno of the raising node) is an oracle hypothesis validated "
                  "by the traceback oracle; handlers are represented by the position sources of their asty calls (T1), "
                  "not by full handler models. Trusted: Coq kernel, translator/pos_tables.py, harness.",
}

TRUSTED = [
    "Coq 8.16.1 kernel; vm_compute for the obligations over Gen/PosTables.v",
    "axioms: none",
    "translator/pos_tables.py: Asty.POS_ATTRS and, for every handler, the first argument of each asty.X(...) call "
    "(fail-closed on new argument shapes); the classification of handler variables into form / sub-form / emitted "
    "node is written by hand in the translator and checked by the AST-level containment run",
    "oracle hypothesis tb_lineno_is_node_lineno (CPython attributes a raise to the lineno of the raising node): "
    "validated by the traceback oracle on every generated program",
    "reader invariant `nested` (children's spans inside the parent's, C21's subject) is a hypothesis of the theorem; "
    "the harness measures it on every program it reads",
]

# ------------------------------------------------------------------ programs

RAISERS = [
    # (id, text with optional line breaks, exception class)
    ("raise", "(raise (ValueError \"boom\"))", "ValueError"),
    ("raise-multiline", "(raise\n    (ValueError\n      \"boom\"))", "ValueError"),
    ("div", "(/ 1 0)", "ZeroDivisionError"),
    ("div-multiline", "(/ 1\n     0)", "ZeroDivisionError"),
    ("pycall", "(zq_fail)", "RuntimeError"),
    ("pycall-multiline", "(zq_fail\n    1\n    2)", "RuntimeError"),
    ("name", "zq_undefined_name", "NameError"),
    ("index", "(get [] 3)", "IndexError"),
    ("attr", "(. None zq_nope)", "AttributeError"),
    ("method", "(.zq_nope None)", "AttributeError"),
    ("typeerr", "(+ 1 \"a\")", "TypeError"),
    ("assert", "(assert False)", "AssertionError"),
    ("macro-generated", "(zq-boom)", "ZeroDivisionError"),
    ("macro-generated-multiline", "(zq-boom\n  )", "ZeroDivisionError"),
    ("macro-wrapped", "(zq-wrap (/ 1 0))", "ZeroDivisionError"),
    ("macro-gensym", "(zq-plus (/ 1 0))", "ZeroDivisionError"),
    ("inline-python", "(py \"1/0\")", "ZeroDivisionError"),
    ("import", "(import zq_no_such_module)", "ModuleNotFoundError"),
    ("unpack", "(zq_id #* 5)", "TypeError"),
    ("lambda-call", "((fn [] (/ 1 0)))", "ZeroDivisionError"),
    ("comprehension", "(lfor i [1] (/ i 0))", "ZeroDivisionError"),
    ("when-macro", "(when True (/ 1 0))", "ZeroDivisionError"),
    ("cond-macro", "(cond False 1\n      True (/ 1 0))", "ZeroDivisionError"),
    ("fstring", "f\"a{(/ 1 0)}b\"", "ZeroDivisionError"),
    ("statement-lifted", "(zq_id (do (setv zq_q 1) zq_q) (/ 1 0))", "ZeroDivisionError"),
    ("try-reraise", "(try (/ 1 0) (finally (setv zq_q 2)))", "ZeroDivisionError"),
    ("with-body", "(with [zq_f (open \"/dev/null\")]\n    (/ 1 0))", "ZeroDivisionError"),
    ("chained-compare", "(< 1 (/ 1 0) 3)", "ZeroDivisionError"),
    # user-defined reader macros: the raising form is synthesised by the reader macro, several levels below what it returns
    ("reader-macro", "#zq-ratio 1 0", "ZeroDivisionError"),
    ("reader-macro-multiline", "#zq-ratio 1\n      0", "ZeroDivisionError"),
    ("reader-macro-deep", "#zq-deep \"s\"", "TypeError"),
    ("quote-sugar", "(zq_id '(a b) (/ 1 0))", "ZeroDivisionError"),
    # inline Python whose text has several lines although the Hy string literal sits on one line (escaped newlines)
    ("pys-escaped-newlines", "(pys \"zq_a = 1\\nzq_b = 2\\nzq_c = zq_a / 0\")", "ZeroDivisionError"),
    ("py-escaped-newlines", "(py \"(1 +\\n 2 +\\n 1/0)\")", "ZeroDivisionError"),
    ("pys-real-newlines", "(pys \"zq_a = 1\nzq_c = zq_a / 0\")", "ZeroDivisionError"),
    # a destructuring let whose value has the wrong shape: the unpacking itself raises
    ("let-destructure-list", "(let [[zq_a zq_b] [1]] zq_a)", "ValueError"),
    ("let-destructure-multiline", "(let [[zq_a\n       zq_b] [1 2 3]]\n    zq_a)", "ValueError"),
    ("let-destructure-tuple", "(let [#(zq_a zq_b) 5] zq_a)", "TypeError"),
    ("let-destructure-star", "(let [[zq_a #* zq_b] 5] zq_a)", "TypeError"),
    ("setv-destructure", "(setv [zq_a zq_b] [1])", "ValueError"),
    # several operands of an augmented assignment are aggregated by a synthesised form: the aggregation itself raises
    ("augassign-aggregate", "(do (setv zq_t 1) (+= zq_t 1 \"s\"))", "TypeError"),
    ("augassign-aggregate-multiline", "(do (setv zq_t 1)\n    (-= zq_t 1\n      \"s\"))", "TypeError"),
    # an f-string replacement field built by a macro: the formatting itself raises
    ("macro-fstring-spec", "(zq-fs 5)", "ValueError"),
    ("macro-fstring-spec-multiline", "(zq-fs\n    5)", "ValueError"),
    ("fstring-spec", "f\"{5 :zz}\"", "ValueError"),
]

PRELUDE_PARTS = [
    ("zq-boom", "(defmacro zq-boom [] '(/ 1 0))\n"),
    ("zq-wrap", "(defmacro zq-wrap [x] `(do ~x))\n"),
    ("zq-plus", "(defmacro zq-plus [x] `(let [t# 1] (+ t# ~x)))\n"),
    ("zq-deffn", "(defmacro zq-deffn [] '(defn zq-made [] (/ 1 0)))\n"),
    ("zq-fs", "(defmacro zq-fs [x] `f\"{~x :zz}\")\n"),
    ("zq-ratio", "(defreader zq-ratio\n  (setv a (.parse-one-form &reader)\n        b (.parse-one-form &reader))\n"
                 "  `(do\n     (setv zq-last-ratio (/ ~a ~b))\n     zq-last-ratio))\n"),
    ("zq-deep", "(defreader zq-deep\n  (setv a (.parse-one-form &reader))\n"
                "  `(if True (do (setv zq-deep-v [(+ 1 (get [~a] 0))]) zq-deep-v) None))\n"),
]


def prelude_for(text):
    """only the macro / reader-macro definitions the program uses (each costs a compile-time evaluation)"""
    # the leading comment keeps every form off line 1, the line an unpositioned model reports
    return "; c17 program\n" + "".join(part for name, part in PRELUDE_PARTS if name in text)


# contexts: text with the hole «H»; the raising form is evaluated when the program runs
CONTEXTS = [
    ("toplevel", "«H»"),
    ("setv", "(setv zq_v «H»)"),
    ("setv-multiline", "(setv zq_v\n  «H»)"),
    ("call-arg", "(zq_id «H»)"),
    ("call-arg-own-line", "(zq_id 1\n  «H»\n  2)"),
    ("kwarg", "(zq_id :k\n  «H»)"),
    ("do", "(do 1\n  «H»\n  2)"),
    ("if-test", "(if «H» 1 2)"),
    ("if-then", "(if True\n  «H»\n  2)"),
    ("if-else", "(if False 1\n  «H»)"),
    ("if-lifted", "(setv zq_v (if True\n  (do (setv zq_w 1) «H»)\n  2))"),
    ("when", "(when True\n  1\n  «H»)"),
    ("cond", "(cond False 1\n  True «H»)"),
    ("and", "(and 1\n  «H»)"),
    ("or", "(or 0\n  «H»)"),
    ("and-lifted", "(and 1 (do (setv zq_w 1) zq_w)\n  «H»)"),
    ("not", "(not «H»)"),
    ("binop", "(+ 1\n  «H»\n  2)"),
    ("compare", "(< 1\n  «H»)"),
    ("get", "(get «H» 0)"),
    ("dot", "(. «H» real)"),
    ("list", "[1\n  «H»]"),
    ("dict", "{\"a\" 1\n  \"b\" «H»}"),
    ("tuple", "#(1 «H»)"),
    ("fstring", "f\"x{«H»}\""),
    ("try-body", "(try\n  «H»\n  (finally (setv zq_w 1)))"),
    ("try-except", "(try (raise (KeyError))\n  (except [KeyError]\n    «H»))"),
    ("try-else", "(try 1 (except [KeyError] 2)\n  (else «H»))"),
    ("try-finally", "(try 1\n  (finally «H»))"),
    ("try-as-value", "(setv zq_v (try 1 (finally\n  «H»)))"),
    ("with-body", "(with [zq_f (open \"/dev/null\")]\n  1\n  «H»)"),
    ("with-item", "(with [zq_f\n  «H»]\n  1)"),
    ("for-body", "(for [zq_i [1 2]]\n  «H»)"),
    ("for-iter", "(for [zq_i «H»] 1)"),
    ("for-else", "(for [zq_i []] 1\n  (else «H»))"),
    ("while-test", "(while «H» 1)"),
    ("while-test-lifted", "(while (do (setv zq_w 1) «H»)\n  (break))"),
    ("while-body", "(while True\n  «H»\n  (break))"),
    ("lfor-elt", "(lfor zq_i [1]\n  «H»)"),
    ("lfor-iter", "(lfor zq_i «H» zq_i)"),
    ("lfor-if", "(lfor zq_i [1] :if «H» zq_i)"),
    ("lfor-lifted", "(lfor zq_i [1] :do (setv zq_w 2)\n  «H»)"),
    ("lfor-setv", "(lfor zq_i [1] :setv zq_j\n  «H» zq_j)"),
    ("dfor", "(dfor zq_i [1] zq_i\n  «H»)"),
    ("sfor", "(sfor zq_i [1] «H»)"),
    ("gfor", "(list (gfor zq_i [1]\n  «H»))"),
    ("defn-body", "(defn zq_g []\n  1\n  «H»)\n\n(zq_g)"),
    ("defn-default", "(defn zq_g [[a «H»]] a)"),
    ("defn-decorator", "(defn [«H»] zq_g [] 1)"),
    ("defn-nested", "(defn zq_g []\n  (defn zq_h []\n    «H»)\n  (zq_h))\n(zq_g)"),
    ("fn-call", "((fn [zq_a]\n  «H») 1)"),
    ("fn-stmts", "((fn []\n  (setv zq_w 1)\n  «H»))"),
    ("defclass-body", "(defclass zq_C []\n  (setv zq_a 1)\n  «H»)"),
    ("method", "(defclass zq_C []\n  (defn zq_m [self]\n    «H»))\n(.zq_m (zq_C))"),
    ("match-subject", "(match «H» 1 2)"),
    ("match-body", "(match 1\n  1 «H»)"),
    ("match-guard", "(match 1\n  zq_x :if «H» 2)"),
    ("match-guard-lifted", "(match 1\n  zq_x :if (do (setv zq_w 1) «H») 2)"),
    ("let-value", "(let [zq_a «H»] zq_a)"),
    ("let-body", "(let [zq_a 1]\n  «H»)"),
    ("setv-unpack", "(setv [zq_a zq_b] «H»)"),
    ("setx", "(zq_id (setx zq_a «H»))"),
    ("return", "((fn [] (return\n  «H»)))"),
    ("yield", "(list ((fn [] (yield\n  «H»))))"),
    ("assert-test", "(assert «H»)"),
    ("assert-msg-lifted", "(assert (do (setv zq_w 1) True)\n  «H»)"),
    ("raise-arg", "(raise (ValueError «H»))"),
    ("quasiquote", "`(a ~«H»)"),
    ("macro-arg", "(zq-wrap\n  «H»)"),
    ("macro-gensym-arg", "(zq-plus\n  «H»)"),
    ("cut", "(cut [1 2] «H»)"),
    ("unpack-iterable", "(zq_id #* «H»)"),
    ("chainc", "(chainc 1 <\n  «H»)"),
    ("augassign", "(setv zq_a 1)\n(+= zq_a\n  «H»)"),
    ("augassign-multi", "(setv zq_a 1)\n(+= zq_a 1\n  «H»)"),
    ("augassign-multi-first", "(setv zq_a 1)\n(*= zq_a\n  «H» 2 3)"),
    ("del-target", "(del (get «H» 0))"),
    ("eval-and-compile-fn", "(eval-and-compile (defn zq_e []\n  «H»))\n(zq_e)"),
]
# raising forms that are statements cannot sit in every hole that needs a value; the compiler lifts them, that is the point
SPECIAL = [
    # a function defined by a macro, called elsewhere: the raising form exists only in the expansion of the macro call
    ("macro-defined-function", "(zq-deffn\n  )\n\n(zq-made)", "(zq-deffn\n  )", "ZeroDivisionError"),
    # a keyword pattern is compiled to a class pattern on hy.models.Keyword; make that lookup fail
    ("match-keyword-pattern", "(defn zq_g [zq_x]\n  (setv hy 5)\n  (match zq_x\n    :zq-k\n      1))\n(zq_g 1)", ":zq-k", "AttributeError"),
]

FILLERS = ["(setv zq_n0 1)", "(setv zq_n1\n  [1\n   2])", "; a comment line", "", "(defn zq_filler [] \"doc\"\n  1)", "(zq_id 1 2)",
           "(when True\n  1)", "#_ (discarded\n form)"]


class Case:
    __slots__ = ("src", "span", "ctx", "raiser", "exc")


def layout(rng, ctx_text, raiser_text, n_before, n_after):
    """-> (source, (first line, last line) of the raising form)"""
    parts = [("#!/usr/bin/env hy\n" if rng.random() < 0.3 else "") + prelude_for(ctx_text + raiser_text)]
    for _ in range(n_before):
        parts.append(rng.choice(FILLERS))
    before = "\n".join(parts) + "\n"
    pre, post = ctx_text.split("«H»")
    head = before + pre
    start_line = head.count("\n") + 1
    end_line = start_line + raiser_text.count("\n")
    tail = [rng.choice(FILLERS) for _ in range(n_after)]
    src = head + raiser_text + post + "\n" + "\n".join(tail) + "\n"
    return src, (start_line, end_line)


def recording(hy, lazy, out):
    """the forms of a Lazy, recorded while the compiler consumes them (reader macros defined by earlier forms are in effect)"""
    def gen():
        for form in lazy:
            out.append(form)
            yield form
    rec = hy.models.Lazy(gen())
    rec.source, rec.filename, rec.reader = lazy.source, lazy.filename, lazy.reader
    return rec


def run_program(hy, src, filename, forms=None):
    """-> ('raised', exception class name, innermost lineno in `filename`, all linenos) | ('no-raise',) | ('compile-error', cls, msg)"""
    forms = [] if forms is None else forms
    mod = types.ModuleType("zq_c17mod")
    sys.modules["zq_c17mod"] = mod

    def zq_fail(*a):
        raise RuntimeError("zq_fail")

    def zq_id(*a, **k):
        return a[0] if a else None
    mod.__dict__.update(zq_fail=zq_fail, zq_id=zq_id)
    try:
        with warnings.catch_warnings():
            warnings.simplefilter("ignore")
            try:
                tree = hy.compiler.hy_compile(recording(hy, hy.read_many(src, filename=filename, skip_shebang=True), forms), mod, source=src, filename=filename)
                code = compile(tree, filename, "exec")
            except Exception as e:
                return ("compile-error", type(e).__name__, str(e)[:300])
            try:
                exec(code, mod.__dict__)
            except BaseException as e:
                frames = [f for f in traceback.extract_tb(e.__traceback__) if f.filename == filename]
                if not frames:
                    return ("raised-outside", type(e).__name__)
                return ("raised", type(e).__name__, frames[-1].lineno, [f.lineno for f in frames])
            return ("no-raise",)
    finally:
        sys.modules.pop("zq_c17mod", None)


def reader_span(hy, src, span, raiser_text, forms=None):
    """the span of the raising form according to the reader: the model whose start line is ours and whose text matches"""
    first = raiser_text.split("\n")[0]
    best = None

    def walk(m):
        nonlocal best
        if getattr(m, "start_line", None) == span[0] and hasattr(m, "_start_line"):
            line = src.split("\n")[m.start_line - 1]
            if line[m.start_column - 1:].startswith(first[:6]):
                if best is None:
                    best = (m.start_line, m.end_line)
        if isinstance(m, hy.models.Sequence):
            for c in m:
                walk(c)
    try:
        for form in (forms if forms is not None else hy.read_many(src)):
            walk(form)
    except Exception:
        return None
    return best


def how(src):
    return "write the program to t.hy and run: PYTHONPATH=%s python -m hy t.hy  (program: %r)" % (vlib.REPO, src)


def traceback_oracle(chk, hy, thorough):
    rng = chk.rng
    k = 0
    layouts = 3 if thorough else 1
    for cid, ctext in CONTEXTS:
        for rid, rtext, exc in RAISERS:
            for lay in range(layouts):
                k += 1
                nb, na = rng.randint(0, 4), rng.randint(0, 2)
                src, span = layout(rng, ctext, rtext, nb, na)
                judge(chk, hy, src, span, rtext, exc, cid, rid, k)
    for sid, ctext, rtext, exc in SPECIAL:
        for lay in range(4):
            k += 1
            parts = [prelude_for(ctext)] + [rng.choice(FILLERS) for _ in range(rng.randint(0, 4))]
            before = "\n".join(parts) + "\n"
            start = before.count("\n") + 1 + ctext[:ctext.index(rtext)].count("\n")
            src = before + ctext + "\n"
            judge(chk, hy, src, (start, start + rtext.count("\n")), rtext, exc, sid, "special", k)


def judge(chk, hy, src, span, rtext, exc, cid, rid, k):
    filename = "<c17-%d>" % k
    forms = []
    res = run_program(hy, src, filename, forms)
    rs = reader_span(hy, src, span, rtext, forms)
    if rs is None:
        chk.count("filtered:program-not-readable-or-form-not-found")
        return
    if rs != span:
        # the property speaks of the form's *source* lines: the layout is the truth, also when the reader's positions are off
        chk.count("reader-span-differs-from-source-layout")
        rs = span
    chk.count("context:" + cid)
    chk.count("raiser:" + rid)
    chk.count("outcome:" + res[0])
    if res[0] == "compile-error":
        # some hole/raiser combinations are not valid programs (a statement where Python needs a target, ...)
        chk.count("filtered:does-not-compile")
        return
    if res[0] in ("no-raise", "raised-outside"):
        chk.count("filtered:raising-form-not-evaluated")
        return
    _, cls, lineno, all_lines = res
    if cls != exc:
        # something else in the context raised first (e.g. the hole's value is used wrongly): not the form we placed
        chk.count("filtered:other-exception-than-the-placed-one")
        return
    chk.case((cid, rid, span, src.count("\n")), nontrivial=(rs[0] != 1),
             sample={"context": cid, "raiser": rid, "span": list(rs), "reported_line": lineno} if k % 397 == 11 else None)
    if not (rs[0] <= lineno <= rs[1]):
        chk.fail("traceback-line-outside-span:%s:%s" % (cid, rid),
                 {"program": src, "raising_form": rtext, "span": list(rs), "context": cid, "raiser": rid},
                 {"innermost_module_frame_lineno": lineno, "module_frames": all_lines},
                 "a line in [%d, %d]" % rs, how(src))


# ------------------------------------------------------------------ AST-level containment (the model theorem on the real compiler)

# fixed 864e213: the BoolOp of and/or took its position from its first operand; an operand compiling to an empty Result
# (force_expr -> None constant at line 0) put the BoolOp, and a traceback from a later operand's truth test, at line 0
AST_CORPUS = [
    "\n\n(setv x (or\n  (import)\n  a\n  3))\n",
    "\n(^=\n  (get b\n    2) (- a-b g foo\n    (and\n      (import) (.\n        a\n        pi))))\n",
    "\n\n\n(defn f []\n  (and (do)\n    a b))\n",
]


def ast_containment(chk, hy, n_programs):
    from props import valid_gen
    rng = chk.rng
    gen = valid_gen.G(hy, rng, max_depth=4, compile_time_heads=False)
    done = 0
    attempts = 0
    pending = list(AST_CORPUS)
    while pending or (done < n_programs and attempts < n_programs * 6):
        attempts += 1
        if pending:
            # minimised former failures run first (known_findings.json: fixed entries of C17)
            src = pending.pop(0)
            chk.count("ast:corpus")
        else:
            forms = [gen.headed(1) if rng.random() < 0.8 else gen.form(0) for _ in range(rng.randint(1, 3))]
            # render over several lines: every sequence opens a new line with probability 1/2
            try:
                text = "\n\n".join(render_multiline(hy, rng, f) for f in forms)
            except Exception:
                continue
            src = "\n" * rng.randint(0, 3) + text + "\n"
        mod = types.ModuleType("zq_c17ast")
        sys.modules["zq_c17ast"] = mod
        try:
            with warnings.catch_warnings():
                warnings.simplefilter("ignore")
                try:
                    models = list(hy.read_many(src))
                except Exception:
                    chk.count("filtered:ast:not-readable")
                    continue
                nested_ok = all(check_nested(hy, m) for m in models)
                if not nested_ok:
                    chk.count("ast:reader-positions-not-nested")
                comp = hy.compiler.HyASTCompiler(mod, filename="<c17>", source=src)
                bad = []
                kwpat = [False]
                try:
                    with comp.scope:
                        for f in models:
                            r = comp.compile(f)
                            tops = list(r.stmts) + ([r._expr] if r._expr is not None else [])
                            for top in tops:
                                for n in ast.walk(top):
                                    ln = getattr(n, "lineno", None)
                                    if ln is None:
                                        continue
                                    if isinstance(n, ast.Constant):
                                        # evaluating a constant cannot raise: no traceback can point at it
                                        chk.count("ast:constant-nodes-not-judged" + (":outside-span" if not (f.start_line <= ln <= f.end_line) else ""))
                                        continue
                                    chk.count("ast:nodes")
                                    if isinstance(n, ast.MatchClass) and ast.unparse(n.cls) == "hy.models.Keyword":
                                        kwpat[0] = True
                                    if not (f.start_line <= ln <= f.end_line):
                                        bad.append((type(n).__name__, ln, [f.start_line, f.end_line]))
                except Exception:
                    chk.count("filtered:ast:does-not-compile")
                    continue
        finally:
            sys.modules.pop("zq_c17ast", None)
        done += 1
        chk.case(("ast", src), nontrivial=src.count("\n") > 3)
        chk.count("ast:programs")
        if bad:
            chk.fail("ast-node-line-outside-form-span:" + bad[0][0],
                     {"program": src, "has_match_keyword_pattern": kwpat[0]}, bad[:5],
                     "every node's lineno within the line span of the top-level form it was compiled from",
                     "compile each form of the program with HyASTCompiler.compile and walk the Result")


def has_kw_pattern(hy, t):
    m = hy.models
    if isinstance(t, m.Expression) and t and t[0] == m.Symbol("match"):
        def kws(x):
            if isinstance(x, m.Keyword) and x.name not in ("as", "if"):
                return True
            return isinstance(x, m.Sequence) and any(kws(c) for c in x)
        if any(kws(c) for c in t[2:]):
            return True
    return isinstance(t, m.Sequence) and any(has_kw_pattern(hy, c) for c in t)


def macro_fstring_matcher(rec, params):
    """an f-string replacement field built inside a macro expansion keeps no position (FComponent.replace discards the
    positioned copy that Sequence.replace returns): a formatting error is reported at line 1"""
    key = rec.get("key", "")
    return key.startswith("traceback-line-outside-span:") and key.split(":")[-1].startswith("macro-fstring-spec") \
        and rec.get("observed", {}).get("innermost_module_frame_lineno") == 1


def kw_pattern_matcher(rec, params):
    """nodes of the hy.models.Keyword lookup that compile_pattern emits for a keyword pattern carry line 1"""
    key = rec.get("key", "")
    if key == "traceback-line-outside-span:match-keyword-pattern:special":
        return rec.get("observed", {}).get("innermost_module_frame_lineno") == 1
    if key.startswith("ast-node-line-outside-form-span:"):
        obs = rec.get("observed", [])
        return bool(rec.get("input", {}).get("has_match_keyword_pattern")) and \
            all(o[0] in ("Attribute", "Name") and o[1] == 1 for o in obs)
    return False


def check_nested(hy, m):
    if isinstance(m, hy.models.Sequence):
        for c in m:
            if hasattr(c, "_start_line") and hasattr(m, "_start_line"):
                if not (m.start_line <= c.start_line and c.end_line <= m.end_line):
                    return False
            if not check_nested(hy, c):
                return False
    return True


def render_multiline(hy, rng, t, depth=0):
    m = hy.models
    if isinstance(t, m.FString) or not isinstance(t, m.Sequence):
        s = hy.repr(t)
        return s[1:] if s.startswith("'") else s
    if isinstance(t, m.FComponent):
        raise ValueError("component outside an f-string")
    op, cl = {m.Expression: ("(", ")"), m.List: ("[", "]"), m.Tuple: ("#(", ")"), m.Set: ("#{", "}"), m.Dict: ("{", "}")}[type(t)]
    parts = [render_multiline(hy, rng, c, depth + 1) for c in t]
    out = op
    for i, p in enumerate(parts):
        if i:
            out += ("\n" + "  " * (depth + 1)) if rng.random() < 0.5 else " "
        out += p
    return out + cl


def run(chk):
    chk.trusted = TRUSTED
    chk.assumptions = [
        "the raising form is the form placed in the hole (for macro-generated code: the macro call); its span is the "
        "reader's start_line..end_line",
        "programs in which the placed form is not evaluated, another exception is raised first, or the combination does "
        "not compile are filtered and counted",
        "the innermost traceback frame `for the compiled module` is the last frame whose filename is the module's",
    ]
    chk.matchers["c17_match_keyword_pattern"] = kw_pattern_matcher
    chk.matchers["c17_macro_fstring"] = macro_fstring_matcher
    thorough = chk.tier == "thorough"
    ok = chk.prove("Props/C17.v", ["Props/C17.vo"], [pos_tables.translate])
    hy = vlib.use_repo_in_process()
    import hy.compiler  # noqa
    chk.rule = ("traceback oracle: every context (%d) x every raising form (%d) x %d random layouts (filler forms, comments, "
                "discards, blank lines before/after; multi-line variants of the raising form) + macro-defined functions; "
                "AST containment: generated multi-line programs over all non-compile-time heads; non-trivial = raising form "
                "not on line 1 / program with more than 3 lines" % (len(CONTEXTS), len(RAISERS), 3 if thorough else 1))
    traceback_oracle(chk, hy, thorough)
    ast_containment(chk, hy, 6000 if thorough else 500)


def replay(path):
    """re-run the traceback oracle on the program of a replay file"""
    import json
    d = json.load(open(path))
    inp = d.get("input", {})
    print(json.dumps({k: d.get(k) for k in ("key", "observed", "expected")}, indent=1)[:2000])
    if "span" not in inp:
        return 1
    hy = vlib.use_repo_in_process()
    import hy.compiler  # noqa
    res = run_program(hy, inp["program"], "<c17-replay>")
    print("program:\n" + inp["program"])
    print("outcome:", res, "span:", inp["span"])
    return 0 if res[0] == "raised" and inp["span"][0] <= res[2] <= inp["span"][1] else 1
