"""C37 -- Reader macros are defined and used in stream order and per module."""
import importlib
import os
import sys
import types
import warnings

from lib import vlib
from props import macro_common as mcm
from translator import macro_readers

META = {
    "technique": "Coq proofs over a stream machine (read / evaluate / reader-less eval actions of several streams, "
                 "interleaved arbitrarily, each under the as_current_reader context manager regenerated from the "
                 "source); laziness of read_many/Lazy/parse_forms_until/_compile_branch checked fail-closed by the "
                 "translator; model-vs-hy differential run driving real Lazy streams action by action, and an "
                 "independent per-stream oracle (each stream must behave as if it ran alone) incl. module files imported "
                 "from disk",
    "level_text": "Theorems in coq/Props/C37.v hold for every schedule, any number of streams and chunks: a defreader "
                  "evaluated puts the name in its reader and module, a name once known to a reader stays known through "
                  "all later actions, a later use reads without error, a use of an unknown name is a LexException and "
                  "ends the stream, a reader macro returning None yields no form (top level) / no element (in a form), "
                  "_current_reader is restored after every action, for every interleaving the other streams' "
                  "actions leave a stream's reader table, module table and state untouched (distinct readers/modules), "
                  "and the events a stream observes are exactly those of running its own actions alone "
                  "(C37_interleaving_projection; the stream may require only from modules no stream writes to). "
                  "That form i+1 is READ only after form i was evaluated in hy's own pipeline is a shape fact checked by "
                  "the translator and exercised by the oracle, not a Coq theorem.",
    "level_note": "Trusted: Coq kernel; translator/macro_readers.py; the hand-written model of defreader / require "
                  ":readers / enable_readers effects is tied by differential execution; reader macros whose bodies read "
                  "further forms, nested hy.eval inside reader macros, and self-require are not modelled.",
}

TRUSTED = [
    "Coq 8.16.1 kernel (coqc, full .vo); vm_compute for the example",
    "axioms: none (Print Assumptions: Closed under the global context for every C37 theorem)",
    "translator/macro_readers.py: as_current_reader as a term; fail-closed shape checks of read_many, Lazy, "
    "HyReader.parse / parse_forms_until / try_parse_one_form / tag_dispatch / current_reader / using_reader / __init__, "
    "_compile_branch, hy_compile's using_reader, hy.macros.reader_macro",
    "hand-written model MacroNS/ReaderMacrosModel.v of what evaluating defreader and require :readers does to the "
    "module's and the reader's tables: tied by differential execution on real Lazy streams",
    "the harness: rendering of chunks to source text, identification of reader-macro functions by their docstring",
]

NAMES = ["ra", "rb", "rc", "rn", "rx"]
STATIC = [(100, "hvq_a", [("ra", 10, False), ("rn", 11, True), ("rb", 12, False)]),
          (101, "hvq_b", [("rb", 13, False), ("rc", 14, False), ("rx", 15, True)])]
PLAIN = 1000


def static_files():
    files = {}
    for _, mod, macs in STATIC:
        files[mod + ".hy"] = "".join('(defreader %s "D%d" %s)\n' % (n, mid, "None" if none else '"D%d"' % mid)
                                     for n, mid, none in macs)
    return files


# ------------------------------------------------------------------ generator

class Gen:
    def __init__(self, rng):
        self.rng = rng
        self.mid = 20
        self.nones = []

    def chunk(self, known):
        r = self.rng
        x = r.random()
        if x < 0.3:
            self.mid += 1
            n = r.choice(NAMES)
            none = r.random() < 0.25
            if none:
                self.nones.append(self.mid)
            known.add(n)
            return ("def", n, self.mid, none)
        if x < 0.55:
            return ("list", [self.use(known) for _ in range(r.randrange(0, 4))])
        if x < 0.75:
            return ("bare", self.use(known))
        if x < 0.9:
            sid, mod, macs = r.choice(STATIC)
            if r.random() < 0.35:
                known.update(n for n, _, _ in macs)
                return ("req", sid, None)
            ns = [r.choice([n for n, _, _ in macs] * 6 + ["nosuch"]) for _ in range(r.randrange(1, 3))]
            known.update(ns)
            return ("req", sid, ns)
        return ("plain", r.randrange(1, 50))

    def use(self, known):
        r = self.rng
        return r.choice(sorted(known)) if known and r.random() < 0.9 else r.choice(NAMES)

    def streams(self):
        r = self.rng
        k = r.choice([1, 2, 2, 3])
        out = []
        for _ in range(k):
            known = set()
            cs = []
            for j in range(r.randrange(2, 9)):
                c = self.chunk(known)
                if j == 0 and c[0] in ("list", "bare") and r.random() < 0.7:
                    c = self.chunk(known)
                cs.append(c)
            out.append(cs)
        self.kinds = [r.choice([0, 0, 1, 1, 2]) for _ in out]
        return out

    def schedule(self, streams):
        r = self.rng
        style = r.choice(["pipeline", "pipeline", "mixed", "eager"])
        per = []
        for i, cs in enumerate(streams):
            n = len(cs) + 1
            if style == "pipeline":
                acts = []
                for _ in range(n):
                    acts += [("read", i), ("eval", i)]
            elif style == "eager":
                acts = [("read", i)] * n + [("eval", i)] * n
            else:
                acts, pend = [], 0
                reads = n
                while reads or pend:
                    if reads and (not pend or r.random() < 0.5):
                        acts.append(("read", i))
                        reads -= 1
                        pend += 1
                    else:
                        acts.append(("eval", i))
                        pend -= 1
            # a few reader-less evaluations
            for _ in range(r.choice([0, 0, 1, 2])):
                self.mid += 1
                n_ = r.choice(NAMES)
                none = r.random() < 0.2
                if none:
                    self.nones.append(self.mid)
                f = ("def", n_, self.mid, none) if r.random() < 0.7 else ("req", r.choice(STATIC)[0], None)
                acts.insert(r.randrange(len(acts) + 1), ("detached", i, f))
            per.append(acts)
        # interleave
        sched = []
        idx = [0] * len(per)
        while any(idx[i] < len(per[i]) for i in range(len(per))):
            i = r.choice([j for j in range(len(per)) if idx[j] < len(per[j])])
            burst = r.choice([1, 1, 2, 4])
            for _ in range(burst):
                if idx[i] < len(per[i]):
                    sched.append(per[i][idx[i]])
                    idx[i] += 1
        return style, sched


def chunk_text(c):
    k = c[0]
    if k == "def":
        return '(defreader %s "D%d" %s)' % (c[1], c[2], "None" if c[3] else '"D%d"' % c[2])
    if k == "list":
        return "[%s]" % " ".join("#" + u for u in c[1])
    if k == "bare":
        return "#" + c[1]
    if k == "req":
        mod = [m for sid, m, _ in STATIC if sid == c[1]][0]
        return "(require %s :readers %s)" % (mod, "*" if c[2] is None else "[%s]" % " ".join(c[2]))
    return '"P%d"' % c[1]


def coq_chunk(c):
    k = c[0]
    if k == "def":
        return "CDef %s %d%%N" % (mcm.coq_name(c[1]), c[2])
    if k == "list":
        return "CList %s" % mcm.coq_list([mcm.coq_name(u) for u in c[1]], "(list N)")
    if k == "bare":
        return "CBare %s" % mcm.coq_name(c[1])
    if k == "req":
        return "CReq %d%%N %s" % (c[1], "None" if c[2] is None else "(Some %s)" % mcm.coq_list([mcm.coq_name(u) for u in c[2]], "(list N)"))
    return "CPlain %d%%N" % (PLAIN + c[1])


def coq_form(c):
    if c[0] == "def":
        return "FDef %s %d%%N" % (mcm.coq_name(c[1]), c[2])
    return "FReq %d%%N %s" % (c[1], "None" if c[2] is None else "(Some %s)" % mcm.coq_list([mcm.coq_name(u) for u in c[2]], "(list N)"))


def coq_expr(streams, sched, nones):
    cfg = mcm.coq_list(["(%d%%N, %d%%N)" % (i + 1, i + 1) for i in range(len(streams))], "(N * N)")
    static = mcm.coq_list(["(%d%%N, %s)" % (sid, mcm.coq_ns([(n, mid) for n, mid, _ in macs])) for sid, _, macs in STATIC],
                          "(N * list (list N * N))")
    ss = mcm.coq_list([mcm.coq_list(["(%s)" % coq_chunk(c) for c in cs], "chunk") for cs in streams], "(list chunk)")
    acts = []
    for a in sched:
        if a[0] == "read":
            acts.append("ARead %d%%nat" % a[1])
        elif a[0] == "eval":
            acts.append("AEval %d%%nat" % a[1])
        else:
            acts.append("ADetached %d%%nat (%s)" % (a[1], coq_form(a[2])))
    allnones = nones + [mid for _, _, macs in STATIC for _, mid, none in macs if none]
    return "observe_streams %s %s %s %s %s" % (mcm.coq_list(["%d%%N" % m for m in allnones], "N"), cfg, static, ss,
                                              mcm.coq_list(acts, "action"))


# ------------------------------------------------------------------ the real thing

def decode_val(v):
    if isinstance(v, str) and v[:1] == "D" and v[1:].isdigit():
        return int(v[1:])
    if isinstance(v, str) and v[:1] == "P" and v[1:].isdigit():
        return PLAIN + int(v[1:])
    return -1


def table_of(d):
    out = []
    for k, f in d.items():
        if k in NAMES or k == "nosuch":
            doc = getattr(f, "__doc__", None) or ""
            out.append((k, int(doc[1:]) if doc[:1] == "D" and doc[1:].isdigit() else -1))
    return out


def enc_table(t):
    out = [len(t)]
    for k, m in t:
        out += [len(k)] + [ord(c) for c in k] + [m]
    return out


_CLASSES = []


def reader_classes(hy):
    """plain HyReader, a user subclass, a subclass of that subclass (the docs invite subclassing hy.HyReader)"""
    if not _CLASSES:
        class HvReaderA(hy.HyReader):
            "a user-defined reader"

        class HvReaderB(HvReaderA):
            "a reader derived from a user-defined reader"
        _CLASSES.extend([hy.HyReader, HvReaderA, HvReaderB])
    return _CLASSES


CLASS_NAMES = ["HyReader", "subclass", "sub-subclass"]


class Real:
    def __init__(self, hy):
        self.hy = hy
        self.n = 0

    def run(self, streams, sched, kinds=None):
        hy = self.hy
        self.n += 1
        mods, readers, lazies, pend = [], [], [], []
        names = []
        for i, cs in enumerate(streams):
            nm = "hvm_%d_%d" % (self.n, i)
            m = types.ModuleType(nm)
            sys.modules[nm] = m
            names.append(nm)
            mods.append(m)
            rd = reader_classes(hy)[kinds[i] if kinds else 0]()
            readers.append(rd)
            try:
                lazies.append(hy.read_many("\n".join(chunk_text(c) for c in cs), reader=rd))
            except Exception as e:       # reading must not start before the first form is asked for
                def failing(e=e):
                    raise e
                    yield
                lazies.append(failing())
            pend.append([])
        evs = []
        per_stream = [[] for _ in streams]

        def emit(i, e):
            evs.extend(e)
            per_stream[i].append(e)
        try:
            for a in sched:
                i = a[1]
                with warnings.catch_warnings():
                    warnings.simplefilter("ignore")
                    if a[0] == "read":
                        try:
                            f = next(lazies[i])
                            pend[i].append(f)
                            emit(i, [1, i])
                        except StopIteration:
                            emit(i, [2, i])
                        except hy.errors.HyLanguageError as e:
                            emit(i, [3, i] if type(e).__name__ == "LexException" else [33, i])
                    else:
                        if a[0] == "eval":
                            if not pend[i]:
                                emit(i, [6, i])
                                continue
                            f = pend[i].pop(0)
                            kind = "value" if isinstance(f, (hy.models.List, hy.models.String)) else "effect"
                        else:
                            f = hy.read(chunk_text(a[2]))
                            for sub in [f]:
                                if hasattr(sub, "reader"):
                                    del sub.reader
                            kind = "effect"
                        try:
                            v = hy.eval(f, module=mods[i])
                            if kind == "effect":
                                emit(i, [4, i, 0])
                            else:
                                vs = [decode_val(x) for x in v] if isinstance(v, list) else [decode_val(v)]
                                emit(i, [4, i, len(vs)] + vs)
                        except hy.errors.HyRequireError:
                            emit(i, [5, i])
                        except Exception as e:
                            emit(i, [55, i])
            g = hy.HyReader._current_reader
            final = [9, 0 if g is None else 1 + readers.index(g) + 1 if g in readers else 99]
            tabs = []
            for i in range(len(streams)):
                rt = table_of(readers[i].reader_macros)
                mt = table_of(getattr(mods[i], "_hy_reader_macros", {}))
                final += [7] + enc_table(rt) + [8] + enc_table(mt)
                tabs.append((rt, mt))
        finally:
            for nm in names:
                sys.modules.pop(nm, None)
        return evs + final, per_stream, tabs


# ------------------------------------------------------------------ the oracle: one stream on its own

class Alone:
    """what the property says about ONE stream, given only its own actions, in the order they happened"""

    def __init__(self, chunks, nones):
        self.todo = list(chunks)
        self.pending = []
        self.dead = False
        self.reader = {}        # name -> mid, or "?" (state not documented)
        self.module = {}
        self.nones = set(nones) | {mid for _, _, macs in STATIC for _, mid, none in macs if none}
        self.static = {sid: [(n, mid) for n, mid, _ in macs] for sid, _, macs in STATIC}

    def read(self, i):
        if self.dead:
            return [2, i]
        while self.todo:
            c = self.todo.pop(0)
            k = c[0]
            if k in ("def", "req", "plain", "nest"):
                self.pending.append(c)
                return [1, i]
            uses = c[1] if k == "list" else [c[1]]
            vals = []
            for u in uses:
                if u not in self.reader:
                    self.dead, self.todo = True, []
                    return [3, i]
                if self.reader[u] == "?":
                    return None
                if self.reader[u] not in self.nones:
                    vals.append(self.reader[u])
            if k == "bare" and not vals:
                continue              # None: no form
            self.pending.append(("vals", vals, k))
            return [1, i]
        self.dead = True
        return [2, i]

    def effect(self, i, c, detached):
        k = c[0]
        if k == "def":
            self.module[c[1]] = c[2]
            if detached:
                # hy.eval of a model with no reader: whether the stream's reader learns the name is not documented
                if self.reader.get(c[1]) != c[2]:
                    pass
            else:
                self.reader[c[1]] = c[2]
            return [4, i, 0]
        if k == "req":
            src = self.static[c[1]]
            names = [n for n, _ in src] if c[2] is None else c[2]
            sd = dict(src)
            if any(n not in sd for n in names):
                for n in names:          # partial effects of a failed require are not documented
                    self.module[n] = "?"
                    if not detached:
                        self.reader[n] = "?"
                return [5, i]
            for n in names:
                self.module[n] = sd[n]
                if not detached:
                    self.reader[n] = sd[n]
            if c[2] is None and not detached:
                # :readers * also switches on every reader macro the module already has
                for n, m in self.module.items():
                    if n not in self.reader or self.reader[n] != m:
                        self.reader[n] = m
            return [4, i, 0]
        if k == "plain":
            return [4, i, 1, PLAIN + c[1]]
        if k == "nest":
            return [4, i, 0]
        return [4, i, len(c[1])] + list(c[1])

    def act(self, a):
        i = a[1]
        if a[0] == "read":
            return self.read(i)
        if a[0] == "eval":
            if not self.pending:
                return [6, i]
            return self.effect(i, self.pending.pop(0), False)
        return self.effect(i, a[2], True)


def file_mode(chk, hy, root, k, chunks, nones):
    """the same stream as a module file imported from disk (hy's own pipeline: importer -> read_many -> _compile_branch)"""
    name = "hvf_%d" % k
    lines = ["(setv _outs [])"]
    for c in chunks:
        t = chunk_text(c)
        lines.append("(.append _outs %s)" % t if c[0] in ("list", "plain") else t)
    # expected: the stream on its own, read-evaluate-read-evaluate
    al = Alone(chunks, nones)
    want, exp_exc = [], None
    while True:
        e = al.read(0)
        if e is None:
            return
        if e[0] == 3:
            exp_exc = "LexException"
            break
        if e[0] == 2:
            break
        c = al.pending[0]
        e2 = al.act(("eval", 0))
        if e2[0] == 5:
            exp_exc = "HyRequireError"
            break
        if c[0] == "plain":
            want.append(PLAIN + c[1])
        elif c[0] == "vals" and c[2] == "list":
            want.append(list(c[1]))
    with open(os.path.join(root, name + ".hy"), "w") as f:
        f.write("\n".join(lines) + "\n")
    importlib.invalidate_caches()
    try:
        with warnings.catch_warnings():
            warnings.simplefilter("ignore")
            m = importlib.import_module(name)
        got_exc, got = None, m._outs
    except Exception as e:
        got_exc, got = type(e).__name__, None
    finally:
        sys.modules.pop(name, None)
    chk.count("file:" + (got_exc or "ok"))
    how = "write these lines to %s.hy on sys.path and import it:\n%s" % (name, "\n".join(lines))
    if got_exc != exp_exc:
        chk.fail("module-file", {"lines": lines}, got_exc, exp_exc, how)
    elif got_exc is None:
        gotv = [[decode_val(x) for x in v] if isinstance(v, list) else decode_val(v) for v in got]
        if gotv != want:
            chk.fail("module-file-values", {"lines": lines}, gotv, want, how)


def run(chk):
    chk.trusted = TRUSTED
    chk.assumptions = [
        "'evaluated' for a top-level form means compiled, which is when defreader and require :readers take effect",
        "unrelated = different reader object and different module, neither requiring from the other; the source "
        "modules that streams require from are static",
        "after a require :readers that raises HyRequireError, and for names defined only by hy.eval of a reader-less "
        "model, whether the stream's reader knows the listed names is undocumented: uses of them are not judged",
        "(require m :readers *) also enables every reader macro the requiring module already has (what enable_readers "
        "does with \"ALL\"); the oracle follows this",
    ]
    chk.prove("Props/C37.v", ["Props/C37.vo", "MacroNS/ReaderMacrosEncode.vo"], [macro_readers.translate])
    thorough = chk.tier == "thorough"
    n_cases = 6000 if thorough else 700
    chk.rule = ("case = 1-3 streams (own HyReader, own module) of 2-8 top-level chunks (defreader returning a value or "
                "None / a list display with 0-3 reader-macro uses / a bare use / require :readers [names] or * from two "
                "modules on disk, sometimes a missing name / a plain form) over 5 names, with a schedule (pipeline, "
                "read-ahead, or eager per stream; random interleaving in bursts; 0-2 reader-less hy.evals of "
                "defreader/require) executed action by action on real Lazy streams; single streams are also written to "
                "a module file and imported; non-trivial = distinct case with a definition or require followed by a use")
    root = mcm.temp_dir("c37")
    try:
        mcm.write_modules(root, static_files())
        sys.path.insert(0, root)
        sys.dont_write_bytecode = True
        hy = vlib.use_repo_in_process()
        mcm.import_quietly([m for _, m, _ in STATIC])
        real = Real(hy)
        cases, exprs = [], []
        for k in range(n_cases):
            g = Gen(chk.rng)
            streams = g.streams()
            style, sched = g.schedule(streams)
            exprs.append(coq_expr(streams, sched, g.nones))
            obs = real.run(streams, sched, g.kinds)
            cases.append((streams, sched, g.nones, style, obs, g.kinds))
            judge(chk, hy, streams, sched, g.nones, style, obs, g.kinds)
            if k % 4 == 0:
                file_mode(chk, hy, root, k, streams[0], g.nones)
        outs = vlib.coq_eval(["HyV.MacroNS.ReaderMacrosEncode"],
                             "Import HyV.Base.Text HyV.MacroNS.ReaderMacrosModel.\n", exprs, tag="c37", shard=60)
        for (streams, sched, nones, style, obs, kinds), o in zip(cases, outs):
            m = mcm.nums(o)
            if m != obs[0]:
                chk.disagree("ReaderMacrosModel.run vs real Lazy streams", describe(streams, sched, kinds), m, obs[0])
        for k in range(n_cases // 4):
            nested_case(chk, hy, k)
        if hy.HyReader._current_reader is not None:
            chk.fail("current-reader-leaked", {}, repr(hy.HyReader._current_reader), None, "")
    finally:
        if root in sys.path:
            sys.path.remove(root)
        mcm.cleanup()


def pipeline_events(hy, text, reader, mod, idx):
    """read a form, evaluate it, read the next: the events of one stream"""
    out = []
    try:
        lazy = hy.read_many(text, reader=reader)
    except Exception as e:
        return [[3, idx] if type(e).__name__ == "LexException" else [33, idx]]
    while True:
        with warnings.catch_warnings():
            warnings.simplefilter("ignore")
            try:
                f = next(lazy)
                out.append([1, idx])
            except StopIteration:
                out.append([2, idx])
                return out
            except hy.errors.HyLanguageError as e:
                out.append([3, idx] if type(e).__name__ == "LexException" else [33, idx])
                return out
            value = isinstance(f, (hy.models.List, hy.models.String))
            try:
                v = hy.eval(f, module=mod)
                if value:
                    vs = [decode_val(x) for x in v] if isinstance(v, list) else [decode_val(v)]
                    out.append([4, idx, len(vs)] + vs)
                else:
                    out.append([4, idx, 0])
            except hy.errors.HyRequireError:
                out.append([5, idx])
                return out
            except Exception as e:
                out.append([55, idx, type(e).__name__])
                return out


def alone_pipeline(chunks, nones, idx):
    al, out = Alone(chunks, nones), []
    while True:
        e = al.read(idx)
        if e is None:
            return out, False
        out.append(e)
        if e[0] in (2, 3):
            return out, True
        e2 = al.act(("eval", idx))
        out.append(e2)
        if e2[0] == 5:
            return out, True


def nested_case(chk, hy, k):
    """an INNER stream (own reader, own module) is read and evaluated completely while a form of the OUTER stream is
    being compiled (eval-when-compile), i.e. while the outer reader is the current reader; each stream must still
    behave as if it ran alone: the inner one keeps its definitions, the outer one does not get them"""
    r = chk.rng
    g = Gen(r)
    outer, inner = g.streams()[0], g.streams()[0]
    inner_defs = sorted({c[1] for c in inner if c[0] == "def"})
    pos = r.randrange(len(outer) + 1)
    outer = outer[:pos] + [("nest",)] + outer[pos:]
    if inner_defs and r.random() < 0.7:
        outer.insert(r.randrange(pos + 1, len(outer) + 1), ("bare", r.choice(inner_defs)))
    ko, ki = r.choice([0, 0, 1, 2]), r.choice([0, 1, 1, 2])
    classes = reader_classes(hy)
    mo, mi = types.ModuleType("hvn_o_%d" % k), types.ModuleType("hvn_i_%d" % k)
    sys.modules[mo.__name__], sys.modules[mi.__name__] = mo, mi
    inner_text = "\n".join(chunk_text(c) for c in inner)
    inner_events = []

    def run_inner():
        inner_events.extend(pipeline_events(hy, inner_text, classes[ki](), mi, 1))
    mo.__dict__["_hv_inner"] = run_inner
    outer_text = "\n".join("(eval-when-compile (_hv_inner))" if c[0] == "nest" else chunk_text(c) for c in outer)
    try:
        got_outer = pipeline_events(hy, outer_text, classes[ko](), mo, 0)
    finally:
        sys.modules.pop(mo.__name__, None)
        sys.modules.pop(mi.__name__, None)
    inp = {"outer_reader": CLASS_NAMES[ko], "inner_reader": CLASS_NAMES[ki], "outer": outer_text.split("\n"),
           "inner": inner_text.split("\n")}
    how = ("outer: for form in hy.read_many(outer, reader=<outer class>()): hy.eval(form, module=O), where O._hv_inner runs "
           "the same loop over `inner` with <inner class>() and module I; reader classes: HyReader, class A(hy.HyReader), "
           "class B(A); static modules as props/c37.py:static_files()")
    chk.count("nested:outer-%s/inner-%s" % (CLASS_NAMES[ko], CLASS_NAMES[ki]))
    exp_outer, judged_o = alone_pipeline(outer, g.nones, 0)
    exp_inner, judged_i = alone_pipeline(inner, g.nones, 1)
    ran_inner = [4, 0, 0] in got_outer[:2 * (pos + 1)] or bool(inner_events)
    ok = True
    if got_outer[:len(exp_outer)] != exp_outer[:len(got_outer)] or (judged_o and got_outer != exp_outer):
        ok = False
        chk.fail("nested-outer-not-as-alone", inp, got_outer, exp_outer, how)
    if inner_events and (inner_events[:len(exp_inner)] != exp_inner[:len(inner_events)] or (judged_i and inner_events != exp_inner)):
        ok = False
        chk.fail("nested-inner-not-as-alone", inp, inner_events, exp_inner, how)
    if hy.HyReader._current_reader is not None or any(c.__dict__.get("_current_reader") is not None for c in classes[1:]):
        chk.fail("current-reader-leaked", inp, "a current reader is still set after the streams ended", None, how)
        for c in classes:
            c._current_reader = None
    chk.case("nested:" + repr(inp), nontrivial=bool(inner_events) and any(e[0] == 4 and e[2] > 0 for e in inner_events if len(e) > 2),
             sample=inp if k % 61 == 5 else None)


def describe(streams, sched, kinds=None):
    return {"reader_classes": [CLASS_NAMES[k] for k in (kinds or [0] * len(streams))],
            "streams": [[chunk_text(c) for c in cs] for cs in streams],
            "schedule": [a[0] + str(a[1]) + ((":" + chunk_text(a[2])) if a[0] == "detached" else "") for a in sched]}


def judge(chk, hy, streams, sched, nones, style, obs, kinds=None):
    evs, per_stream, tabs = obs
    inp = describe(streams, sched, kinds)
    for k in (kinds or []):
        chk.count("reader-class:" + CLASS_NAMES[k])
    how = ("streams: hy.read_many(text, reader=<reader class>()) (HyReader, class A(hy.HyReader), class B(A)) each with its "
           "own types.ModuleType in sys.modules; "
           "readN = next(lazyN), evalN = hy.eval(oldest unevaluated form, module=modN), detachedN = hy.eval of the form "
           "with its .reader attribute deleted; static modules as props/c37.py:static_files()")
    chk.count("streams:%d" % len(streams))
    chk.count("schedule:" + style)
    nontriv = False
    for i, cs in enumerate(streams):
        al = Alone(cs, nones)
        mine = [a for a in sched if a[1] == i]
        seen_def = False
        for a, got in zip(mine, per_stream[i]):
            exp = al.act(a)
            if exp is None:
                chk.count("unjudged-rest-of-stream")
                break
            chk.count("event:%d" % got[0])
            if got != exp:
                chk.fail("stream-not-as-alone" if len(streams) > 1 else "stream-order",
                         dict(inp, stream=i, action=a[0]), got, exp, how)
                break
            if a[0] == "eval" and got[0] == 4 and got[2] > 0 and seen_def:
                nontriv = True
            if got[:1] == [4] and got[2] == 0:
                seen_def = True
    chk.case(repr(inp), nontrivial=nontriv, sample=inp if chk.evaluations % 131 == 7 else None)
