"""Shared by C13 / C07 / C06 / C04: running generated Hy programs in fresh implementation
interpreters (props/scope_worker.py) and the broad random program generator used by C13."""
import json
import os
import subprocess
from concurrent.futures import ThreadPoolExecutor

from lib import vlib

WORKER = os.path.join(vlib.VERIF, "props", "scope_worker.py")


def run_worker(job, hashseed="0", timeout=900):
    """one fresh interpreter; returns the decoded result"""
    p = subprocess.run([vlib.PY, WORKER], input=json.dumps(job), capture_output=True, text=True,
                       timeout=timeout, env=vlib.impl_env(None, hashseed), cwd=vlib.VERIF)
    if p.returncode != 0:
        raise RuntimeError("scope_worker failed (seed %s): %s" % (hashseed, p.stderr[-1500:]))
    return json.loads(p.stdout)


def run_workers(jobs, max_workers=None):
    """jobs: list of (job, hashseed).  Runs them in parallel fresh interpreters, keeps order."""
    with ThreadPoolExecutor(max_workers=max_workers or min(len(jobs), vlib.NPROC) or 1) as ex:
        futs = [ex.submit(run_worker, j, s) for j, s in jobs]
        return [f.result() for f in futs]


def run_programs(programs, names=(), shards=None):
    """execute programs (list of source strings) under PYTHONHASHSEED=0, sharded; returns results in order"""
    indexed = list(enumerate(programs))
    k = shards or min(vlib.NPROC, max(1, len(indexed) // 40))
    chunks = [indexed[i::k] for i in range(k)]
    outs = run_workers([({"kind": "run", "programs": c, "names": list(names)}, "0") for c in chunks])
    res = [None] * len(programs)
    for c, o in zip(chunks, outs):
        for (i, _), r in zip(c, o):
            res[i] = r
    return res


# ------------------------------------------------------------------ the broad generator (C13)

NAMES = ["alpha", "beta", "gamma", "delta", "epsilon", "zeta", "eta", "theta", "iota", "kappa", "lam-bda", "mu?",
         "nu", "xi", "omicron", "pi-two", "rho", "sigma", "tau", "upsilon",
         # mangled names longer than 32 characters (generated identifiers embed the name)
         "a-rather-long-descriptive-variable-name", "another-quite-long-name-for-a-binding?",
         "yet-one-more-long-identifier-used-here"]
GLOBALS = ["g-one", "g2", "gthree", "g-four", "gfive"]


class HyGen:
    """Random Hy programs that exercise the name-handling paths of the compiler: nested
    defn/fn/defclass with nonlocal/global over many names, let (plain, destructuring, nested),
    comprehension forms in both compilation strategies with setx leaks, for/else, try/except
    names, match captures, imports, with, decorators, macros, f-strings, set/dict displays."""

    def __init__(self, rng):
        self.rng = rng
        self.k = 0

    def fresh(self, base="f"):
        self.k += 1
        return "%s%d" % (base, self.k)

    def names(self, lo, hi, pool=NAMES):
        return self.rng.sample(pool, self.rng.randint(lo, min(hi, len(pool))))

    # expressions over the given visible names
    def expr(self, vis, depth=0):
        r = self.rng
        c = r.random()
        if depth > 2 or c < 0.25:
            return r.choice(vis) if vis and r.random() < 0.7 else str(r.randint(0, 9))
        if c < 0.40:
            return "(%s %s %s)" % (r.choice(["+", "-", "*", "<", "=", "and", "or"]), self.expr(vis, depth + 1),
                                   self.expr(vis, depth + 1))
        if c < 0.48:
            return "[%s %s]" % (self.expr(vis, depth + 1), self.expr(vis, depth + 1))
        if c < 0.54:
            return "(setx %s %s)" % (r.choice(vis or NAMES), self.expr(vis, depth + 1))
        if c < 0.62:
            return self.comprehension(vis, depth + 1)
        if c < 0.68:
            ps = self.names(0, 2)
            return "(fn [%s] %s)" % (" ".join(ps), self.expr(vis + ps, depth + 1))
        if c < 0.74:
            return "(if %s %s %s)" % (self.expr(vis, depth + 1), self.expr(vis, depth + 1), self.expr(vis, depth + 1))
        if c < 0.79:
            return 'f"{%s} and {%s !r}"' % (r.choice(vis or ["1"]), self.expr(vis, 3))
        if c < 0.84:
            return "#{%s}" % " ".join('"%s"' % n for n in self.names(2, 5))
        if c < 0.88:
            return "{%s}" % " ".join('"%s" %s' % (n, self.expr(vis, 3)) for n in self.names(1, 4))
        if c < 0.92:
            return "(in %s #{%s})" % (self.expr(vis, 3), " ".join('"%s"' % n for n in self.names(2, 6)))
        if c < 0.96:
            return self.let(vis, depth + 1, expr=True)
        return "(do (setv %s %s) %s)" % (r.choice(vis or NAMES), self.expr(vis, depth + 1), self.expr(vis, depth + 1))

    def clauses(self, vis, depth):
        r = self.rng
        out, bound = [], []
        for i in range(r.randint(1, 3)):
            c = r.random()
            if i == 0 or c < 0.45:
                v = r.choice(NAMES)
                out.append("%s (range %s)" % (v, r.randint(1, 3)) if r.random() < 0.8
                           else "[%s %s] [[1 2]]" % (v, r.choice(NAMES)))
                bound.append(v)
            elif c < 0.65:
                out.append(":if %s" % self.expr(vis + bound, depth + 1))
            elif c < 0.85:
                v = r.choice(NAMES)
                out.append(":setv %s %s" % (v, self.expr(vis + bound, depth + 1)))
                bound.append(v)
            else:
                out.append(":do %s" % self.expr(vis + bound, depth + 1))
        return " ".join(out), bound

    def comprehension(self, vis, depth):
        r = self.rng
        kind = r.choice(["lfor", "sfor", "gfor", "dfor", "lfor"])
        cl, bound = self.clauses(vis, depth)
        vis2 = vis + bound
        # several setx in the value force several leaked names through ScopeGen.finalize
        leak = ""
        if r.random() < 0.5:
            ns = self.names(2, 5)
            leak = "(do %s %s)" % (" ".join("(setx %s %s)" % (n, self.expr(vis2, 3)) for n in ns),
                                   self.expr(vis2, 3))
        val = leak or self.expr(vis2, depth + 1)
        if kind == "dfor":
            return "(dfor %s %s %s)" % (cl, self.expr(vis2, 3), val)
        if kind == "lfor" and r.random() < 0.15:
            return "(lfor %s #* [%s])" % (cl, val)
        return "(%s %s %s)" % (kind, cl, val)

    def let(self, vis, depth, expr=False):
        r = self.rng
        ns = self.names(1, 4)
        binds = []
        for n in ns:
            if r.random() < 0.15:
                binds.append("[%s #* %s] [1 2 3]" % (n, r.choice(NAMES)))
            else:
                binds.append("%s %s" % (n, self.expr(vis + ns, depth + 1)))
        body = self.body(vis + ns, depth + 1, None) if not expr else [self.expr(vis + ns, depth + 1)]
        return "(let [%s] %s)" % (" ".join(binds), " ".join(body))

    def body(self, vis, depth, enclosing):
        """a list of statement forms; enclosing = dict(locals of enclosing functions) or None at module level"""
        r = self.rng
        forms = []
        for _ in range(r.randint(1, 3 if depth < 2 else 2)):
            forms.append(self.stmt(vis, depth, enclosing))
        return forms

    def function(self, vis, depth, enclosing, kind="defn"):
        r = self.rng
        name = self.fresh()
        params = self.names(0, 3)
        locs = self.names(2, 6)
        forms = []
        # declarations first (valid: before any use)
        outer_fn_names = sorted(enclosing["fn"]) if enclosing else []
        if enclosing is not None and r.random() < 0.7:
            pick = r.sample(outer_fn_names, min(len(outer_fn_names), r.randint(1, 5))) if outer_fn_names else []
            pick = [p for p in pick if p not in params]
            gl = r.sample(GLOBALS, r.randint(0, 2))
            decl = pick + gl
            r.shuffle(decl)
            if decl:
                forms.append("(nonlocal %s)" % " ".join(decl))
                locs = [x for x in locs if x not in decl]
        elif r.random() < 0.3:
            gl = r.sample(GLOBALS, r.randint(1, 3))
            forms.append("(global %s)" % " ".join(gl))
        forms.append("(setv %s)" % " ".join("%s %s" % (n, self.expr(vis + params, 2)) for n in locs))
        inner = {"fn": set(locs) | set(params) | (enclosing["fn"] if enclosing else set())}
        if depth < 2:
            forms += self.body(vis + params + locs, depth + 1, inner)
        forms.append(self.expr(vis + params + locs, 1))
        deco = "(%s" % kind
        if kind == "defn" and r.random() < 0.1:
            deco = "(defn [(fn [f] f)]"
        return "%s %s [%s] %s)" % (deco, name, " ".join(params), " ".join(forms)), name

    def nonlocal_comprehension(self, vis, enclosing):
        """a comprehension lowered to a generator function (a :do clause) whose body declares several names
        of the enclosing functions nonlocal and assigns a fresh name that leaks: compile_comprehension then
        emits `if False: nonlocal <scope.nonlocal_vars>; (fresh,) = None` -- one more place where an
        unordered collection of names could reach the AST"""
        r = self.rng
        pool = sorted(enclosing["fn"])
        it = r.choice([n for n in NAMES if n not in pool] or NAMES)
        decl = r.sample(pool, min(len(pool), r.randint(2, 6)))
        fresh = ["fresh-%s" % w for w in r.sample(["one", "two", "three", "four"], r.randint(1, 3))]
        kind = r.choice(["lfor", "sfor", "gfor", "lfor"])
        upd = " ".join("(setv %s %s)" % (n, it) for n in decl[: r.randint(1, len(decl))])
        leak = " ".join("(setv %s %s)" % (f, it) for f in fresh)
        return "(setv %s (%s %s (range 2) :do (nonlocal %s) (do %s %s %s)))" % (
            r.choice(NAMES), kind, it, " ".join(decl), upd, leak, it)

    def nonlocal_in_nested_lets(self, vis, enclosing):
        """a (nonlocal ..) inside a let nested in another let of the same function: the names the outer let
        binds are elided from the statement, the others must keep their written order"""
        r = self.rng
        pool = sorted(enclosing["fn"])
        outer = [n for n in NAMES if n not in pool][: 6]
        lo = r.sample(outer, 2)
        decl = r.sample(pool, min(len(pool), r.randint(2, 5))) + [lo[0]] + r.sample(GLOBALS, r.randint(0, 2))
        r.shuffle(decl)
        f = self.fresh()
        return "(defn %s [] (let [%s 1] (let [%s 2] (nonlocal %s) (setv %s %s) %s)))" % (
            f, lo[0], lo[1], " ".join(decl), decl[0], lo[1], lo[0])

    def stmt(self, vis, depth, enclosing):
        r = self.rng
        c = r.random()
        if enclosing is not None and len(enclosing["fn"]) >= 2 and r.random() < 0.12:
            return self.nonlocal_comprehension(vis, enclosing)
        if enclosing is not None and len(enclosing["fn"]) >= 2 and r.random() < 0.08:
            return self.nonlocal_in_nested_lets(vis, enclosing)
        if depth > 2:
            c = c * 0.3
        if c < 0.18:
            ns = self.names(1, 3)
            return "(setv %s)" % " ".join("%s %s" % (n, self.expr(vis, 1)) for n in ns)
        if c < 0.26:
            return "(print %s)" % self.expr(vis, 1)
        if c < 0.30:
            return self.expr(vis, 0)
        if c < 0.52:
            return self.function(vis, depth, enclosing)[0]
        if c < 0.62:
            return self.let(vis, depth)
        if c < 0.68:
            cl, bound = self.clauses(vis, depth)
            els = " (else %s)" % self.expr(vis, 2) if r.random() < 0.4 else ""
            brk = " (when %s (break))" % self.expr(vis + bound, 2) if r.random() < 0.3 else ""
            return "(for [%s] %s%s%s)" % (cl, " ".join(self.body(vis + bound, depth + 1, enclosing)), brk, els)
        if c < 0.73:
            cname = self.fresh("C")
            meth, _ = self.function(vis, depth + 1, enclosing)
            return "(defclass %s [] (setv %s 1) %s)" % (cname, r.choice(NAMES), meth)
        if c < 0.78:
            e = r.choice(NAMES)
            return "(try %s (except [%s [ValueError KeyError]] %s) (except [Exception] 0) (else 1) (finally 2))" % (
                self.expr(vis, 1), e, self.expr(vis + [e], 2))
        if c < 0.82:
            v = r.choice(NAMES)
            return "(with [%s (open \"x\")] %s)" % (v, self.expr(vis + [v], 2))
        if c < 0.86:
            a, b = self.names(2, 2)
            return "(match %s [%s %s] (+ %s %s) {\"k\" %s #** %s} %s _ 0)" % (
                self.expr(vis, 2), a, b, a, b, a, b, a)
        if c < 0.89:
            return r.choice(["(import os)", "(import sys [path :as %s])" % r.choice(NAMES),
                             "(import os.path :as %s)" % r.choice(NAMES), "(import itertools [chain count])"])
        if c < 0.92:
            m = self.fresh("mac")
            return "(defmacro %s [x] `(+ ~x %s)) (setv %s (%s 1))" % (m, r.randint(0, 5), r.choice(NAMES), m)
        if c < 0.95:
            return "(while %s (setv %s %s) (break))" % (self.expr(vis, 2), r.choice(NAMES), self.expr(vis, 2))
        if c < 0.97:
            return "(del %s)" % r.choice(vis or NAMES)
        return "(setv #^ int %s %s)" % (r.choice(NAMES), self.expr(vis, 2))

    def program(self):
        r = self.rng
        self.k = 0
        forms = ["(setv %s)" % " ".join("%s %d" % (g, i) for i, g in enumerate(GLOBALS))]
        vis = list(GLOBALS)
        for _ in range(r.randint(1, 3)):
            forms.append(self.stmt(vis, 0, None))
        return "\n".join(forms)


def outervar_witness_program(fn_names, global_names):
    """the Coq witness of C13_outervar_list_refuted rendered as Hy: names bound in an enclosing
    function plus module-level names in one (nonlocal ...)"""
    return ("(setv %s)\n(defn outer []\n  (setv %s)\n  (defn inner []\n    (nonlocal %s)\n    (setv %s 5))\n  (inner)\n  %s)"
            % (" ".join("%s 0" % g for g in global_names), " ".join("%s 1" % n for n in fn_names),
               " ".join(list(fn_names) + list(global_names)), fn_names[0], fn_names[0]))


def coqchk(chk, module):
    """thorough tier: re-check the compiled property file and everything it depends on with the
    independent checker; records an obligation"""
    if chk.tier != "thorough" or "coqchk" in chk.extra:
        return      # vlib.Check.prove already ran it for the property file
    with vlib.BuildLock():
        p = subprocess.run(["timeout", "1200", "coqchk", "-silent", "-o", "-Q", ".", "HyV", module],
                           cwd=vlib.COQ, capture_output=True, text=True)
    out = p.stdout + p.stderr
    ok = p.returncode == 0 and "Axioms: <none>" in out.replace("\n", " ").replace("  ", " ")
    if not ok and p.returncode == 0:
        import re
        ok = re.search(r"Axioms:\s*<none>", out) is not None
    chk.obligation("coqchk -o %s (axioms: none, no unsafe fixpoints / positivity / type-in-type)" % module, ok, out[-1500:])
    chk.extra["coqchk"] = out[-600:]


# ------------------------------------------------------------------ the interpreter's own deviation
# CPython 3.12.1 (the implementation interpreter) mis-compiles some functions with several PEP 709
# inlined comprehensions: a name that is an iteration variable of one comprehension and a plain global
# reference in a sibling comprehension of the same function raises UnboundLocalError.  The Python source
# Hy emitted is correct.  Such a case is not a violation of the Hy property: it is re-judged by running
# the very source Hy emitted under an independent interpreter without comprehension inlining.
# Second symptom of the same inlining: an iteration variable that a closure inside the comprehension
# captures (a cell) stays bound in the containing function after the comprehension where that name is a
# free variable of the function -- `def f(): [(lambda: z)() for z in ..]; z` reads the last element
# instead of the enclosing z (NameError if that is unassigned).  3.11 does not show it.

INDEP_PY = "/usr/bin/python3"
INDEP_RUNNER = os.path.join(vlib.VERIF, "props", "indep_runner.py")
DEVIATION = "cpython-3.12.1-comprehension-inlining-bug"
DEVIATION_TRUST = ("tolerated deviation of the implementation interpreter from Python's semantics: CPython 3.12.1 raises "
                   "UnboundLocalError in functions with several inlined comprehensions (PEP 709) that use one name as an "
                   "iteration variable and as a global reference, and lets the iteration variable of an inlined comprehension "
                   "that a closure inside it captures leak into the containing function; only when the real run ends in "
                   "UnboundLocalError, or the emitted Python has, inside a function, a list/set/dict comprehension that "
                   "contains a lambda, def or nested comprehension, the "
                   "Python source Hy emitted (must not mention hy besides `import hy`) is re-run under %s (< 3.12) and the case "
                   "counts as conforming only if that run gives exactly the expected log, exception kind and names" % INDEP_PY)
_indep_ok = [None]


def indep_available():
    if _indep_ok[0] is None:
        try:
            p = subprocess.run([INDEP_PY, "-c", "import sys; print(sys.version_info[:2] < (3, 12))"],
                               capture_output=True, text=True, timeout=30)
            _indep_ok[0] = p.returncode == 0 and p.stdout.strip() == "True"
        except Exception:
            _indep_ok[0] = False
    return _indep_ok[0]


def run_independent(src, names):
    env = {"PATH": os.environ.get("PATH", "/usr/bin:/bin"), "PYTHONHASHSEED": "0", "PYTHONDONTWRITEBYTECODE": "1"}
    try:
        p = subprocess.run([INDEP_PY, "-I", INDEP_RUNNER], input=json.dumps({"src": src, "names": list(names)}),
                           capture_output=True, text=True, timeout=120, env=env, cwd="/")
        if p.returncode != 0:
            return None
        return json.loads(p.stdout)
    except Exception:
        return None


def inlined_comprehension_with_closure(py):
    """the emitted Python has, inside a function, a comprehension PEP 709 inlines (list/set/dict) that contains
    a closure (lambda, def, nested comprehension or generator expression)"""
    import ast
    try:
        tree = ast.parse(py)
    except SyntaxError:
        return False
    inl = (ast.ListComp, ast.SetComp, ast.DictComp)
    clo = (ast.Lambda, ast.FunctionDef, ast.AsyncFunctionDef, ast.ListComp, ast.SetComp, ast.DictComp, ast.GeneratorExp)
    for fn in ast.walk(tree):
        if isinstance(fn, (ast.FunctionDef, ast.AsyncFunctionDef, ast.Lambda)):
            for c in ast.walk(fn):
                if isinstance(c, inl) and any(isinstance(n, clo) and n is not c for n in ast.walk(c)):
                    return True
    return False


def tolerate_interpreter_deviation(chk, r, names, conforms, program):
    """r: the worker's result of the real run; conforms(result) -> bool judges a result against the reference.
    True iff the real run ended in UnboundLocalError (or has an inlined comprehension containing a closure) and
    the emitted Python behaves exactly as expected under the independent interpreter."""
    import re
    exc = r.get("exc") or ""
    py = r.get("py")
    if not py or not (exc.startswith("UnboundLocalError") or inlined_comprehension_with_closure(py)) \
            or not indep_available():
        return False
    src = "\n".join(l for l in py.splitlines() if l.strip() != "import hy")
    if re.search(r"\bhy\b", src):
        return False
    res = run_independent(src, names)
    if res is None or "compile_err" in res or not conforms(res):
        return False
    chk.count("tolerated:" + DEVIATION)
    samples = chk.extra.setdefault("interpreter_deviation_samples", [])
    if len(samples) < 3:
        samples.append({"classified_as": DEVIATION, "program": program, "emitted_python": src[:1500],
                        "real_interpreter": exc, "independent_interpreter": res.get("version")})
    return True
