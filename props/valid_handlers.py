"""C10, tie T3 for Valid/Compile.v and Valid/Validate.v: the model's AST / error
class against hy_compile on generated trees of the expression fragment, and
the validator's verdict against compile()."""
import ast
import sys
import types
import warnings

from lib import vlib
from props import valid_common as vc

SYMS = ["a", "b", "f", "g", "x-y", "foo-bar", "None", "True", "False", "...", "obj"]
KWS = ["k", "a-b", "if", ""]
OPS = ["+", "-", "*", "/", "//", "%", "**", "<<", ">>", "|", "^", "&", "@", "=", "!=", "<", "<=", ">", ">=", "is", "is-not",
       "in", "not-in", "not", "bnot", "and", "or", "if", "get", "unpack-iterable", "chainc"]


class FG:
    def __init__(self, hy, rng):
        self.hy, self.r, self.m = hy, rng, hy.models

    def S(self, s):
        return self.m.Symbol(s, from_parser=True)

    def atom(self):
        r, m = self.r, self.m
        k = r.random()
        if k < 0.45:
            return self.S(r.choice(SYMS))
        if k < 0.75:
            return m.Integer(r.choice([0, 1, 2, -3, 10 ** 20]))
        if k < 0.9:
            return m.String(r.choice(["", "s", "a b"]))
        return m.Keyword(r.choice(KWS), from_parser=True)

    def form(self, d):
        r, m = self.r, self.m
        if d >= 4 or r.random() < 0.3:
            return self.atom()
        k = r.random()
        if k < 0.5:
            head = r.choice(OPS)
            n = r.choice([0, 1, 2, 2, 3, 3, 4])
            args = self.args(d + 1, n)
            if head == "chainc" and r.random() < 0.8:
                args = [self.form(d + 1)]
                for _ in range(r.randint(0, 3)):
                    args += [self.S(r.choice(["<", "<=", "=", "is-not", "not-in", "foo", "in"])), self.elem(d + 1)]
            if head == "if" and r.random() < 0.7:
                args = self.args(d + 1, 3)
            return m.Expression([self.S(head), *args])
        if k < 0.7:
            fn = r.choice([lambda: self.S(r.choice(["f", "g", "obj"])), lambda: self.form(d + 1), lambda: m.Keyword("k", from_parser=True)])()
            return m.Expression([fn, *self.args(d + 1, r.randint(0, 4), call=True)])
        if k < 0.8:
            return m.Expression([])
        typ = r.choice([m.List, m.Tuple, m.Set, m.Dict, m.Dict])
        return typ(self.args(d + 1, r.randint(0, 5)))

    def elem(self, d):
        r, m = self.r, self.m
        k = r.random()
        if k < 0.08:
            return m.Expression([self.S("unpack-iterable"), self.form(d)])
        if k < 0.16:
            return m.Expression([self.S("unpack-mapping"), self.form(d)])
        if k < 0.18:
            return m.Expression([self.S("unpack-mapping")])
        return self.form(d)

    def args(self, d, n, call=False):
        out = []
        for _ in range(n):
            if call and self.r.random() < 0.2:
                out.append(self.m.Keyword(self.r.choice(KWS), from_parser=True))
                if self.r.random() < 0.85:
                    out.append(self.form(d))
            else:
                out.append(self.elem(d))
        return out


def coq_hy(hy, t):
    m = hy.models
    if isinstance(t, m.Symbol):
        return "(HSym %s)" % vlib.coq_text(str(t))
    if isinstance(t, m.Keyword):
        return "(HKw %s)" % vlib.coq_text(t.name)
    if isinstance(t, m.Integer):
        return "(HInt (%d)%%Z)" % int(t)
    if isinstance(t, m.String):
        return "(HStr %s)" % vlib.coq_text(str(t))
    for cls, c in ((m.Expression, "HExpr"), (m.List, "HList"), (m.Tuple, "HTuple"), (m.Set, "HSet"), (m.Dict, "HDict")):
        if type(t) is cls:
            return "(%s [%s])" % (c, "; ".join(coq_hy(hy, x) for x in t))
    raise ValueError(type(t))


def txt(s):
    return [ord(c) for c in s]


def canon(e):
    """real ast expression -> the shape coq_term gives for Valid.Compile.expr"""
    if isinstance(e, ast.Constant):
        v = e.value
        if v is None:
            return ("EConst", "CNone")
        if v is True:
            return ("EConst", "CTrue")
        if v is False:
            return ("EConst", "CFalse")
        if v is Ellipsis:
            return ("EConst", "CEllipsis")
        if isinstance(v, int):
            return ("EConst", ("CInt", v))
        if isinstance(v, str):
            return ("EConst", ("CStr", txt(v)))
        return ("other-constant", repr(v))
    if isinstance(e, ast.Name):
        return ("EName", txt(e.id))
    if isinstance(e, ast.BinOp):
        return ("EBinOp", canon(e.left), txt(type(e.op).__name__), canon(e.right))
    if isinstance(e, ast.UnaryOp):
        return ("EUnaryOp", txt(type(e.op).__name__), canon(e.operand))
    if isinstance(e, ast.BoolOp):
        return ("EBoolOp", txt(type(e.op).__name__), [canon(v) for v in e.values])
    if isinstance(e, ast.Compare):
        return ("ECompare", canon(e.left), [txt(type(o).__name__) for o in e.ops], [canon(c) for c in e.comparators])
    if isinstance(e, ast.Call):
        return ("ECall", canon(e.func), [canon(a) for a in e.args],
                [("__pair__", "None" if k.arg is None else ("Some", txt(k.arg)), canon(k.value)) for k in e.keywords])
    if isinstance(e, ast.Attribute):
        return ("EAttribute", canon(e.value), txt(e.attr))
    if isinstance(e, ast.Subscript):
        return ("ESubscript", canon(e.value), canon(e.slice))
    if isinstance(e, ast.Starred):
        return ("EStarred", canon(e.value))
    if isinstance(e, ast.IfExp):
        return ("EIfExp", canon(e.test), canon(e.body), canon(e.orelse))
    if isinstance(e, ast.List):
        return ("EList", [canon(x) for x in e.elts])
    if isinstance(e, ast.Tuple):
        return ("ETuple", [canon(x) for x in e.elts])
    if isinstance(e, ast.Set):
        return ("ESet", [canon(x) for x in e.elts])
    if isinstance(e, ast.Dict):
        opt = lambda x: "None" if x is None else ("Some", canon(x))  # noqa
        return ("EDict", [opt(k) for k in e.keys], [opt(v) for v in e.values])
    return ("other-node", type(e).__name__)


def real_outcome(hy, tree):
    from hy.errors import HyCompileError, HyLanguageError
    mod = types.ModuleType("zq_c10h")
    sys.modules["zq_c10h"] = mod
    try:
        with warnings.catch_warnings():
            warnings.simplefilter("ignore")
            try:
                a = hy.compiler.hy_compile(tree, mod, filename="<c10h>", source="", import_stdlib=False)
            except HyCompileError:
                return "CInternal", None
            except (HyLanguageError, SyntaxError):
                return "CUser", None
            except Exception as e:
                return "other:" + type(e).__name__, None
            if len(a.body) != 1 or not isinstance(a.body[0], ast.Expr):
                return "not-a-single-expression", None
            try:
                compile(a, "<c10h>", "exec")
                valid = True
            except SyntaxError:
                valid = True       # the validator accepted it; the code generator objected
            except (ValueError, TypeError, SystemError):
                valid = False
            return ("COk", canon(a.body[0].value)), valid
    finally:
        sys.modules.pop("zq_c10h", None)


def handler_correspondence(chk, hy, n):
    rng = chk.rng
    gen = FG(hy, rng)
    trees, exprs = [], []
    for _ in range(n):
        t = gen.form(0)
        for s in (x for x in _symbols(hy, t)):
            if hy.mangle(s) != s.replace("-", "_"):
                break
        else:
            trees.append(t)
            exprs.append("outcome %s" % coq_hy(hy, t))
    res = vlib.coq_eval(["HyV.Base.Text", "HyV.Valid.Compile", "HyV.Valid.Validate"], "", exprs, tag="c10h", shard=250)
    for t, r in zip(trees, res):
        got = vc.coq_term(r)
        mres, mvalid = got[1], got[2] == "true"
        real, rvalid = real_outcome(hy, t)
        src = hy.repr(t)
        if mres == "CUnmodelled":
            chk.count("corr:handler:unmodelled-head")
            continue
        chk.count("corr:handler:" + (mres if isinstance(mres, str) else "COk"))
        chk.case(("handler", src), nontrivial=len(src) > 6)
        if isinstance(mres, tuple) and mres[0] == "COk":
            mres = ("COk", mres[1])
        if mres != real:
            chk.disagree("Valid.Compile.compile vs hy_compile", src, repr(mres)[:500], repr(real)[:500])
        elif isinstance(real, tuple) and mvalid != rvalid:
            chk.disagree("Valid.Validate.validate vs compile()", src, mvalid, rvalid)
        elif isinstance(real, tuple):
            chk.count("corr:validator:" + ("valid" if rvalid else "invalid"))


def _symbols(hy, t):
    m = hy.models
    if isinstance(t, m.Symbol):
        yield str(t)
    elif isinstance(t, m.Keyword):
        yield t.name or "k"
    elif isinstance(t, m.Sequence):
        for c in t:
            yield from _symbols(hy, c)
