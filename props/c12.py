"""C12 -- compiler-introduced names are reserved and never clobber user names."""
import ast
import types

from lib import vlib
from props import compiler_common as cc
from translator import compiler_tables

META = {
    "technique": "Coq proofs by structural induction over programs: every name of the compiled result is a program name or a "
                 "temporary issued during that compilation (counter interval), disjointness across constructs; regenerated "
                 "get_anon_var format; AST-level correspondence (temporaries compared by exact name); name scan of the real "
                 "compiler's output over templates of all core forms with random (mangling-needing) user names",
    "level_text": "C12_introduced_names_reserved / C12_temporaries_disjoint: for every program of the modelled source language "
                  "the compiled result mentions only the program's own variables and temporaries T n with n in the counter "
                  "interval of that compilation; constructs compiled in sequence get disjoint temporaries; the temporary "
                  "rendering starts with _hy_ (regenerated format). C12_user_variables_kept is the eqU part of the C01 "
                  "simulation. The real compiler's output is scanned for invented names on templates covering let, for, "
                  "comprehensions, with, try/except-variables, fn/defn, match, import, defclass, f-strings, chained "
                  "comparisons, assert, ... with random user names (partial: those forms are not in the Coq model).",
    "level_note": "Trusted: Coq kernel; hand-written compiler model tied at AST level (names compared exactly); "
                  "translator/compiler_tables.py; the harness's collection of binding/loaded names from ast nodes and of the "
                  "program's own symbols from the models (mangled by the real hy.mangle, which C32 covers).",
}

TEMPLATES = [
    "(setv a (if b (do (f) 1) 2))", "(let [x 1 y (f x)] (g x y))", "(for [x xs] (f x))", "(lfor x xs :if (p x) (do (f) x))",
    "(gfor x xs (f x))", "(sfor x xs :setv y (f x) y)", "(dfor x xs x (f x))", "(lfor x xs (do (setv q 1) q))",
    "(with [o (g f)] (g o))", "(with [(g f)] (g))", "(try (f) (except [e E] (g e)) (finally (h)))", "(try (f) (except* [e E] (g e)))",
    "(defn f [a b #* args #** kw] (g a))", "(fn [x] (do (f) x))", "(setv z (fn [x] (setv y x) y))",
    "(match v [a b] (f a) {\"k\" c} c (C :x d) d _ 0)", "(match v 1 (f) :if (do (g) t))", "(while (do (f) c) (g))",
    "(import os [path :as p] sys)", "(defclass K [B] (setv x 1) (defn m [self] self))", "(print f\"{a !r} {b :>{w}}\")",
    "(cut a 1 2)", "(get a (do (f) 1))", "(.m o (do (f) 1))", "(chainc a < b <= c)", "(= a (do (f) b) c)", "(assert (do (f) a) (g))",
    "(del a)", "(global g1)", "(yield (do (f) 1))", "(quasiquote (a (unquote b)))", "(defmacro m [x] x)", "(eval-and-compile (setv a 1))",
    "(setx a (try (f) (except [E] 1)))", "(with [a (f) b (do (g) 1)] 2)", "(lfor x xs y ys :do (f) :setv z 1 [x y z])",
    "(defn :async f [] (with [:async a (g)] (await a)))", "(annotate x int)", "(setv #^ int x 1)", "(defn #^ int f [#^ int a] a)",
    "(f #* a #** b)", "(match v (| 1 2) 3)", "(match v [a #* r] r)", "(match v {\"a\" 1 #** r} r)",
    "(and a (do (f) b) (or c (do (g) d)))", "(if a (do (f) 1) (if b (do (g) 2) 3))", "(while c (f) (else (g)))",
    "(try (f) (except [E] (g)) (else (h)) (finally (k)))", "(setv [a b] (do (f) [1 2]))", "(+= a (do (f) 1))", "(not (do (f) a))",
    # two statement-lifted values live at once (siblings of a display / operator / call / comparison), also inside a
    # later clause of an else-if ladder: each needs a temporary of its own
    "[(if p (do (f) 1) 2) (if q (do (g) 3) 4)]", "(cond a 1 b [(if p (do (f) 1) 2) (if q (do (g) 3) 4)] True 5)",
    "(if a 1 (if b (+ (if p (do (f) 1) 2) (if q (do (g) 3) 4)) 5))", "(cond a 1 (< (if p (do (f) 1) 2) (if q (do (g) 3) 4)) 6 True 7)",
    "(cond a 1 b 2 c (h (when p (f) 1) (when q (g) 2)))", "(setv r (cond a 1 b {(if p (do (f) 1) 2) (if q (do (g) 3) 4)}))",
    "(if a 1 (if b (h (try (f) (except [E] 1)) (if q (do (g) 3) 4) (and p (do (g) 5))) 6))",
    "(defn f [a b] (cond a 1 b #((if p (do (g) 1) 2) (if q (do (g) 3) 4))))",
]
POOL = ["a", "b", "foo-bar", "is?", "x!", "λ", "_u", "long-name-1", "C", "E", "self", "k2", "*v*", "q->r", "t"]
KEEP = {"True", "False", "None", "int", "os", "sys", "path", "print", "self"}


def names_in_ast(tree):
    out = set()
    for n in ast.walk(tree):
        if isinstance(n, ast.Name):
            out.add(n.id)
        elif isinstance(n, (ast.FunctionDef, ast.AsyncFunctionDef, ast.ClassDef)):
            out.add(n.name)
        elif isinstance(n, ast.arg):
            out.add(n.arg)
        elif isinstance(n, ast.ExceptHandler) and n.name:
            out.add(n.name)
        elif isinstance(n, ast.alias):
            out.add((n.asname or n.name).split(".")[0])
        elif isinstance(n, (ast.MatchAs, ast.MatchStar)) and n.name:
            out.add(n.name)
        elif isinstance(n, ast.MatchMapping) and n.rest:
            out.add(n.rest)
        elif isinstance(n, (ast.Global, ast.Nonlocal)):
            out.update(n.names)
    return out


def sibling_temporaries(tree):
    """lists of _hy_anon_ temporaries read by sibling operands of one display / call / operator / comparison"""
    out = []
    for n in ast.walk(tree):
        if isinstance(n, (ast.List, ast.Tuple, ast.Set)):
            sibs = n.elts
        elif isinstance(n, ast.Dict):
            sibs = [k for k in n.keys if k is not None] + n.values
        elif isinstance(n, ast.Call):
            sibs = n.args + [k.value for k in n.keywords]
        elif isinstance(n, ast.BinOp):
            sibs = [n.left, n.right]
        elif isinstance(n, ast.Compare):
            sibs = [n.left] + n.comparators
        elif isinstance(n, ast.BoolOp):
            sibs = n.values
        else:
            continue
        ids = [x.id for x in sibs if isinstance(x, ast.Name) and isinstance(x.ctx, ast.Load) and x.id.startswith("_hy_anon_")]
        if ids:
            out.append(ids)
    return out


def template_oracle(chk, rng, rounds):
    hy = vlib.use_repo_in_process()
    from hy.compiler import hy_compile
    from hy.reader import read_many
    M = hy.models
    for rnd in range(rounds):
        for tpl in TEMPLATES:
            forms = list(read_many(tpl))
            ren = {}

            def rename(m):
                if isinstance(m, M.Symbol):
                    s = str(m)
                    if len(s) <= 2 and s.isalnum() and s not in KEEP and not s[0].isdigit() and rnd > 0:
                        if s not in ren:
                            ren[s] = rng.choice(POOL)
                        return M.Symbol(ren[s])
                    return m
                if isinstance(m, M.Sequence):
                    kw = {}
                    if isinstance(m, M.FComponent):
                        kw = {"conversion": m.conversion}
                    out = type(m)([rename(x) for x in m], **kw) if kw else type(m)([rename(x) for x in m])
                    return out
                return m
            forms = [rename(f) for f in forms]
            own = set()

            def syms(m):
                if isinstance(m, M.Symbol):
                    for part in str(m).split("."):
                        if part:
                            own.add(hy.mangle(part))
                elif isinstance(m, M.Keyword) and m.name:
                    own.add(hy.mangle(m.name))
                elif isinstance(m, M.Sequence):
                    for x in m:
                        syms(x)
            for f in forms:
                syms(f)
            src = " ".join(hy.repr(f).lstrip("'") for f in forms)
            mod = types.ModuleType("hyverif_c12")
            try:
                tree = hy_compile(M.Lazy(iter(forms)) if False else M.Expression([M.Symbol("do")] + forms), mod, import_stdlib=False)
            except Exception as e:
                chk.count("template:compile-error:" + type(e).__name__)
                chk.case("T:" + src, nontrivial=False)
                continue
            extra = sorted(n for n in names_in_ast(tree) if n not in own and n != "hy" and not n.startswith("_hy_"))
            chk.count("template:ok")
            chk.case("T:" + src, nontrivial=True, sample={"program": src, "names": sorted(names_in_ast(tree))[:12]} if (rnd == 1 and tpl.startswith("(let")) else None)
            for n in extra:
                chk.fail("invented-name", {"program": src, "name": n}, "compiled code mentions %r" % n,
                         "only program names, hy, or _hy_-prefixed names",
                         "hy_compile of the program; ast.walk names")
            # two sibling operands are two values that are live at once: they cannot be held by one temporary
            for ids in sibling_temporaries(tree):
                dup = sorted({i for i in ids if ids.count(i) > 1})
                if dup:
                    chk.fail("temporary-shared-by-live-values", {"program": src, "name": dup[0]},
                             "sibling operands read the same temporary %s: %s" % (dup, ast.unparse(tree)[:300]),
                             "distinct temporaries for values that are live at the same time",
                             "hy_compile of the program; sibling Name nodes of displays/calls/operators")
            # temporaries: a Store name _hy_anon_N is assigned in one construct only -- checked via exact-name AST correspondence
            # on the modelled fragment; here: every _hy_ name is mangle-stable
            for n in names_in_ast(tree):
                if n.startswith("_hy_") and hy.mangle(n) != n:
                    chk.fail("reserved-name-not-mangle-stable", {"program": src, "name": n}, hy.mangle(n), n, "hy.mangle(name)")


# names of LOCAL macros (defmacro / require inside a function, class, comprehension): plain ones and ones that need
# the hyx_ escape when mangled -- the hidden variable that holds a local macro must still be _hy_-prefixed
MACRO_NAMES = ["ok?", "set!", "->x", "+", "*foo*", "<=>", "λ?", "a/b", "%", "plain-one", "m1", "_u", "is-not?", "x->y!"]
LOCAL_MACRO_TEMPLATES = [
    # (program, expected value of `result` or None when nothing is run)
    ("(defn f [] (defmacro %(m)s [x] x) (%(m)s 1))", None),
    ("(setv g (fn [] (defmacro %(m)s [x] x) (%(m)s 1)))", None),
    ("(defclass K [] (defmacro %(m)s [x] x) (setv y (%(m)s 1)))", None),
    ("(lfor x [1 2] (do (defmacro %(m)s [a] a) (%(m)s x)))", None),
    ("(defn f [] (defn g [] (defmacro %(m)s [x] x) (%(m)s 3)) (g))\n(setv result (f))", "3"),
    ("(defn f [v] (defmacro %(m)s [x] x) (defmacro other [] 1) (setv ms (local-macros))\n"
     "  [(%(m)s v) (other) (sorted (.keys ms)) (is (get-macro %(m)s) (get ms (hy.mangle \"%(m)s\")))])\n(setv result (f 7))",
     "[7, 1, %(keys)s, True]"),
    ("(defn f [] (require hy.core.macros [when :as %(m)s]) (setv ms (local-macros)) [(%(m)s 1 2) (sorted (.keys ms))])\n"
     "(setv result (f))", "[2, [%(key)r]]"),
    ("(defclass K [] (defmacro %(m)s [x] x) (setv y (get-macro %(m)s)) (setv z (%(m)s 5)))\n(setv result [(callable K.y) K.z])",
     "[True, 5]"),
]


def local_macro_oracle(chk, rng, thorough):
    """local macros with names that need mangling: every name the compiler introduces for them is reserved, and the sites
    that spell the hidden variable (defmacro / require, local-macros, get-macro) agree on it, so the program runs"""
    import warnings
    hy = vlib.use_repo_in_process()
    from hy.compiler import hy_compile
    from hy.reader import read_many
    M = hy.models
    for m in MACRO_NAMES:
        for tpl, want in LOCAL_MACRO_TEMPLATES:
            key = hy.mangle(m)
            src = tpl % {"m": m, "key": key, "keys": sorted([key, "other"])}
            want = None if want is None else want % {"key": key, "keys": sorted([key, "other"])}
            forms = list(read_many(src))
            own = set()

            def syms(x):
                if isinstance(x, M.Symbol):
                    for part in str(x).split("."):
                        if part:
                            own.add(hy.mangle(part))
                    own.add(hy.mangle(str(x)))
                elif isinstance(x, M.Keyword) and x.name:
                    own.add(hy.mangle(x.name))
                elif isinstance(x, M.Sequence):
                    for y in x:
                        syms(y)
            for f in forms:
                syms(f)
            mod = types.ModuleType("hyverif_c12m")
            with warnings.catch_warnings():
                warnings.simplefilter("ignore")
                try:
                    tree = hy_compile(read_many(src), mod)
                except Exception as e:
                    chk.count("local-macro:compile-error:" + type(e).__name__)
                    chk.case("M:" + src, nontrivial=False)
                    chk.fail("local-macro-does-not-compile", {"program": src}, type(e).__name__ + ": " + str(e)[:120], "compiles",
                             "hy_compile(hy.read_many(src), module)")
                    continue
                names = names_in_ast(tree)
                chk.count("local-macro:ok")
                chk.case("M:" + src, nontrivial=True, sample={"program": src, "names": sorted(n for n in names if n.startswith("_hy"))[:6]}
                         if (m == "ok?" and want is not None and "other" in src) else None)
                for n in sorted(names):
                    if n not in own and n != "hy" and not n.startswith("_hy_"):
                        chk.fail("invented-name", {"program": src, "name": n}, "compiled code mentions %r" % n,
                                 "only program names, hy, or _hy_-prefixed names", "hy_compile of the program; ast.walk names")
                    if n.startswith("_hy_") and hy.mangle(n) != n:
                        chk.fail("reserved-name-not-mangle-stable", {"program": src, "name": n}, hy.mangle(n), n, "hy.mangle(name)")
                if want is not None:
                    try:
                        exec(compile(tree, "<hyverif_c12m>", "exec"), mod.__dict__)
                        got = repr(mod.__dict__.get("result"))
                    except Exception as e:
                        got = "raises %s: %s" % (type(e).__name__, str(e)[:100])
                    if got != want:
                        chk.fail("local-macro-sites-disagree", {"program": src}, got, want,
                                 "exec(compile(hy_compile(hy.read_many(src), module))); module.result")


RENAMED_TEMPLATES = [
    # (program; %(op)s and/or, %(v0)s the value of the renamed user variable, %(s)s a statement-producing operand of value v1)
    ("let", "(let [x %(v0)s] (setv r [(%(op)s x %(s)s)]) [r x])"),
    ("let", "(let [x %(v0)s] (setv r (f 100 (%(op)s x %(s)s))) [r x])"),
    ("let", "(let [x %(v0)s] (setv r (%(op)s x %(s)s)) [[r] x])"),
    ("let", "(let [x %(v0)s y x] [[(%(op)s y %(s)s)] y])"),
    ("let", "(defn g [] (let [x %(v0)s] [[(%(op)s x %(s)s)] x]))\n(g)"),
    ("let", "(let [x %(v0)s] [[(%(op)s x %(s)s (note))] x])"),
    ("except", "(try (raise (E %(v0)s)) (except [e E] (setv r [(%(op)s (ok e) %(s)s)]) [r (get e.args 0)]))"),
    ("except", "(try (raise (E %(v0)s)) (except [e E] (setv e (get e.args 0)) (setv r [(%(op)s e %(s)s)]) [r e]))"),
    ("gensym", "(defmacro m [a b] (setv g (hy.gensym)) `(do (setv ~g ~a) [[(%(op)s ~g ~b)] ~g]))\n(m %(v0)s %(s)s)"),
    ("gensym", "(defmacro m [a b] (setv g (hy.gensym \"x\")) `(let [~g ~a] [[(%(op)s ~g ~b)] ~g]))\n(m %(v0)s %(s)s)"),
]
RENAMED_VALUES = [("0", 0), ("1", 1), ("None", None), ("\"a\"", "a"), ("\"\"", ""), ("7", 7), ("False", False), ("[]", [])]
RENAMED_STMTS = ["(do (note) %s)", "(do (setv q 1) %s)", "(if (c) (do (note) %s) %s)", "(do (note) (note) %s)"]


def renamed_variable_oracle(chk, rng, n):
    """and/or whose leading operand is a USER variable that the compiler spells with a reserved name (let-bound, the
    variable of an except clause, a gensym of a macro expansion), with a later statement-producing operand: the and/or
    value is Python's, and the variable still holds its own value afterwards"""
    hy = vlib.use_repo_in_process()
    for i in range(n):
        kind, tpl = RENAMED_TEMPLATES[i % len(RENAMED_TEMPLATES)]
        op = rng.choice(["and", "or"])
        (t0, v0), (t1, v1) = rng.choice(RENAMED_VALUES), rng.choice(RENAMED_VALUES)
        st = rng.choice(RENAMED_STMTS)
        st = st % ((t1,) * st.count("%s"))
        src = tpl % {"op": op, "v0": t0, "s": st}
        lead = v0
        if "(ok e)" in src:
            lead = True               # (ok e) is truthy whatever e holds; the variable read afterwards is e
        elif "(get e.args 0)" in src and kind == "except":
            lead = v0
        val = (lead and v1) if op == "and" else (lead or v1)
        if "(note))] x]" in src:      # a third, plain operand (note) -> None
            val = (val and None) if op == "and" else (val or None)
        if "(ok e)" in src:
            val = (True and v1) if op == "and" else True
        if "(f 100" in src:
            want = [[100, val], v0]
        elif "[[r] x]" in src:
            want = [[val], v0]
        else:
            want = [[val], v0]
        notes = []
        env = {"note": lambda: notes.append(1), "c": lambda: True, "f": lambda a, b: [a, b], "ok": lambda e: True,
               "E": type("E", (Exception,), {})}
        try:
            got = hy.eval(hy.read_many(src), env)
        except Exception as e:
            got = "raises %s: %s" % (type(e).__name__, str(e)[:80])
        chk.count("renamed-variable:" + kind)
        chk.case("R:" + src, nontrivial=True, sample={"program": src, "value": repr(got)} if i % 97 == 3 else None)
        if repr(got) != repr(want):
            chk.fail("user-variable-clobbered", {"program": src}, repr(got), repr(want),
                     "hy.eval(hy.read_many(src), env) with note/c/f/ok/E as in props/c12.py renamed_variable_oracle")


def handler_variable_oracle(chk, rng, n):
    """try forms nested in handler bodies (and in finally / else / function bodies), the handlers binding the same or
    different user names: every except clause gets an introduced variable of its own (no two ExceptHandler nodes of one
    compilation share a name), and each user variable still holds its own exception after an inner handler has run"""
    hy = vlib.use_repo_in_process()
    from hy.compiler import hy_compile
    names = ["e", "err", "x!", "e"]
    for i in range(n):
        depth = 2 + (i % 3 == 2) + (rng.random() < 0.2)
        same = i % 4 != 3
        nm = [rng.choice(names)] * depth if same else [rng.choice(names) for _ in range(depth)]
        fires = [True] + [(rng.random() < 0.8) for _ in range(depth - 1)]
        where = [rng.choice(["body", "body", "finally"]) for _ in range(depth)]

        def build(level):
            """returns (source, expected notes)"""
            if level == depth:
                return None, []
            inner, ilog = build(level + 1)
            raise_ = '(raise (E%d "m%d"))' % (level, level) if fires[level] else '(note "quiet%d")' % level
            hb = []
            log = [] if fires[level] else ["quiet%d" % level]
            if fires[level]:
                if inner is not None and where[level] == "body":
                    hb.append(inner)
                    log += ilog
                hb.append("(note (str %s))" % nm[level])
                log.append("m%d" % level)
                if rng.random() < 0.3:
                    hb.append("(note (get %s.args 0))" % nm[level])
                    log.append("m%d" % level)
            else:
                hb.append('(note "never")')
            src = "(try %s (except [%s E%d] %s)" % (raise_, nm[level], level, " ".join(hb))
            if inner is not None and where[level] == "finally":
                src += " (finally %s)" % inner
                log += ilog
            return src + ")", log
        src, want = build(0)
        ctx = i % 3
        full = src if ctx == 0 else "(defn f [] %s)\n(f)" % src if ctx == 1 else "(setv r %s)" % src
        notes = []
        env = {"note": notes.append}
        for k in range(depth):
            env["E%d" % k] = type("E%d" % k, (Exception,), {})
        try:
            tree = hy_compile(hy.read_many(full), types.ModuleType("hyverif_c12h"), import_stdlib=False)
        except Exception as e:
            chk.case("H:" + full, nontrivial=False)
            chk.fail("handler-variable-does-not-compile", {"program": full}, type(e).__name__ + ": " + str(e)[:100], "compiles", "hy_compile")
            continue
        hn = [h.name for h in ast.walk(tree) if isinstance(h, ast.ExceptHandler) and h.name]
        chk.count("handler-variable:depth %d:%s" % (depth, "same name" if same else "mixed names"))
        chk.case("H:" + full, nontrivial=True, sample={"program": full, "handler_names": hn} if i % 97 == 5 else None)
        dup = sorted({x for x in hn if hn.count(x) > 1})
        if dup:
            chk.fail("handler-variables-share-a-name", {"program": full, "name": dup[0]}, "ExceptHandler names %r" % hn,
                     "one introduced name per except clause", "hy_compile; ExceptHandler.name of every handler")
        for x in hn:
            if not x.startswith("_hy_") or hy.mangle(x) != x:
                chk.fail("invented-name", {"program": full, "name": x}, x, "_hy_-prefixed, mangle-stable", "hy_compile; ExceptHandler.name")
        try:
            exec(compile(tree, "<hyverif_c12h>", "exec"), env)
            got = notes
        except Exception as e:
            got = notes + ["raises %s: %s" % (type(e).__name__, str(e)[:80])]
        if got != want:
            chk.fail("handler-variable-lost", {"program": full}, repr(got), repr(want),
                     "exec of hy_compile(hy.read_many(src)) with note = list.append and E0.. exception classes")


def let_oracle(chk, rng, n):
    """a let that binds one name several times gives every binding its own temporary: closures created between two
    bindings of a name keep seeing the earlier one"""
    hy = vlib.use_repo_in_process()
    from hy.compiler import hy_compile
    for i in range(n):
        names = ["a", "b", "c-d"][: rng.randrange(1, 4)]
        binds, env, closures, expect = [], {}, [], []
        for j in range(rng.randrange(2, 7)):
            nm = rng.choice(names)
            if env and rng.random() < 0.4:
                src_nm = rng.choice(sorted(env))
                cname = "k%d" % j
                binds.append((cname, "(fn [] %s)" % src_nm))
                closures.append((cname, env[src_nm]))
            else:
                val = rng.randrange(100)
                binds.append((nm, str(val)))
                env[nm] = val
        body = "[" + " ".join("(%s)" % c for c, _ in closures) + " " + " ".join(sorted(env)) + "]"
        src = "(let [%s] %s)" % (" ".join("%s %s" % b for b in binds), body)
        want = [v for _, v in closures] + [env[k] for k in sorted(env)]
        try:
            got = hy.eval(hy.read(src), {})
        except Exception as e:
            got = "raises " + type(e).__name__
        tree = hy_compile(hy.read(src), types.ModuleType("hyverif_c12l"), import_stdlib=False)
        stores = {x.id for x in ast.walk(tree) if isinstance(x, ast.Name) and isinstance(x.ctx, ast.Store) and x.id.startswith("_hy_let_")}
        chk.count("let:bindings=%d" % len(binds))
        chk.case("L:" + src, nontrivial=len(binds) >= 3, sample={"program": src, "value": repr(got)} if i % 150 == 7 else None)
        if got != want:
            chk.fail("let-binding-shared", {"program": src}, repr(got), repr(want), "hy.eval(hy.read(src), {})")
        elif len(stores) != len(binds):
            chk.fail("let-temporaries-not-distinct", {"program": src}, "%d distinct _hy_let_ names for %d bindings" % (len(stores), len(binds)),
                     "one temporary per binding", "hy_compile; Store names starting with _hy_let_")


def run(chk):
    chk.trusted = cc.TRUSTED_COMPILER
    chk.assumptions = ["observed names: Name ids, def/class names, args, handler names, pattern captures, import aliases, "
                       "global/nonlocal names; attribute names and keyword-argument names of calls reached through hy. count as uses of hy "
                       "(class-pattern keyword attributes are C34's subject)"]
    cc.register_matchers(chk)
    chk.matchers["assert-reads-__debug__"] = lambda rec, params: rec["key"] == "invented-name" and rec["input"].get("name") == "__debug__" \
        and "assert" in rec["input"].get("program", "")
    chk.prove("Props/C12.v", ["Props/C12.vo", "Compiler/Run.vo"], [compiler_tables.translate])
    rng = chk.rng
    thorough = chk.tier == "thorough"
    progs = cc.make_progs(rng, 3000 if thorough else 300, ["setx", "exn", "raise", "while", "try"], 1, 4)
    # two statement-lifted values live at once (arguments of a call with two arguments), mostly inside a later clause of an
    # else-if ladder: a temporary shared by both shows as a wrong value (behaviour only, see compiler_common.to_coq)
    full = ["setx", "exn", "raise", "while", "try", "log2", "focus"]
    progs += cc.focused_progs(rng, 1200 if thorough else 150, full, ["ladder", "two_live", "ladder"])
    cc.annotate(progs)
    chk.rule = ("(a) programs over the modelled fragment: the real AST must equal the model's AST with temporaries compared by "
                "exact name, and behave like the reference (user variables kept); plus else-if ladders / calls whose two arguments "
                "are statement-lifted ifs (both temporaries live at once; behaviour only); (b) local macros (defmacro / require in "
                "a function, class, comprehension) with 14 names incl. ones needing the hyx_ escape: introduced names reserved, "
                "local-macros / get-macro agree with the definition site; (c) %d templates covering the core forms, "
                "with user symbols renamed to random names from a pool incl. names needing mangling: every name in the "
                "compiled AST must be a program name, hy, or _hy_-prefixed, and sibling operands never read the same _hy_anon_ "
                "temporary; non-trivial = compiled template / program of size >= 4"
                % len(TEMPLATES))
    cc.differential(chk, progs)
    template_oracle(chk, rng, 40 if thorough else 6)
    local_macro_oracle(chk, rng, thorough)
    let_oracle(chk, rng, 4000 if thorough else 400)
    renamed_variable_oracle(chk, rng, 3000 if thorough else 300)
    handler_variable_oracle(chk, rng, 2000 if thorough else 240)
