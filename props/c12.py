"""C12 -- compiler-introduced names are reserved and never clobber user names."""
import ast
import types

from lib import vlib
from props import compiler_common as cc
from translator import compiler_tables

META = {
    "technique": "Coq proofs by structural induction over programs: every name of the compiled result is a program name or a "
                 "temporary issued during that compilation (counter interval), disjointness across constructs; regenerated "
                 "get_anon_var format; AST-level correspondence (temporaries compared by exact name); name scan of the real "
                 "compiler's output over templates of all core forms with random (mangling-needing) user names",
    "level_text": "C12_introduced_names_reserved / C12_temporaries_disjoint: for every program of the modelled source language "
                  "the compiled result mentions only the program's own variables and temporaries T n with n in the counter "
                  "interval of that compilation; constructs compiled in sequence get disjoint temporaries; the temporary "
                  "rendering starts with _hy_ (regenerated format). C12_user_variables_kept is the eqU part of the C01 "
                  "simulation. The real compiler's output is scanned for invented names on templates covering let, for, "
                  "comprehensions, with, try/except-variables, fn/defn, match, import, defclass, f-strings, chained "
                  "comparisons, assert, ... with random user names (partial: those forms are not in the Coq model).",
    "level_note": "Trusted: Coq kernel; hand-written compiler model tied at AST level (names compared exactly); "
                  "translator/compiler_tables.py; the harness's collection of binding/loaded names from ast nodes and of the "
                  "program's own symbols from the models (mangled by the real hy.mangle, which C32 covers).",
}

TEMPLATES = [
    "(setv a (if b (do (f) 1) 2))", "(let [x 1 y (f x)] (g x y))", "(for [x xs] (f x))", "(lfor x xs :if (p x) (do (f) x))",
    "(gfor x xs (f x))", "(sfor x xs :setv y (f x) y)", "(dfor x xs x (f x))", "(lfor x xs (do (setv q 1) q))",
    "(with [o (g f)] (g o))", "(with [(g f)] (g))", "(try (f) (except [e E] (g e)) (finally (h)))", "(try (f) (except* [e E] (g e)))",
    "(defn f [a b #* args #** kw] (g a))", "(fn [x] (do (f) x))", "(setv z (fn [x] (setv y x) y))",
    "(match v [a b] (f a) {\"k\" c} c (C :x d) d _ 0)", "(match v 1 (f) :if (do (g) t))", "(while (do (f) c) (g))",
    "(import os [path :as p] sys)", "(defclass K [B] (setv x 1) (defn m [self] self))", "(print f\"{a !r} {b :>{w}}\")",
    "(cut a 1 2)", "(get a (do (f) 1))", "(.m o (do (f) 1))", "(chainc a < b <= c)", "(= a (do (f) b) c)", "(assert (do (f) a) (g))",
    "(del a)", "(global g1)", "(yield (do (f) 1))", "(quasiquote (a (unquote b)))", "(defmacro m [x] x)", "(eval-and-compile (setv a 1))",
    "(setx a (try (f) (except [E] 1)))", "(with [a (f) b (do (g) 1)] 2)", "(lfor x xs y ys :do (f) :setv z 1 [x y z])",
    "(defn :async f [] (with [:async a (g)] (await a)))", "(annotate x int)", "(setv #^ int x 1)", "(defn #^ int f [#^ int a] a)",
    "(f #* a #** b)", "(match v (| 1 2) 3)", "(match v [a #* r] r)", "(match v {\"a\" 1 #** r} r)",
    "(and a (do (f) b) (or c (do (g) d)))", "(if a (do (f) 1) (if b (do (g) 2) 3))", "(while c (f) (else (g)))",
    "(try (f) (except [E] (g)) (else (h)) (finally (k)))", "(setv [a b] (do (f) [1 2]))", "(+= a (do (f) 1))", "(not (do (f) a))",
]
POOL = ["a", "b", "foo-bar", "is?", "x!", "λ", "_u", "long-name-1", "C", "E", "self", "k2", "*v*", "q->r", "t"]
KEEP = {"True", "False", "None", "int", "os", "sys", "path", "print", "self"}


def names_in_ast(tree):
    out = set()
    for n in ast.walk(tree):
        if isinstance(n, ast.Name):
            out.add(n.id)
        elif isinstance(n, (ast.FunctionDef, ast.AsyncFunctionDef, ast.ClassDef)):
            out.add(n.name)
        elif isinstance(n, ast.arg):
            out.add(n.arg)
        elif isinstance(n, ast.ExceptHandler) and n.name:
            out.add(n.name)
        elif isinstance(n, ast.alias):
            out.add((n.asname or n.name).split(".")[0])
        elif isinstance(n, (ast.MatchAs, ast.MatchStar)) and n.name:
            out.add(n.name)
        elif isinstance(n, ast.MatchMapping) and n.rest:
            out.add(n.rest)
        elif isinstance(n, (ast.Global, ast.Nonlocal)):
            out.update(n.names)
    return out


def template_oracle(chk, rng, rounds):
    hy = vlib.use_repo_in_process()
    from hy.compiler import hy_compile
    from hy.reader import read_many
    M = hy.models
    for rnd in range(rounds):
        for tpl in TEMPLATES:
            forms = list(read_many(tpl))
            ren = {}

            def rename(m):
                if isinstance(m, M.Symbol):
                    s = str(m)
                    if len(s) <= 2 and s.isalnum() and s not in KEEP and not s[0].isdigit() and rnd > 0:
                        if s not in ren:
                            ren[s] = rng.choice(POOL)
                        return M.Symbol(ren[s])
                    return m
                if isinstance(m, M.Sequence):
                    kw = {}
                    if isinstance(m, M.FComponent):
                        kw = {"conversion": m.conversion}
                    out = type(m)([rename(x) for x in m], **kw) if kw else type(m)([rename(x) for x in m])
                    return out
                return m
            forms = [rename(f) for f in forms]
            own = set()

            def syms(m):
                if isinstance(m, M.Symbol):
                    for part in str(m).split("."):
                        if part:
                            own.add(hy.mangle(part))
                elif isinstance(m, M.Keyword) and m.name:
                    own.add(hy.mangle(m.name))
                elif isinstance(m, M.Sequence):
                    for x in m:
                        syms(x)
            for f in forms:
                syms(f)
            src = " ".join(hy.repr(f).lstrip("'") for f in forms)
            mod = types.ModuleType("hyverif_c12")
            try:
                tree = hy_compile(M.Lazy(iter(forms)) if False else M.Expression([M.Symbol("do")] + forms), mod, import_stdlib=False)
            except Exception as e:
                chk.count("template:compile-error:" + type(e).__name__)
                chk.case("T:" + src, nontrivial=False)
                continue
            extra = sorted(n for n in names_in_ast(tree) if n not in own and n != "hy" and not n.startswith("_hy_"))
            chk.count("template:ok")
            chk.case("T:" + src, nontrivial=True, sample={"program": src, "names": sorted(names_in_ast(tree))[:12]} if (rnd == 1 and tpl.startswith("(let")) else None)
            for n in extra:
                chk.fail("invented-name", {"program": src, "name": n}, "compiled code mentions %r" % n,
                         "only program names, hy, or _hy_-prefixed names",
                         "hy_compile of the program; ast.walk names")
            # temporaries: a Store name _hy_anon_N is assigned in one construct only -- checked via exact-name AST correspondence
            # on the modelled fragment; here: every _hy_ name is mangle-stable
            for n in names_in_ast(tree):
                if n.startswith("_hy_") and hy.mangle(n) != n:
                    chk.fail("reserved-name-not-mangle-stable", {"program": src, "name": n}, hy.mangle(n), n, "hy.mangle(name)")


def let_oracle(chk, rng, n):
    """a let that binds one name several times gives every binding its own temporary: closures created between two
    bindings of a name keep seeing the earlier one"""
    hy = vlib.use_repo_in_process()
    from hy.compiler import hy_compile
    for i in range(n):
        names = ["a", "b", "c-d"][: rng.randrange(1, 4)]
        binds, env, closures, expect = [], {}, [], []
        for j in range(rng.randrange(2, 7)):
            nm = rng.choice(names)
            if env and rng.random() < 0.4:
                src_nm = rng.choice(sorted(env))
                cname = "k%d" % j
                binds.append((cname, "(fn [] %s)" % src_nm))
                closures.append((cname, env[src_nm]))
            else:
                val = rng.randrange(100)
                binds.append((nm, str(val)))
                env[nm] = val
        body = "[" + " ".join("(%s)" % c for c, _ in closures) + " " + " ".join(sorted(env)) + "]"
        src = "(let [%s] %s)" % (" ".join("%s %s" % b for b in binds), body)
        want = [v for _, v in closures] + [env[k] for k in sorted(env)]
        try:
            got = hy.eval(hy.read(src), {})
        except Exception as e:
            got = "raises " + type(e).__name__
        tree = hy_compile(hy.read(src), types.ModuleType("hyverif_c12l"), import_stdlib=False)
        stores = {x.id for x in ast.walk(tree) if isinstance(x, ast.Name) and isinstance(x.ctx, ast.Store) and x.id.startswith("_hy_let_")}
        chk.count("let:bindings=%d" % len(binds))
        chk.case("L:" + src, nontrivial=len(binds) >= 3, sample={"program": src, "value": repr(got)} if i % 150 == 7 else None)
        if got != want:
            chk.fail("let-binding-shared", {"program": src}, repr(got), repr(want), "hy.eval(hy.read(src), {})")
        elif len(stores) != len(binds):
            chk.fail("let-temporaries-not-distinct", {"program": src}, "%d distinct _hy_let_ names for %d bindings" % (len(stores), len(binds)),
                     "one temporary per binding", "hy_compile; Store names starting with _hy_let_")


def run(chk):
    chk.trusted = cc.TRUSTED_COMPILER
    chk.assumptions = ["observed names: Name ids, def/class names, args, handler names, pattern captures, import aliases, "
                       "global/nonlocal names; attribute names and keyword-argument names of calls reached through hy. count as uses of hy "
                       "(class-pattern keyword attributes are C34's subject)"]
    cc.register_matchers(chk)
    chk.matchers["assert-reads-__debug__"] = lambda rec, params: rec["key"] == "invented-name" and rec["input"].get("name") == "__debug__" \
        and "assert" in rec["input"].get("program", "")
    chk.prove("Props/C12.v", ["Props/C12.vo", "Compiler/Run.vo"], [compiler_tables.translate])
    rng = chk.rng
    thorough = chk.tier == "thorough"
    progs = cc.make_progs(rng, 3000 if thorough else 300, ["setx", "exn", "raise", "while", "try"], 1, 4)
    cc.annotate(progs)
    chk.rule = ("(a) programs over the modelled fragment: the real AST must equal the model's AST with temporaries compared by "
                "exact name, and behave like the reference (user variables kept); (b) %d templates covering the core forms, "
                "with user symbols renamed to random names from a pool incl. names needing mangling: every name in the "
                "compiled AST must be a program name, hy, or _hy_-prefixed; non-trivial = compiled template / program of size >= 4"
                % len(TEMPLATES))
    cc.differential(chk, progs)
    template_oracle(chk, rng, 40 if thorough else 6)
    let_oracle(chk, rng, 4000 if thorough else 400)
