"""C02 -- and/or short-circuit and return Python's operand value."""
import itertools

from lib import vlib
from props import compiler_common as cc
from translator import compiler_tables

META = {
    "technique": "Coq simulation proof by induction over operand lists of any length (statement-lifting machine of and/or, "
                 "every fault oracle) + reference-semantics theorem in the property's words; AST-level correspondence with "
                 "hy_compile; CPython execution of the real compiled code vs the reference",
    "level_text": "C02_compiled_and_or_correct(_loop_free): for every operator, every operand list of any length whose "
                  "operands are arbitrary forms of the modelled language (plain, effectful, statement-producing, nested "
                  "and/or, if, not, raise, try, while), every fault oracle and store, the compiled result simulates the "
                  "reference (value or escaping exception, effect trace, user variables). C02_reference_semantics: the reference is the property's wording for "
                  "every arity and truth assignment, and C02_reference_is_first_stop_or_last proves that wording against a definition-independent first-stop-or-last specification. The compiler model is compared with hy_compile at AST level and the "
                  "target semantics with CPython on every generated program.",
    "level_note": "Trusted: Coq kernel; PySem (Python fragment semantics, validated against CPython each run, not verified); "
                  "HySem reference semantics written from the docs; hand-written compiler model tied by AST-level "
                  "differential runs; translator for and/or defaults and the temporary-name format; the theorem's premise "
                  "excludes forms inside which Result.rename fires (that is C01's finding, not and/or's).",
}


def operand(g, rng, kind, val):
    """an operand of the given kind whose value is val (a const tuple)"""
    if kind == "const":
        return ("const", val)
    if kind == "log":
        return ("log", g.fresh_k(), ("const", val))
    if kind == "stmt":
        n = rng.randrange(cc.NVARS)
        return ("do", [("setv", n, ("log", g.fresh_k(), ("const", val))), ("var", n)])
    if kind == "if":
        return ("if", ("log", g.fresh_k(), ("const", ("bool", True))), ("const", val), ("const", ("int", 9)))
    if kind == "ifstmt":
        return ("if", ("const", ("bool", False)), ("const", ("int", 9)), ("do", [("log", g.fresh_k(), ("const", ("none",))), ("const", val)]))
    if kind == "not":
        return ("not", ("log", g.fresh_k(), ("const", ("bool", not cc_truthy(val)))))
    # value-less statement operands: the operand's own value is None whatever `val` is
    if kind == "setv":
        return ("setv", rng.randrange(cc.NVARS), ("log", g.fresh_k(), ("const", val)))
    if kind == "dosetv":
        return ("do", [("log", g.fresh_k(), ("const", val)), ("setv", rng.randrange(cc.NVARS), ("const", val))])
    if kind == "while":
        a = cc.NVARS + g.loopvar
        g.loopvar += 1
        return ("do", [("setv", a, ("const", ("bool", True))),
                       ("while", ("var", a), [("setv", a, ("const", ("bool", False))), ("log", g.fresh_k(), ("const", val))], None)])
    raise AssertionError(kind)


def cc_truthy(v):
    return {"none": False}.get(v[0], bool(v[1]) if len(v) > 1 else False)


TRUTHY = [("int", 7), ("bool", True), ("int", -3)]
FALSY = [("int", 0), ("bool", False), ("none",)]
KINDS = ["const", "log", "stmt", "if", "ifstmt"]
VALUELESS = ["setv", "dosetv", "while"]      # statement-producing operands without a value: they evaluate to None (falsy)


def fn_operand_oracle(chk, rng, n):
    """real code only (fn is outside the Coq model): and/or with operands that are anonymous functions compiled to a def
    (statement body) whose default-argument / annotation expressions are effectful.  Evaluating such an operand runs
    those expressions -- exactly when every earlier operand was truthy (and) / falsy (or), and after them."""
    hy = vlib.use_repo_in_process()
    vals = [("0", 0), ("7", 7), ("None", None), ("True", True), ("\"\"", ""), ("\"a\"", "a")]
    for i in range(n):
        op = rng.choice(["and", "or"])
        arity = rng.randrange(2, 6)
        fnpos = rng.randrange(1, arity) if rng.random() < 0.85 else 0
        ops, spec = [], []
        for j in range(arity):
            t, v = rng.choice(vals)
            if i < 24 and j < fnpos:
                # the first cases are deterministic: earlier operands short-circuit / do not, alternately
                t, v = (("0", 0) if (op == "and") == (i % 2 == 0) else ("7", 7))
            r = rng.random()
            if j == fnpos or r < 0.15:
                kind = rng.choice(["default", "default", "annotation", "return-annotation", "two-defaults"])
                if kind == "default":
                    ops.append("(fn [[x (t %d %s)]] (setv junk 1) x)" % (j, t))
                elif kind == "annotation":
                    ops.append("(fn [#^ (t %d %s) [x 5]] (setv junk 1) x)" % (j, t))
                elif kind == "return-annotation":
                    ops.append("(fn #^ (t %d %s) [[x 5]] (setv junk 1) x)" % (j, t))
                else:
                    ops.append("(fn [[x (t %d %s)] [y (t %d 1)]] (setv junk 1) x)" % (j, t, j + 100))
                spec.append(("fn", [j, j + 100] if kind == "two-defaults" else [j], None))
            elif r < 0.35:
                ops.append("(do (setv junk %d) (t %d %s))" % (j, j, t))
                spec.append(("val", [j], v))
            else:
                ops.append("(t %d %s)" % (j, t))
                spec.append(("val", [j], v))
        src = "(%s %s)" % (op, " ".join(ops))
        want_log, want = [], (True if op == "and" else None)
        for kind, pts, v in spec:
            want_log += pts
            want = "FN" if kind == "fn" else v
            truth = True if kind == "fn" else bool(v)
            if truth != (op == "and"):
                break
        for ctx in ("%s", "[%s]", "(setv r %s) r"):
            full = ctx % src
            log = []

            def t(k, v):
                log.append(k)
                return v
            try:
                got = hy.eval(hy.read_many(full), {"t": t, "int": int})
                if isinstance(got, list):
                    got = got[0]
                got = "FN" if callable(got) else got
                res = (repr(got), log)
            except Exception as e:
                res = ("raises %s: %s" % (type(e).__name__, str(e)[:80]), log)
            chk.count("fn-operand:%s:arity %d" % (op, arity))
            chk.case("F:" + full, nontrivial=True, sample={"program": full, "result": repr(res)} if (i % 150 == 7 and ctx == "%s") else None)
            if res != (repr(want), want_log):
                chk.fail("fn-operand-effects", {"program": full}, "value %s, effect points %r" % res,
                         "value %r, effect points %r" % (want, want_log),
                         "hy.eval(hy.read_many(src), {'t': t}) with t(k, v) logging k and returning v")


def run(chk):
    chk.trusted = cc.TRUSTED_COMPILER
    chk.assumptions = ["operands of generated forms never assign a statement-lifted value with setv/setx, so Result.rename "
                       "does not fire (C01 covers that)"]
    chk.prove("Props/C02.v", ["Props/C02.vo", "Compiler/Run.vo", "Compiler/Valueless.vo"], [compiler_tables.translate])
    rng = chk.rng
    thorough = chk.tier == "thorough"
    g = cc.Gen(rng, [])
    progs = []

    def kinds_for(tv):
        return KINDS if tv else KINDS + VALUELESS
    # every arity 0..N, every truth assignment, operand kinds chosen per slot (thorough: all kind tuples up to arity 3)
    max_exh = 4 if thorough else 3
    for isand in (True, False):
        for n in range(0, max_exh + 1):
            for truth in itertools.product([True, False], repeat=n):
                kind_choices = itertools.product(*[kinds_for(tv) for tv in truth]) if (thorough and n <= 3) else \
                    [tuple(rng.choice(kinds_for(tv)) for tv in truth) for _ in range(3 if n else 1)]
                for ks in kind_choices:
                    g.k = 0
                    g.loopvar = 0
                    ops = [operand(g, rng, k, rng.choice(TRUTHY if tv else FALSY)) for k, tv in zip(ks, truth)]
                    progs.append(cc.dress(rng, ("bool", isand, ops), fault_p=0.25))
                    chk.count("exhaustive-truth arity %d" % n)
    # a value-less statement operand (setv / do ending in setv / while) that is REACHED in every position but the
    # first (earlier operands truthy for and, falsy for or), followed by plain or statement-producing operands of
    # either truth: its value None is the result of `and`, and of `or` when it comes last
    for isand in (True, False):
        for n in range(2, 6 if thorough else 5):
            for pos in range(1, n):
                for vk in VALUELESS:
                    for variant in range(3 if thorough else 2):
                        g.k = 0
                        g.loopvar = 0
                        ops = []
                        for i in range(n):
                            if i == pos:
                                ops.append(operand(g, rng, vk, rng.choice(TRUTHY + FALSY)))
                            elif i < pos:
                                ops.append(operand(g, rng, rng.choice(KINDS), rng.choice(TRUTHY if isand else FALSY)))
                            else:
                                ops.append(operand(g, rng, rng.choice(KINDS + VALUELESS), rng.choice(TRUTHY + FALSY)))
                        progs.append(cc.dress(rng, ("bool", isand, ops), fault_p=0.15))
                        chk.count("value-less operand reached at position %d of %d" % (pos, n))
    # an enclosing and/or that already owns its temporary (a statement-producing operand at index >= 1 was reached), whose
    # LATER operand holds two sibling and/or forms that each need the if-chain and whose values are both live: they are the
    # two arguments of a call (log2 k a b) (behaviour only, see compiler_common.to_coq).  Each form needs a temporary of its own.
    def inner_form():
        isand = rng.random() < 0.5
        vals = TRUTHY + FALSY
        ops = [operand(g, rng, rng.choice(["const", "log", "if"]), rng.choice(vals))]
        ops.append(operand(g, rng, rng.choice(["stmt", "ifstmt", "stmt"]), rng.choice(vals)))
        if rng.random() < 0.3:
            ops.append(operand(g, rng, rng.choice(KINDS), rng.choice(vals)))
        return ("bool", isand, ops)
    for _ in range(600 if thorough else 90):
        g.k = 0
        g.loopvar = 0
        isand = rng.random() < 0.5
        reach = TRUTHY if isand else FALSY
        ops = [operand(g, rng, rng.choice(KINDS), rng.choice(reach)) for _i in range(rng.randrange(1, 3))]
        ops.append(operand(g, rng, rng.choice(["stmt", "ifstmt"]), rng.choice(reach)))
        if rng.random() < 0.4:
            ops.append(operand(g, rng, rng.choice(["const", "log"]), rng.choice(reach)))
        a, b = inner_form(), inner_form()
        if g.k % 2 == 1 and rng.random() < 0.7:
            g.k += 1                      # mostly an odd effect point: the call returns its FIRST argument
        call = g.mk_log2(a, b)
        r = rng.random()
        ops.append(call if r < 0.5 else ("do", [("setv", rng.randrange(cc.NVARS), ("const", rng.choice(TRUTHY + FALSY))), call])
                   if r < 0.8 else ("log", g.fresh_k(), call))
        if rng.random() < 0.3:
            ops.append(operand(g, rng, rng.choice(KINDS), rng.choice(TRUTHY + FALSY)))
        progs.append(cc.dress(rng, ("bool", isand, ops), fault_p=0.1))
        chk.count("sibling and/or forms live at once inside a later operand")
    # larger arities and nested and/or, sampled
    for _ in range(2500 if thorough else 420):
        g.k = 0
        g.loopvar = 0
        n = rng.randrange(2, 9)
        ops = []
        for _i in range(n):
            r = rng.random()
            if r < 0.2:
                inner = [operand(g, rng, rng.choice(KINDS), rng.choice(TRUTHY + FALSY)) for _j in range(rng.randrange(0, 4))]
                ops.append(("bool", rng.random() < 0.5, inner))
            elif r < 0.3:
                ops.append(("not", ("bool", rng.random() < 0.5, [operand(g, rng, rng.choice(KINDS), rng.choice(TRUTHY + FALSY)) for _j in range(2)])))
            elif r < 0.4:
                ops.append(("var", rng.randrange(cc.NVARS)))
            else:
                ops.append(operand(g, rng, rng.choice(KINDS + ["not"] + VALUELESS), rng.choice(TRUTHY + FALSY)))
        progs.append(cc.dress(rng, ("bool", rng.random() < 0.5, ops), fault_p=0.3))
        chk.count("sampled arity %d" % n)
    chk.rule = ("(and ...)/(or ...) forms: every arity 0..%d x every truth assignment x operand kinds {constant, effectful call, "
                "do-block needing statements, if expression, if needing statements; for falsy slots also the value-less statements "
                "setv, do ending in setv, while} (thorough: all kind tuples up to arity 3), a value-less statement operand reached "
                "in every non-first position of arities 2..4, plus sampled arities 2..8 with nested and/or, not, variables; a fault table makes some effect points raise; "
                "non-trivial = distinct program of size >= 4" % max_exh)
    cc.differential(chk, progs)
    fn_operand_oracle(chk, rng, 1500 if thorough else 200)
