"""C02 -- and/or short-circuit and return Python's operand value."""
import itertools

from lib import vlib
from props import compiler_common as cc
from translator import compiler_tables

META = {
    "technique": "Coq simulation proof by induction over operand lists of any length (statement-lifting machine of and/or, "
                 "every fault oracle) + reference-semantics theorem in the property's words; AST-level correspondence with "
                 "hy_compile; CPython execution of the real compiled code vs the reference",
    "level_text": "C02_compiled_and_or_correct(_loop_free): for every operator, every operand list of any length whose "
                  "operands are arbitrary forms of the modelled language (plain, effectful, statement-producing, nested "
                  "and/or, if, not, raise, try, while), every fault oracle and store, the compiled result simulates the "
                  "reference (value or escaping exception, effect trace, user variables). C02_reference_semantics: the reference is the property's wording for "
                  "every arity and truth assignment. The compiler model is compared with hy_compile at AST level and the "
                  "target semantics with CPython on every generated program.",
    "level_note": "Trusted: Coq kernel; PySem (Python fragment semantics, validated against CPython each run, not verified); "
                  "HySem reference semantics written from the docs; hand-written compiler model tied by AST-level "
                  "differential runs; translator for and/or defaults and the temporary-name format; the theorem's premise "
                  "excludes forms inside which Result.rename fires (that is C01's finding, not and/or's).",
}


def operand(g, rng, kind, val):
    """an operand of the given kind whose value is val (a const tuple)"""
    if kind == "const":
        return ("const", val)
    if kind == "log":
        return ("log", g.fresh_k(), ("const", val))
    if kind == "stmt":
        n = rng.randrange(cc.NVARS)
        return ("do", [("setv", n, ("log", g.fresh_k(), ("const", val))), ("var", n)])
    if kind == "if":
        return ("if", ("log", g.fresh_k(), ("const", ("bool", True))), ("const", val), ("const", ("int", 9)))
    if kind == "ifstmt":
        return ("if", ("const", ("bool", False)), ("const", ("int", 9)), ("do", [("log", g.fresh_k(), ("const", ("none",))), ("const", val)]))
    if kind == "not":
        return ("not", ("log", g.fresh_k(), ("const", ("bool", not cc_truthy(val)))))
    # value-less statement operands: the operand's own value is None whatever `val` is
    if kind == "setv":
        return ("setv", rng.randrange(cc.NVARS), ("log", g.fresh_k(), ("const", val)))
    if kind == "dosetv":
        return ("do", [("log", g.fresh_k(), ("const", val)), ("setv", rng.randrange(cc.NVARS), ("const", val))])
    if kind == "while":
        a = cc.NVARS + g.loopvar
        g.loopvar += 1
        return ("do", [("setv", a, ("const", ("bool", True))),
                       ("while", ("var", a), [("setv", a, ("const", ("bool", False))), ("log", g.fresh_k(), ("const", val))], None)])
    raise AssertionError(kind)


def cc_truthy(v):
    return {"none": False}.get(v[0], bool(v[1]) if len(v) > 1 else False)


TRUTHY = [("int", 7), ("bool", True), ("int", -3)]
FALSY = [("int", 0), ("bool", False), ("none",)]
KINDS = ["const", "log", "stmt", "if", "ifstmt"]
VALUELESS = ["setv", "dosetv", "while"]      # statement-producing operands without a value: they evaluate to None (falsy)


def run(chk):
    chk.trusted = cc.TRUSTED_COMPILER
    chk.assumptions = ["operands of generated forms never assign a statement-lifted value with setv/setx, so Result.rename "
                       "does not fire (C01 covers that)"]
    chk.prove("Props/C02.v", ["Props/C02.vo", "Compiler/Run.vo", "Compiler/Valueless.vo"], [compiler_tables.translate])
    rng = chk.rng
    thorough = chk.tier == "thorough"
    g = cc.Gen(rng, [])
    progs = []

    def kinds_for(tv):
        return KINDS if tv else KINDS + VALUELESS
    # every arity 0..N, every truth assignment, operand kinds chosen per slot (thorough: all kind tuples up to arity 3)
    max_exh = 4 if thorough else 3
    for isand in (True, False):
        for n in range(0, max_exh + 1):
            for truth in itertools.product([True, False], repeat=n):
                kind_choices = itertools.product(*[kinds_for(tv) for tv in truth]) if (thorough and n <= 3) else \
                    [tuple(rng.choice(kinds_for(tv)) for tv in truth) for _ in range(3 if n else 1)]
                for ks in kind_choices:
                    g.k = 0
                    g.loopvar = 0
                    ops = [operand(g, rng, k, rng.choice(TRUTHY if tv else FALSY)) for k, tv in zip(ks, truth)]
                    progs.append(cc.dress(rng, ("bool", isand, ops), fault_p=0.25))
                    chk.count("exhaustive-truth arity %d" % n)
    # a value-less statement operand (setv / do ending in setv / while) that is REACHED in every position but the
    # first (earlier operands truthy for and, falsy for or), followed by plain or statement-producing operands of
    # either truth: its value None is the result of `and`, and of `or` when it comes last
    for isand in (True, False):
        for n in range(2, 6 if thorough else 5):
            for pos in range(1, n):
                for vk in VALUELESS:
                    for variant in range(3 if thorough else 2):
                        g.k = 0
                        g.loopvar = 0
                        ops = []
                        for i in range(n):
                            if i == pos:
                                ops.append(operand(g, rng, vk, rng.choice(TRUTHY + FALSY)))
                            elif i < pos:
                                ops.append(operand(g, rng, rng.choice(KINDS), rng.choice(TRUTHY if isand else FALSY)))
                            else:
                                ops.append(operand(g, rng, rng.choice(KINDS + VALUELESS), rng.choice(TRUTHY + FALSY)))
                        progs.append(cc.dress(rng, ("bool", isand, ops), fault_p=0.15))
                        chk.count("value-less operand reached at position %d of %d" % (pos, n))
    # larger arities and nested and/or, sampled
    for _ in range(2500 if thorough else 420):
        g.k = 0
        g.loopvar = 0
        n = rng.randrange(2, 9)
        ops = []
        for _i in range(n):
            r = rng.random()
            if r < 0.2:
                inner = [operand(g, rng, rng.choice(KINDS), rng.choice(TRUTHY + FALSY)) for _j in range(rng.randrange(0, 4))]
                ops.append(("bool", rng.random() < 0.5, inner))
            elif r < 0.3:
                ops.append(("not", ("bool", rng.random() < 0.5, [operand(g, rng, rng.choice(KINDS), rng.choice(TRUTHY + FALSY)) for _j in range(2)])))
            elif r < 0.4:
                ops.append(("var", rng.randrange(cc.NVARS)))
            else:
                ops.append(operand(g, rng, rng.choice(KINDS + ["not"] + VALUELESS), rng.choice(TRUTHY + FALSY)))
        progs.append(cc.dress(rng, ("bool", rng.random() < 0.5, ops), fault_p=0.3))
        chk.count("sampled arity %d" % n)
    chk.rule = ("(and ...)/(or ...) forms: every arity 0..%d x every truth assignment x operand kinds {constant, effectful call, "
                "do-block needing statements, if expression, if needing statements; for falsy slots also the value-less statements "
                "setv, do ending in setv, while} (thorough: all kind tuples up to arity 3), a value-less statement operand reached "
                "in every non-first position of arities 2..4, plus sampled arities 2..8 with nested and/or, not, variables; a fault table makes some effect points raise; "
                "non-trivial = distinct program of size >= 4" % max_exh)
    cc.differential(chk, progs)
