"""C19 -- truncating a well-formed program inside an unclosed construct raises
PrematureEndOfInput (and nothing else); truncating between top-level forms reads
fine; the REPL's continuation prompt follows the same distinction."""
import contextlib
import io
import json
import os
import re

from lib import vlib
from props import reader_common as rc
from translator import reader_tables, reader_repl

META = {
    "technique": "Coq proof over partial trees (a printed tree cut at any token boundary, inside any separator, tag or "
                 "string-like leaf): reading the cut text yields Premature / the forms completed so far, by mutual "
                 "induction reusing the C20 round trip; refutation witnesses computed in Coq for the f-string and dotted-"
                 "identifier cuts; exhaustive cut-point oracle on hy.read_many and REPL.runsource for generated programs; "
                 "model-vs-implementation differential run on every prefix",
    "level_text": "Theorems C19_truncation_premature_partial / C19_truncation_in_context_partial (coq/Props/C19.v): for every "
                  "partial program -- a printed program cut after any item, separator, opener or prefix, inside any whitespace "
                  "run, comment, tag, discard or string-like leaf, at any depth, with arbitrary separators -- read_many gives "
                  "Premature iff the cut leaves a construct open and otherwise the forms completed so far; no size bound.  "
                  "C19_repl_continuation: the REPL asks for more iff Premature (caught class regenerated from hy/repl.py).  "
                  "Cuts inside f-string replacement fields are covered since the fix 156eccc.  C19_refuted_dotted_identifier / "
                  "_fstring_rbrace: two cut classes where the faithful model (and the code) answers LexException -- "
                  "recorded as known findings.  Every cut point of every generated "
                  "program is evaluated on hy.read_many (quick ~29k prefixes, thorough ~400k), a sample on REPL.runsource, and "
                  "model = implementation is checked on every prefix.",
    "level_note": "Trusted: as C18/C20.  The theorem quantifies over partial trees; that every cut point of a printed tree is "
                  "the printing of a partial tree (the prefix-decomposition) is stated as C19_full's first conjunct and is "
                  "validated per cut by the harness labels rather than proved.  Cuts strictly inside an identifier-like token "
                  "that no delimiter encloses are outside the property.",
}

TRUSTED = [
    "Coq 8.16.1 kernel; axioms: none",
    "oracle hypotheses orc_ok (as C20)",
    "translator/reader_tables.py; hand-written model Reader/Model.v tied by differential execution on every prefix",
    "the harness's cut-point labelling (props/reader_common.Render) decides what the property expects at each cut",
]


def matcher_dotted(rec, params):
    """the cut leaves a dotted identifier incomplete inside an open construct: as_identifier validates at the end of its characters"""
    if not (rec["key"] == "open-not-premature" and rec["input"].get("why") in ("dotted", "field+dotted") and rec["observed"].startswith("Lex")):
        return False
    tail = re.split(r"[\s()\[\]{};\"'`~]", rec["input"]["prefix"])[-1]
    return "." in tail and ("dotted identifier" in rec["observed"] or "Cannot access attribute" in rec["observed"])


def matcher_rbrace(rec, params):
    """the cut falls between the two braces of '}}' in an f-string literal part"""
    return (rec["key"] == "open-not-premature" and rec["input"].get("why") == "rbrace" and rec["observed"].startswith("Lex")
            and "single '}' is not allowed" in rec["observed"] and rec["input"]["prefix"].endswith("}"))


class QuietREPL:
    def __init__(self):
        from hy.repl import REPL

        class R(REPL):
            def runcode(self, code):   # never execute generated programs
                pass
        self.r = R()

    def wants_more(self, src):
        buf = io.StringIO()
        with contextlib.redirect_stderr(buf), contextlib.redirect_stdout(buf):
            try:
                return bool(self.r.runsource(src))
            except BaseException as e:  # noqa
                return "EXC " + type(e).__name__


def run(chk):
    chk.trusted = TRUSTED
    chk.matchers["c19_dotted_prefix"] = matcher_dotted
    chk.matchers["c19_fstring_rbrace"] = matcher_rbrace
    chk.assumptions = [
        "'inside an unclosed construct' = at the cut an opening delimiter, string quote, bracket-string or f-string opener, "
        "replacement-field brace or sugar/discard prefix still awaits its end; a cut strictly inside an identifier-like token "
        "that no delimiter encloses is 'in the middle of a top-level atom' and only required not to raise a foreign exception",
        "'cutting between top-level forms reads without error' also requires the forms read to be the forms completed so far",
        "REPL.runsource is observed with runcode stubbed out (generated programs are not executed)",
    ]
    chk.prove("Props/C19.v", ["Props/C19.vo", "Reader/Extract.vo"], [reader_tables.translate, reader_repl.translate])
    thorough = chk.tier == "thorough"
    oracles = rc.Oracles()
    try:
        binary = rc.build_driver()
    except Exception as e:
        chk.obligation("extracted reader model builds", False, str(e))
        binary = None
    impl = rc.Impl()
    model = rc.Model(binary, oracles) if binary else None
    repl = QuietREPL()
    rng = chk.rng
    gen = rc.Gen(rng, depth=3)
    chk.rule = ("every prefix (cut point) of every generated well-formed program (all form kinds incl. f-strings with nested "
                "specs, random separators with comments and discards); each cut is labelled from the printing: between "
                "top-level forms / inside an unclosed construct / inside a bare atom; non-trivial = distinct prefix that is "
                "neither empty nor the whole text")

    def how(t):
        return "PYTHONPATH=%s python -c 'import hy; list(hy.read_many(%r))'" % (vlib.REPO, t)

    # corpus first: reproducers of repaired defects (known_findings.json: fixed entries)
    cdir = os.path.join(vlib.VERIF, "corpus", "C19")
    for fn in sorted(os.listdir(cdir)) if os.path.isdir(cdir) else []:
        for ent in json.load(open(os.path.join(cdir, fn), encoding="utf-8")):
            ires = impl.read_many(ent["prefix"])
            chk.count("corpus")
            chk.case(("corpus", ent["prefix"]), nontrivial=True)
            if ires[0] != ent["expect"]:
                chk.fail("corpus-regression", {"prefix": ent["prefix"], "text": ent.get("full"), "corpus": fn},
                         ires[0] + (": " + ires[1] if len(ires) > 1 and isinstance(ires[1], str) else ""), ent["expect"],
                         how(ent["prefix"]))
            if ent.get("full") and impl.read_many(ent["full"])[0] != "Ok":
                chk.fail("corpus-regression", {"prefix": ent["full"], "corpus": fn}, "does not read", "Ok", how(ent["full"]))
            if model is not None and ires[0] in ("Ok", "Lex", "Premature"):
                d = rc.compare(ent["prefix"], model.read_many(ent["prefix"]), ires, oracles)
                if d:
                    chk.disagree("Reader.Model.read_many vs hy.read_many", ent["prefix"], d, ires[0])

    from hy.reader.hy_reader import HyReader
    shared = HyReader()
    shared_prev = None
    # every one- and two-character source over the syntax-significant characters, read as a file
    short = "7a(\")'`~#!;:. \n\t[]{}_*^@\\f\"r"
    for t in [a for a in short] + [a + b for a in short for b in short]:
        if t.startswith("#!"):
            continue
        ires = impl.read_many(t)
        fres = impl.read_many(t, skip_shebang=True)
        chk.count("short-source")
        chk.case(("short", t), nontrivial=True)
        if ires[0] in ("Other", "Timeout") or fres[0] in ("Other", "Timeout"):
            chk.fail("foreign-exception", {"prefix": t}, repr((ires[:2], fres[:2])), "a reader error or models", how(t))
        elif fres[0] != ires[0] or (ires[0] == "Ok" and [rc.value_only(rc.canon_impl(m)) for m in fres[1]] !=
                                    [rc.value_only(rc.canon_impl(m)) for m in ires[1]]):
            chk.fail("file-read-differs", {"prefix": t, "skip_shebang": True}, fres[0] + (": " + fres[1] if fres[0] in ("Lex", "Premature") else ""),
                     ires[0] + " (as without skip_shebang)", "list(hy.read_many(%r, skip_shebang=True))" % t)
    n_prog = 6000 if thorough else 360
    n_repl = 600 if thorough else 60
    done = 0
    try:
        tries = 0
        while done < n_prog and tries < 3 * n_prog:
            tries += 1
            p = gen.program()
            text, r = rc.render(p)
            full = impl.read_many(text)
            tflat, _ = rc.render(p, "flat")
            if full[0] != "Ok" or len(text) > 400 or impl.read_many(tflat)[0] != "Ok":
                chk.count("generator-invalid-or-long")
                rc.rejected_program(chk, model, text, full, oracles)
                continue
            done += 1
            vfull = [rc.value_only(rc.canon_impl(m)) for m in full[1]]
            ntop = 0
            for k in range(len(text) + 1):
                prefix = text[:k]
                lab = r.labels[k]
                if lab[0] == "top":
                    ntop = lab[1]
                ires = impl.read_many(prefix)
                chk.count("label:" + lab[0] + (":" + lab[1] if lab[0] == "open" and lab[1] else ""))
                chk.case(prefix, nontrivial=0 < k < len(text),
                         sample={"prefix": prefix[-50:], "label": lab, "outcome": ires[0]} if (done * 131 + k) % 3001 == 5 else None)
                obs = ires[0] + (": " + ires[1] if ires[0] in ("Lex", "Premature") else "")
                if ires[0] in ("Other", "Timeout"):
                    chk.fail("foreign-exception", {"prefix": prefix, "text": text}, repr(ires), "a reader error or models", how(prefix))
                elif lab[0] == "top":
                    if ires[0] != "Ok":
                        chk.fail("boundary-not-readable", {"prefix": prefix, "text": text}, obs, "%d forms" % lab[1], how(prefix))
                    else:
                        v = [rc.value_only(rc.canon_impl(m)) for m in ires[1]]
                        if v != vfull[:lab[1]]:
                            chk.fail("boundary-wrong-forms", {"prefix": prefix, "text": text}, v, vfull[:lab[1]], how(prefix))
                elif lab[0] == "open":
                    if ires[0] != "Premature":
                        chk.fail("open-not-premature", {"prefix": prefix, "text": text, "why": lab[1]}, obs,
                                 "PrematureEndOfInput", how(prefix))
                # files are read with skip_shebang=True (importer, hy2py, hy command): a text that does not start with the
            # shebang mark must read exactly as it does by default -- in particular a complete text is not premature
            if ires[0] in ("Ok", "Lex", "Premature") and not prefix.startswith("#!") and (k <= 3 or k == len(text) or k % 4 == done % 4):
                fres = impl.read_many(prefix, skip_shebang=True)
                samef = fres[0] == ires[0] and (fres[0] != "Ok" or
                                                [rc.value_only(rc.canon_impl(m)) for m in fres[1]] ==
                                                [rc.value_only(rc.canon_impl(m)) for m in ires[1]])
                chk.count("file-read")
                if not samef:
                    chk.fail("file-read-differs", {"prefix": prefix, "skip_shebang": True},
                             fres[0] + (": " + fres[1] if fres[0] in ("Lex", "Premature") else ""), obs + " (as without skip_shebang)",
                             "list(hy.read_many(%r, skip_shebang=True))" % prefix)
            # one reader object is reused for many sources (the REPL keeps one for the session; read_many takes
                # reader=): what a source reads as must not depend on what the same reader read -- or failed to read -- before
                if ires[0] in ("Ok", "Lex", "Premature"):
                    sres = impl.read_many(prefix, reader=shared)
                    same = sres[0] == ires[0] and (sres[0] != "Ok" or
                                                   [rc.value_only(rc.canon_impl(m)) for m in sres[1]] ==
                                                   [rc.value_only(rc.canon_impl(m)) for m in ires[1]])
                    if not same:
                        chk.fail("reader-reuse", {"prefix": prefix, "read_before_with_the_same_reader": shared_prev},
                                 sres[0] + (": " + sres[1] if sres[0] in ("Lex", "Premature") else ""),
                                 obs + " (as with a fresh reader)",
                                 "R = hy.HyReader(); list(hy.read_many(%r, reader=R)) [fails]; list(hy.read_many(%r, reader=R))"
                                 % (shared_prev, prefix))
                    shared_prev = prefix
                # model vs implementation on every prefix
                if model is not None and ires[0] in ("Ok", "Lex", "Premature"):
                    mres = model.read_many(prefix)
                    d = rc.compare(prefix, mres, ires, oracles)
                    if d:
                        chk.disagree("Reader.Model.read_many vs hy.read_many", prefix, d, ires[0])
                # the REPL asks for more input exactly when the reader reports a premature end.  The REPL compiles each
                # form before it reads the next, so this is observed where no complete form precedes the cut (a
                # compile error in an earlier form would end the input before the reader reaches the end) or the
                # reader does not report a premature end at all.
                if done <= n_repl and ires[0] in ("Ok", "Lex", "Premature") and (k % 3 == done % 3) \
                        and (ntop == 0 or ires[0] != "Premature"):
                    more = repl.wants_more(prefix)
                    chk.count("repl:" + str(more))
                    if more != (ires[0] == "Premature"):
                        chk.fail("repl-continuation", {"prefix": prefix}, "runsource returned %r, reader: %s" % (more, ires[0]),
                                 "more input wanted iff PrematureEndOfInput", "hy.REPL().runsource(%r)" % prefix)
        # user-defined reader macros that take their argument with Reader.getn / chars / peeking / parse_one_form:
        # a cut inside such a call is inside an unclosed construct (oracle only: user macros are outside the model)
        mgen = rc.Gen(rng, fstrings=False, depth=3, rmacros=True, rtags="RT|K")  # #E/#D read identifiers: a cut inside is a cut inside an atom
        mdone = 0
        mtries = 0
        n_mac = 2500 if thorough else 150
        while mdone < n_mac and mtries < 3 * n_mac:
            mtries += 1
            p = mgen.program()
            text, r = rc.render(p)
            if not any(("#" + t) in text for t in "RT|KPED"):
                continue
            full = impl.read_many(text, reader=rc.macro_reader())
            tflat, _ = rc.render(p, "flat")
            if full[0] != "Ok" or len(text) > 300 or impl.read_many(tflat, reader=rc.macro_reader())[0] != "Ok":
                chk.count("macro:generator-invalid-or-long")
                continue
            mdone += 1
            vfull = [rc.value_only(rc.canon_impl(m)) for m in full[1]]
            for k in range(len(text) + 1):
                prefix = text[:k]
                lab = r.labels[k]
                ires = impl.read_many(prefix, reader=rc.macro_reader())
                chk.count("macro-label:" + lab[0])
                chk.case(("macro", prefix), nontrivial=0 < k < len(text))
                obs = ires[0] + (": " + ires[1] if ires[0] in ("Lex", "Premature") else "")
                mhow = "R = props.reader_common.macro_reader(); list(hy.read_many(%r, reader=R))" % prefix
                if ires[0] in ("Other", "Timeout"):
                    chk.fail("foreign-exception", {"prefix": prefix, "text": text, "reader": "macro_reader"}, repr(ires),
                             "a reader error or models", mhow)
                elif lab[0] == "top":
                    v = [rc.value_only(rc.canon_impl(m)) for m in ires[1]] if ires[0] == "Ok" else obs
                    if v != vfull[:lab[1]]:
                        chk.fail("boundary-wrong-forms", {"prefix": prefix, "text": text, "reader": "macro_reader"}, v,
                                 vfull[:lab[1]], mhow)
                elif lab[0] == "open" and ires[0] != "Premature":
                    chk.fail("open-not-premature", {"prefix": prefix, "text": text, "why": lab[1], "reader": "macro_reader"}, obs,
                             "PrematureEndOfInput", mhow)
        chk.extra["macro_programs"] = mdone
    except rc.TooManyTimeouts:
        chk.notes.append("stopped generating after %d reads that did not terminate" % rc.MAX_TIMEOUTS)
    if model:
        model.close()
    chk.extra["programs"] = done


def setup():
    rc.build_driver()
