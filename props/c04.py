"""C04 -- comprehension forms produce the reference nested-loop result."""
import json
import time

from lib import vlib
from props import comp_model as cm
from props import comp_progs as cp
from props import scope_common as sc

META = {
    "technique": "Coq: reference nested-loop semantics of clause lists vs the semantics of the native comprehension and of the "
                 "generator-function nest that compile_comprehension emits, proved equal by induction over the clause list "
                 "(abstract expressions, stores, iterables: holds for every expression semantics); model-vs-implementation "
                 "comparison of the chosen strategy and of the emitted loop structure; generated clause lists x scopes "
                 "executed and judged against a reference nested-loop interpreter; native/generator-function twins",
    "level_text": "C04_genfn_eq_ref, C04_native_eq_ref, C04_strategies_agree (every clause list of any length incl. break/"
                  "continue, every final form, every expression semantics), C04_for_else_iff_no_break, "
                  "C04_native_undefined_iff_leading_if (+ refutation of totality: the leading-:if IndexError), "
                  "C04_leak_iterator_partial / C04_leak_finalize_partial (ScopeGen side of the leak rule). Oracle: clause lists of length 0..5 over for/:if/:setv/:do (with break/continue), with "
                  "and without statement-producing subforms, finals incl. #* and #**, lfor/sfor/dfor/gfor/for, in module, "
                  "function and class scope; results, effect order, exception kind, leaked names, gfor laziness, for/else.",
    "level_note": "Python's own semantics of comprehensions / generator functions / nonlocal is the trusted executor; the Coq "
                  "semantics of the two emitted shapes is hand-written (validated by the execution oracle).",
}

TRUSTED = [
    "Coq 8.16.1 kernel (coqc, full .vo)",
    "axioms: none",
    "Scope/Comprehension*.v: hand-written semantics of Python comprehensions and of for/if/assign/yield nests over an "
    "abstract expression semantics (Section variables: ev, elems, truthy, assign); the translation functions to_gens / "
    "gen_body are tied to compile_comprehension by comparing strategy and emitted structure on every generated program",
    "the reference interpreter props/comp_progs.py (docs/api.rst: lfor, for), the generator and harness; CPython as executor",
    sc.DEVIATION_TRUST,
]

M_LEADING_IF = "c04_leading_if_native_indexerror"
M_SETX_SETV = "c04_setx_in_setv_value_native"
M_FIRST_ITER = "c04_first_iterable_inside_generator_function"
M_DO_SETV = "c04_do_setv_of_a_variable_of_the_form_leaks"
M_NESTED_SETX = "c04_setx_in_nested_form_does_not_leak"


def leak_only(a, b):
    """the two logs differ only in the namespace snapshots"""
    if a is None or b is None:
        return False

    def strip(l):
        return [e for e in l if e[0] not in ("names", "step")]
    return strip(a) == strip(b) and a != b


def leak_only_vs_reference(prog, log):
    """the run differs from the reference (either placement of a lazy gfor's first iterable) in the
    namespace snapshots only"""
    for eager in (False, True):
        ref = cp.reference(prog, eager)
        if ref[0] == "ok" and leak_only(log, ref[1]["log"]):
            return True
    return False


def genfn_declares(py_src, names):
    """the names among `names` that a compiler-made generator function (_hy_anon_*) declares global/nonlocal"""
    import ast
    out = set()
    try:
        tree = ast.parse(py_src)
    except SyntaxError:
        # (the recorded source may be cut off) the declaration is the first statement of the generator function
        import re
        for m in re.finditer(r"def _hy_anon_\d+\(\):\n\s+(?:global|nonlocal) ([^\n]+)", py_src):
            out.update(n.strip() for n in m.group(1).split(",") if n.strip() in names)
        return out
    for fn in ast.walk(tree):
        if isinstance(fn, ast.FunctionDef) and fn.name.startswith("_hy_anon"):
            for st in fn.body:
                if isinstance(st, (ast.Nonlocal, ast.Global)):
                    out.update(n for n in st.names if n in names)
    return out


def m_do_setv(rec, params):
    f = rec.get("input", {}).get("features", {})
    o = rec.get("observed", {})
    if not (rec.get("key") == "log-differs" and f.get("do_setv_own") and f.get("genfn") and f.get("kind") != "for"
            and f.get("scope") != "class"):
        return False
    if o.get("leak_only") is True:
        return True
    # second symptom of the same leak: the reference stops at a read of the form's variable before its first
    # assignment (the variable is the form's own, so it is unbound there), while the generator function declares
    # that very variable global/nonlocal because of the :do (setv v ..) and therefore reads the enclosing one
    # and runs on.  Required: the reference ends "unbound", the run raised nothing at compile time, agrees with
    # the reference on everything logged before that read, and the emitted generator function declares a
    # :do-setv target global/nonlocal.
    exp = rec.get("expected") or {}
    log = o.get("log")
    return (isinstance(exp, dict) and exp.get("exc") == "unbound" and o.get("compile_err") is None
            and isinstance(log, list) and log[:len(exp.get("log") or [])] == (exp.get("log") or [])
            and str(o.get("exception") or "").split(":")[0] not in ("NameError", "UnboundLocalError")
            and bool(genfn_declares(o.get("python") or "", set(f.get("do_setv_targets") or []))))


def m_nested_setx(rec, params):
    f = rec.get("input", {}).get("features", {})
    o = rec.get("observed", {})
    if not f.get("nested_setx"):
        return False
    if not ((rec.get("key") in ("log-differs", "exception-differs") and f.get("genfn")) or rec.get("key") == "strategies-disagree"):
        return False
    if o.get("leak_only") is True:
        return True
    # the walrus target became a local of the generator function: reading the enclosing variable of that
    # name inside the form now fails
    exc = str(o.get("exception") or "")
    return exc.startswith("UnboundLocalError") and any("'%s'" % t in exc for t in f.get("nested_setx_targets", []))


def m_leading_if(rec, params):
    f = rec.get("input", {}).get("features", {})
    return (rec.get("key") == "compile-error" and "IndexError" in str(rec.get("observed", {}).get("compile_err"))
            and f.get("leading_if") and not f.get("genfn"))


def m_setx_setv(rec, params):
    f = rec.get("input", {}).get("features", {})
    return (rec.get("key") == "compile-error"
            and "assignment expression cannot be used in a comprehension iterable" in str(rec.get("observed", {}).get("compile_err"))
            and f.get("setx_in_setv_value") and not f.get("genfn"))


def m_first_iter(rec, params):
    f = rec.get("input", {}).get("features", {})
    o = rec.get("observed", {})
    return (rec.get("key") in ("log-differs", "exception-differs", "strategies-disagree")
            and (f.get("genfn") or rec.get("key") == "strategies-disagree")
            and f.get("first_iterable_reads_own_name")
            and str(o.get("exception", "")).split(":")[0] in ("UnboundLocalError", "NameError"))


def classify(prog, ref, r):
    """None | (key, detail)"""
    exp = ref[1]
    if "compile_err" in r:
        return ("compile-error", r["compile_err"])
    exc = r.get("exc")
    ek = None if exc is None else ("unbound" if exc.split(":")[0] in ("NameError", "UnboundLocalError") else exc)
    if r["log"] != exp["log"] or ek != exp["exc"]:
        alt = cp.reference(prog, True)
        if alt[0] == "ok" and alt[1]["log"] == r["log"] and ek == alt[1]["exc"]:
            return ("ok-eager-first-iterable", None)
        if r["log"] != exp["log"]:
            return ("log-differs", None)
        return ("exception-differs", "%r vs expected %r" % (exc, exp["exc"]))
    return None


def twin(prog):
    """the same form with a trailing `:do 0` clause: forces the generator-function strategy"""
    scope, init, form, lazy = prog
    if form[0] != "comp" or not form[2]:
        return None
    return (scope, init, ("comp", form[1], list(form[2]) + [("do", ("n", 0))], form[3]), lazy)


def run(chk):
    chk.trusted = TRUSTED
    chk.assumptions = [
        "a form without clauses yields nothing and (for [] ...) does nothing: tests/native_tests/comprehensions.hy "
        "test-fors-no-loopers fixes this reading of 'any number of clauses'",
        "the first iterable of lfor/sfor/dfor/gfor belongs to the enclosing scope, as in a Python comprehension; gfor may "
        "evaluate it on creation (a Python generator expression does) -- both placements of its effects are accepted and counted",
        "no claim (filtered, counted): setx inside a comprehension form in a class body and setx inside an iterable "
        "(CPython forbids both), setx to a variable of the form itself, a first clause that is not an iteration clause and "
        "reads a name that is also a variable of the form, `for` without an iteration clause, for/else with an :if in "
        "front of the outermost iteration clause",
        "inside a class body a comprehension form sees module-level names only (as a Python comprehension does)",
    ]
    chk.matchers[M_LEADING_IF] = m_leading_if
    chk.matchers[M_SETX_SETV] = m_setx_setv
    chk.matchers[M_FIRST_ITER] = m_first_iter
    chk.matchers[M_DO_SETV] = m_do_setv
    chk.matchers[M_NESTED_SETX] = m_nested_setx
    t0 = time.time()
    chk.prove("Props/C04.v", ["Props/C04.vo"], [])
    sc.coqchk(chk, "HyV.Props.C04")
    phases = chk.extra.setdefault("phase_seconds", {})
    phases["proof"] = round(time.time() - t0, 1)
    thorough = chk.tier == "thorough"
    g = cp.Gen(chk.rng)
    progs = []
    # every sequence of clause kinds up to length 3 (4 in thorough) x with/without statement-producing subforms
    import itertools
    kinds4 = ["for", "if", "setv", "do"]
    for n in range(0, 6 if thorough else 4):
        for ks in itertools.product(kinds4, repeat=n):
            for stm in (False, True):
                progs.append(("enum", g.program(kinds=list(ks), stm=stm)))
    for i in range(60000 if thorough else 900):
        progs.append(("gen", g.program()))
    chk.rule = ("programs = every sequence of clause kinds {for,:if,:setv,:do} of length 0..3 (thorough: 0..5), each with and "
                "without statement-producing subforms (random kind/scope/expressions), + seeded random programs: clause lists "
                "of length 0..5 incl. :do (when c (break/continue)), finals incl. #* and #**, lfor/sfor/dfor/gfor/for with "
                "else and break, in module / function / class scope, variables of the form clashing with outer variables, "
                "setx leaks; gfor consumed element by element with effect markers. Each executed and compared (effect log "
                "incl. result, leaked names, exception kind) with the reference nested-loop interpreter; native-eligible "
                "forms also run as a forced generator-function twin. non-trivial = distinct program with >= 1 clause")
    refs = [cp.reference(p) for _, p in progs]
    srcs = [cp.render_program(p) for _, p in progs]
    claim = [i for i, r in enumerate(refs) if r[0] == "ok"]
    twins = {}
    extra_src = []
    for i in claim:
        p = progs[i][1]
        f = cp.features(p)
        if p[2][0] == "comp" and not f.get("genfn") and p[2][2]:
            tw = twin(p)
            if cp.reference(tw)[0] == "ok":
                twins[i] = len(claim) + len(extra_src)
                extra_src.append(cp.render_program(tw))
    t1 = time.time()
    res = sc.run_programs([srcs[i] for i in claim] + extra_src, names=cp.WATCH)
    phases["execution"] = round(time.time() - t1, 1)
    seen = set()
    for pos, i in enumerate(claim):
        lab, p = progs[i]
        f = cp.features(p)
        f["setx_in_setv_value"] = p[2][0] == "comp" and any(cp.has(c[2], "setx") for c in p[2][2] if c[0] == "setv")
        own = {n for c in (p[2][2] if p[2][0] == "comp" else p[2][1]) if c[0] in ("for", "setv")
               for n in cp.target_names(c[1])}
        cl = p[2][2] if p[2][0] == "comp" else p[2][1]
        f["first_iterable_reads_own_name"] = bool(cl) and cl[0][0] == "for" and cp.reads(cl[0][2], own)
        r = res[pos]
        chk.count("scope:" + f["scope"])
        chk.count("kind:" + f["kind"])
        chk.count("clauses:%d" % f["nclauses"])
        if p[2][0] == "comp":
            chk.count("strategy:" + ("generator-function" if f["genfn"] else "native"))
            chk.count("final:" + p[2][3][0])
        nontrivial = f["nclauses"] >= 1 and srcs[i] not in seen
        seen.add(srcs[i])
        chk.case(srcs[i], nontrivial=nontrivial,
                 sample={"program": srcs[i], "expected_log": refs[i][1]["log"][-3:]} if i % 397 == 3 else None)
        c = classify(p, refs[i], r)
        inp = {"label": lab, "program": srcs[i], "features": f}
        if c is not None and c[0] != "ok-eager-first-iterable" and sc.tolerate_interpreter_deviation(
                chk, r, cp.WATCH, lambda res, p=p, i=i: classify(p, refs[i], res) in (None,) or
                (classify(p, refs[i], res) or ("",))[0] == "ok-eager-first-iterable", srcs[i]):
            c = None
        if c is not None and c[0] == "ok-eager-first-iterable":
            chk.count("gfor:first-iterable-evaluated-on-creation")
            c = None
        if c is not None:
            obs = {"compile_err": r.get("compile_err"), "exception": r.get("exc"), "log": r.get("log"),
                   "python": (r.get("py") or "")[:2500], "detail": c[1],
                   "leak_only": leak_only_vs_reference(p, r.get("log"))}
            chk.fail(c[0], inp, obs, refs[i][1], "run the program with (defn lg [k v] (print k v) v) prepended")
        elif i in twins:
            rt = res[twins[i]]
            chk.count("twin:compared")
            same = ("compile_err" not in rt and rt.get("log") == r.get("log") and
                    (rt.get("exc") or "").split(":")[0] == (r.get("exc") or "").split(":")[0])
            if not same and "compile_err" not in rt:
                # a lazy gfor may place the effects of its first iterable before or after creation
                tw = twin(p)
                rtw = cp.reference(tw)
                ct = classify(tw, rtw, rt)
                same = ct is None or ct[0] == "ok-eager-first-iterable"
                if not same:
                    def conf(res, tw=tw, rtw=rtw):
                        cc = classify(tw, rtw, res)
                        return cc is None or cc[0] == "ok-eager-first-iterable"
                    same = sc.tolerate_interpreter_deviation(chk, rt, cp.WATCH, conf, cp.render_program(tw))
            if not same:
                obs = {"native_log": r.get("log"), "generator_function_log": rt.get("log"),
                       "leak_only": leak_only_vs_reference(twin(p), rt.get("log")),
                       "exception": rt.get("exc") or rt.get("compile_err"), "python": (rt.get("py") or "")[:2500]}
                chk.fail("strategies-disagree", inp, obs, "the same log from both compilation strategies",
                         "add `:do 0` as last clause to force the generator-function strategy")
    for r in refs:
        if r[0] == "no-claim":
            chk.count("filtered:" + r[1][:60])
    t2 = time.time()
    cm.structure_correspondence(chk, [p for _, p in progs][: (9000 if thorough else 700)])
    phases["structure correspondence"] = round(time.time() - t2, 1)
    chk.extra["programs"] = len(progs)


def replay(path):
    rec = json.load(open(path))
    src = rec["input"]["program"]
    r = sc.run_programs([src], names=cp.WATCH)[0]
    print(json.dumps({k: r.get(k) for k in ("compile_err", "exc", "log")}, indent=1)[:3000])
    exp = rec.get("expected")
    bad = "compile_err" in r or (isinstance(exp, dict) and r.get("log") != exp.get("log"))
    print("still failing:", bad)
    return 1 if bad else 0
