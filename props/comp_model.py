"""C04, tie T3: the strategy and loop structure that the Gallina model (Scope/Comprehension.v,
Scope/CompShape.v) predicts for a clause list, against the AST hy_compile really produces."""
import ast
import types
import warnings

from lib import vlib
from props import comp_progs as cp
from props import scope_trace as tr

VAR = {"x": 1, "y": 2, "z": 3}
IMPORTS = ["HyV.Scope.Comprehension", "HyV.Scope.CompShape"]


def coq_clause(c):
    k = c[0]
    if k == "for":
        return "CFor %d 0" % (VAR.get(c[1], 99) if isinstance(c[1], str) else 98)
    if k == "setv":
        return "CSetv %d 0" % (VAR.get(c[1], 99) if isinstance(c[1], str) else 98)
    return {"if": "CIf 0", "do": "CDo 0", "dobrk": "CBreakIf 0", "docnt": "CContIf 0"}[k]


def coq_final(f):
    return {"val": "FVal 0", "star": "FStar 0", "kv": "FKV 0 0", "dstar": "FDStar 0"}[f[0]]


def model_expr(prog):
    scope, init, form, lazy = prog
    if form[0] == "comp":
        _, kind, clauses, final = form
        parts = any(cp.has(x, "stm") for c in clauses for x in cp.exprs_of_clause(c))
        fin = any(cp.has(x, "stm") for x in final[1:])
        return "predict [%s] %s %s (%s)" % ("; ".join(coq_clause(c) for c in clauses),
                                            "true" if parts else "false", "true" if fin else "false", coq_final(final))
    _, clauses, body, orelse = form
    return "(true, predict_for [%s] %s)" % ("; ".join(coq_clause(c) for c in clauses), "true" if orelse else "false")


def is_hoisted(stmt):
    """the statement a ("stm", key, e) subform leaves behind: lg("s..", 0)"""
    return (isinstance(stmt, ast.Expr) and isinstance(stmt.value, ast.Call) and isinstance(stmt.value.func, ast.Name)
            and stmt.value.func.id == "lg" and len(stmt.value.args) == 2 and isinstance(stmt.value.args[0], ast.Constant)
            and str(stmt.value.args[0].value).startswith("s") and isinstance(stmt.value.args[1], ast.Constant)
            and stmt.value.args[1].value == 0)


def tname(t):
    return VAR.get(t.id, 99) if isinstance(t, ast.Name) else 98


def flat(stmts, user_body_marker=None):
    out = []
    for s in stmts:
        if is_hoisted(s):
            continue
        if isinstance(s, ast.For):
            if isinstance(s.target, ast.Name) and s.target.id.startswith("_hy_anon") and len(s.body) == 1 and \
                    isinstance(s.body[0], ast.Expr) and isinstance(s.body[0].value, ast.Yield):
                it = s.iter
                dstar = isinstance(it, ast.Call) and isinstance(it.func, ast.Attribute) and it.func.attr == "items"
                out += [5, 3 if dstar else 1]
                continue
            out += [1, tname(s.target)] + flat(s.body) + [0]
            if s.orelse:
                out += [9] + flat(s.orelse) + [0]
        elif isinstance(s, ast.If):
            # (when c (break)): `if c: break` -- possibly followed by dead bookkeeping of the when form
            if s.body and isinstance(s.body[0], ast.Break):
                out += [6]
            elif s.body and isinstance(s.body[0], ast.Continue):
                out += [7]
            else:
                out += [2] + flat(s.body) + [0]
        elif isinstance(s, ast.Assign):
            out += [3, tname(s.targets[0])]
        elif isinstance(s, ast.Expr) and isinstance(s.value, ast.Yield):
            v = s.value.value
            out += [5, 2 if isinstance(v, ast.Tuple) else 0]
        elif isinstance(s, (ast.Expr, ast.Pass)):
            out += [4]
        elif isinstance(s, (ast.Nonlocal, ast.Global)):
            continue
        else:
            out += [97]
    return out


def impl_shape(hy, prog, idx):
    """(uses generator function?, tokens) from the real compiler; None if it raised"""
    from hy.compiler import hy_compile
    scope, init, form, lazy = prog
    src = cp.rform(form)
    mod = types.ModuleType("compshape_%d" % idx)
    try:
        with warnings.catch_warnings():
            warnings.simplefilter("ignore")
            tree = hy_compile(hy.read_many(src), mod)
    except BaseException as e:  # noqa
        return ("error", "%s: %s" % (type(e).__name__, str(getattr(e, "msg", None) or e)[:120]))
    body = [s for s in tree.body if not isinstance(s, (ast.Import, ast.ImportFrom))]
    if form[0] == "for":
        body = [s for s in body if not is_hoisted(s)]
        if len(body) == 1 and isinstance(body[0], ast.Expr) and isinstance(body[0].value, ast.Constant):
            return (True, [88])
        return (True, flat(body))
    fdefs = [s for s in body if isinstance(s, ast.FunctionDef) and s.name.startswith("_hy_anon")]
    if fdefs:
        return (True, flat(fdefs[0].body))
    comp = None
    for n in ast.walk(tree):
        if isinstance(n, (ast.ListComp, ast.SetComp, ast.DictComp, ast.GeneratorExp)):
            comp = n
            break
    if comp is None:
        return (False, [88])
    if len(comp.generators) == 1 and isinstance(comp.generators[0].iter, ast.List) and not comp.generators[0].iter.elts \
            and isinstance(comp.generators[0].target, ast.Name) and comp.generators[0].target.id == "_":
        return (False, [88])      # the canned empty generator (_ for _ in [])
    toks = []
    for g in comp.generators:
        one = isinstance(g.iter, ast.Tuple) and len(g.iter.elts) == 1
        toks += [1, tname(g.target), 1 if one else 0, len(g.ifs)]
    return (False, toks)


def structure_correspondence(chk, progs):
    hy = vlib.use_repo_in_process()
    # `for` bodies in the model are a single Expr: restrict to programs whose body is one expression statement
    todo = []
    for p in progs:
        form = p[2]
        if any(c[0] == "dosetv" for c in (form[2] if form[0] == "comp" else form[1])):
            continue      # :do (setv ..) is an Assign statement in the code, a plain :do in the model
        if any(cp.has(n[3], "stm") for n in cp.nested_forms(form)):
            continue      # a nested form compiled to a generator function leaves a def (and its leak declaration) behind
        if form[0] == "for" and not (len(form[2]) == 1 and form[2][0][0] == "expr" and not cp.has(form[2][0][1], "stm")):
            continue
        todo.append(p)
    exprs = [model_expr(p) for p in todo]
    try:
        outs = vlib.coq_eval(IMPORTS, "", exprs, tag="compshape", shard=300)
    except Exception as e:
        chk.obligation("Gallina comprehension model evaluates on the generated clause lists", False, str(e)[-1500:])
        return
    n = 0
    for i, (p, o) in enumerate(zip(todo, outs)):
        genfn_m, toks_m = tr.parse_model(o)
        r = impl_shape(hy, p, i)
        n += 1
        src = cp.rform(p[2])
        if r[0] == "error":
            if toks_m == [77] and "IndexError" in r[1]:
                chk.count("structure:model-predicts-the-IndexError")
                continue
            if "dfor" in src and "must end with" in r[1]:
                continue
            chk.disagree("Scope.Comprehension (strategy / structure) vs compile_comprehension", src,
                         {"genfn": genfn_m, "structure": toks_m}, {"error": r[1]})
            continue
        if p[2][0] == "for" and toks_m != [88] and toks_m[-1:] == [4] and False:
            pass
        if (bool(genfn_m), toks_m) != (bool(r[0]), r[1]):
            chk.disagree("Scope.Comprehension (strategy / structure) vs compile_comprehension", src,
                         {"genfn": genfn_m, "structure": toks_m}, {"genfn": r[0], "structure": r[1]})
        chk.count("structure:" + ("generator-function" if r[0] else "native"))
    chk.extra["structure_correspondence"] = {"forms": n}
    chk.obligation("structure correspondence ran on %d forms" % n, n > 0)
