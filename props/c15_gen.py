"""C15: generator of small Hy packages (macro modules + a target module that
`require`s them in every entry shape), the specification of what the target
must end up with, and the subprocess histories fresh / cached."""
import json
import os

from lib import vlib
from props import cmd_common as cc

MACRO_NAMES = ["m-a", "m_b", "add1", "_hid", "dash-name", "q?", "plus!", "_priv-x", "zed"]

DRIVER = r'''
import json, sys, types
import hy
import importlib
name = sys.argv[1]
out = {}
try:
    mod = importlib.import_module(name)
    vals = {}
    for k, v in sorted(vars(mod).items()):
        if k.startswith("__") or isinstance(v, types.ModuleType) or k in ("_hy_macros", "_hy_reader_macros", "hy"):
            continue
        if callable(v):
            vals[k] = "callable:" + getattr(v, "__name__", "?")
        else:
            vals[k] = repr(v)
    out["values"] = vals
    out["macros"] = {k: [getattr(f, "__module__", None), getattr(f, "__name__", None)]
                     for k, f in sorted(getattr(mod, "_hy_macros", {}).items())}
    # the required macros must also be usable afterwards, the same way in both histories
    uses = json.loads(sys.argv[2])
    res = {}
    for label, form in uses:
        try:
            res[label] = repr(hy.eval(hy.read(form), mod.__dict__, module=mod))
        except Exception as e:
            res[label] = "ERR " + type(e).__name__
    out["uses"] = res
except BaseException as e:
    out["error"] = [type(e).__name__, str(e)[:300]]
print("RESULT " + json.dumps(out, sort_keys=True))
'''


def mangle(s):
    hy = vlib.use_repo_in_process()
    return hy.mangle(s)


def gen_macro_module(rng, modname, base):
    """-> (source text, spec dict name->constant, exported (unmangled) names)"""
    names = rng.sample(MACRO_NAMES, rng.choice([1, 2, 3, 4, 5]))
    consts = {n: base + 10 * (i + 1) for i, n in enumerate(names)}
    lines = ['(setv %s-tag "%s")' % (modname.split(".")[-1], modname)]
    for n in names:
        lines.append("(defmacro %s [x] `(+ ~x %d))" % (n, consts[n]))
    exported = None
    if rng.random() < 0.4:
        exported = rng.sample(names, rng.choice(list(range(0, len(names) + 1))))
        lines.append("(export :macros [%s])" % " ".join(exported))
        if rng.random() < 0.3:
            rng.shuffle(lines)  # the export may come before the definitions
            lines.sort(key=lambda l: l.startswith("(export") and rng.random() < 0.5)
    src = "\n".join(lines) + "\n"
    if exported is None:
        exported = [n for n in names if not mangle(n).startswith("_")]
    return src, consts, exported


class Case:
    def __init__(self, idx):
        self.idx = idx
        self.files = {}          # relative path -> text
        self.target = "tgt%d" % idx
        self.expect_values = {}  # variable (mangled) -> int
        self.expect_macros = set()
        self.uses = []           # (label, form, expected repr) evaluated after import
        self.shapes = []
        self.compiled_modules = []  # module file basenames that must compile when fresh


DEAD = ["(when (< 1 0) %s)", "(if (< 1 0) (do %s 1) 2)", "(for [_ []] %s None)", "(try (when (< 1 0) %s) (finally None))",
        "(while (< 1 0) %s None)"]


def gen_case(rng, idx, dead_prob=0.3):
    """dead_prob: how often a module-level require is preceded by an identical copy inside a top-level branch
    that does not run (the compile-time require still happens there; the live copy must still emit its own
    run-time call)"""
    c = Case(idx)
    mods = {}
    for k in range(rng.choice([1, 2, 2, 3])):
        name = "mac%d_%d" % (idx, k)
        src, consts, exported = gen_macro_module(rng, name, 1000 * (k + 1))
        c.files[name + ".hy"] = src
        mods[name] = (consts, exported)
    use_pkg = rng.random() < 0.5
    pk = "pk%d" % idx
    c.use_pkg, c.pk = use_pkg, pk
    c.user_values, c.user_macros = {}, set()
    if use_pkg:
        # a package whose __init__ has no macros (so `(require pk [sub])` falls back to the submodule)
        c.files[pk + "/__init__.hy"] = '(setv pk-tag "pk")\n'
        src, consts, exported = gen_macro_module(rng, pk + ".sub", 7000)
        c.files[pk + "/sub.hy"] = src
        mods[pk + ".sub"] = (consts, exported)
        # a module inside the package that requires its sibling by relative names
        n = rng.choice(sorted(consts))
        c.files[pk + "/user.hy"] = ("(require .sub [%s :as rel-mac])\n(setv rel-val (rel-mac 1))\n"
                                    "(require . [sub])\n(setv dot-val (sub.%s 2))\n" % (n, n))
        c.user_values = {"rel_val": 1 + consts[n], "dot_val": 2 + consts[n]}
        c.user_macros = {mangle("rel-mac")} | {mangle("sub." + x) for x in consts}
    lines = []
    vcount = [0]

    table = {}      # mangled macro key -> function, as the requires so far leave it
    pending = []    # (label, form, key, argument): uses repeated after the import, judged by the final table

    def use(macro_sym, fn=None):
        """a top-level use of the macro (judged by the table at that point) + the same use after the import
        (judged by the final table)"""
        vcount[0] += 1
        i = vcount[0]
        var = "v%d" % i
        key = mangle(macro_sym)
        assert key in table, (macro_sym, sorted(table))
        c.expect_values[var] = table[key](i)
        pending.append(("use-" + var, "(%s %d)" % (macro_sym, 100 + i), key, 100 + i))
        return "(setv %s (%s %d))" % (var, macro_sym, i)

    def bring(keys_fns):
        for k, f in keys_fns:
            table[mangle(k)] = f
            c.expect_macros.add(mangle(k))

    def plus(k):
        return lambda x: x + k

    modnames = sorted(m for m in mods if not m.startswith("pk"))
    for _ in range(rng.choice([1, 2, 2, 3, 4, 5])):
        m = rng.choice(sorted(mods))
        consts, exported = mods[m]
        shape = rng.choice(["bare", "as", "star", "names", "names", "macros-kw", "multi", "local", "pkg-sub"])
        if shape == "pkg-sub" and not use_pkg:
            shape = "names"
        c.shapes.append(shape)
        uid = len(lines)
        if shape == "bare":
            lines.append("(require %s)" % m)
            # a prefixed require brings in EVERY macro of the module (exported or not, underscore or not)
            bring((m + "." + n, plus(consts[n])) for n in sorted(consts))
            n = rng.choice(sorted(consts))
            lines.append(use("%s.%s" % (m, n)))
        elif shape == "as":
            al = rng.choice(["A", "my-alias", "B_"]) + str(uid)
            lines.append("(require %s :as %s)" % (m, al))
            bring((mangle(al) + "." + n, plus(consts[n])) for n in sorted(consts))
            n = rng.choice(sorted(consts))
            lines.append(use("%s.%s" % (al, n)))
        elif shape == "star":
            lines.append("(require %s *)" % m)
            bring((n, plus(consts[n])) for n in exported)
            if exported:
                n = rng.choice(exported)
                lines.append(use(n))
        elif shape in ("names", "macros-kw"):
            ns = rng.sample(sorted(consts), rng.choice(list(range(1, len(consts) + 1))))
            parts, syms = [], []
            for j, n in enumerate(ns):
                if rng.random() < 0.4:
                    al = rng.choice(["al-%d-%d", "AL%d_%d", "q%d-%d?"]) % (uid, j)
                    parts.append("%s :as %s" % (n, al))
                    bring([(al, plus(consts[n]))])
                    syms.append(al)
                else:
                    parts.append(n)
                    bring([(n, plus(consts[n]))])
                    syms.append(n)
            lines.append("(require %s %s[%s])" % (m, ":macros " if shape == "macros-kw" else "", " ".join(parts)))
            lines += [use(x) for x in syms]
        elif shape == "multi":
            m2 = rng.choice(sorted(mods))
            consts2, exported2 = mods[m2]
            n1 = rng.choice(sorted(consts))
            al = "Z%d" % uid
            lines.append("(require %s [%s] %s :as %s)" % (m, n1, m2, al))
            bring([(n1, plus(consts[n1]))])
            bring((al + "." + n, plus(consts2[n])) for n in sorted(consts2))
            lines.append(use(n1))
            n = rng.choice(sorted(consts2))
            lines.append(use("%s.%s" % (al, n)))
        elif shape == "local":
            n = rng.choice(sorted(consts))
            vcount[0] += 1
            i = vcount[0]
            lines.append("(defn f%d [] (require %s [%s :as loc%d]) (loc%d %d))" % (i, m, n, i, i, i))
            lines.append("(setv v%d (f%d))" % (i, i))
            c.expect_values["v%d" % i] = i + consts[n]
            c.expect_values["f%d" % i] = "callable:f%d" % i
        elif shape == "pkg-sub":
            consts, exported = mods[pk + ".sub"]
            lines.append("(require %s [sub])" % pk)
            # the fallback requires ALL macros of the submodule under the prefix "sub"
            bring(("sub." + n, plus(consts[n])) for n in consts)
            n = rng.choice(sorted(consts))
            lines.append(use("sub.%s" % n))
    j = 0
    while j < len(lines):
        if lines[j].startswith("(require") and rng.random() < dead_prob:
            lines.insert(j, rng.choice(DEAD) % lines[j])
            c.shapes.append("dead-branch-copy")
            j += 1
        j += 1
    if rng.random() < 0.5:
        lines.append("(defmacro own-mac [x] `(* ~x 3))")
        bring([("own-mac", lambda x: x * 3)])
        lines.append(use("own-mac"))
    if use_pkg and rng.random() < 0.6:
        lines.append("(import %s.user [rel-val dot-val])" % pk)
        c.expect_values.update(c.user_values)
        c.imports_user = True
    else:
        c.imports_user = False
    c.uses = [(label, form, repr(table[key](arg))) for label, form, key, arg in pending]
    c.files[c.target + ".hy"] = "\n".join(lines) + "\n"
    return c


def write_case(c, root):
    d = os.path.join(root, "case%d" % c.idx)
    for rel, text in c.files.items():
        p = os.path.join(d, rel)
        os.makedirs(os.path.dirname(p), exist_ok=True)
        with open(p, "w", encoding="utf-8") as f:
            f.write(text)
    return d


def pycs(cache, d, pred):
    """cached bytecode files of the case's own modules for which pred(module file stem) holds"""
    out = []
    base = os.path.join(cache, os.path.realpath(d).lstrip("/"))
    for dp, _, fs in os.walk(base):
        for f in fs:
            if f.endswith(".pyc") and pred(f.split(".")[0], dp):
                out.append(os.path.join(dp, f))
    return out


HISTORY = ["fresh", "cached", "target-recompiled", "sources-recompiled", "cached-again"]


def run_history(c, root, hy_cache):
    """import the target in a fresh interpreter after each step of the history; returns list of
    (step, result dict, set of own files reported as compiled)"""
    d = write_case(c, root)
    cache = hy_cache                         # one warmed prefix per run; a case's own files sit under its directory path
    env = cc.sub_env(write_bytecode=True, pycache_prefix=cache, extra={"HY_MESSAGE_WHEN_COMPILING": "1"})
    uses = json.dumps([[l, f] for l, f, _ in c.uses])
    out = []
    for step in HISTORY:
        if step == "target-recompiled":
            for p in pycs(cache, d, lambda stem, dp: stem == c.target):
                os.remove(p)
        elif step == "sources-recompiled":
            for p in pycs(cache, d, lambda stem, dp: stem != c.target):
                os.remove(p)
        r = cc.run_cmd([vlib.PY, "-c", DRIVER, c.target, uses], cwd=d, env=env)
        res = None
        for l in r["out"].splitlines():
            if l.startswith("RESULT "):
                res = json.loads(l[len("RESULT "):])
        compiled = set()
        rd = os.path.realpath(d)
        for l in r["err"].splitlines():
            if l.startswith("Compiling ") and l[len("Compiling "):].startswith(rd):
                compiled.add(os.path.relpath(l[len("Compiling "):], rd))
        out.append((step, res if res is not None else {"error": ["no-result", r["err"][-400:]]}, compiled, r["rc"]))
    return d, out
