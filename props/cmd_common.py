"""Shared by C41 / C15 / C16: private temp dirs, a subprocess pool, the
in-process observer of hy.cmdline.cmdline_handler, decoding of the Coq
model's flat rendering."""
import concurrent.futures
import glob
import json
import os
import shutil
import subprocess
import tempfile

from lib import vlib

TMP_ROOT = "/var/tmp"
POOL = 16


def mktmp(tag):
    return tempfile.mkdtemp(prefix="hyverif.%s." % tag, dir=TMP_ROOT)


def rmtmp(path):
    if path and os.path.basename(path).startswith("hyverif."):
        shutil.rmtree(path, ignore_errors=True)


def sweep_stale(tag):
    """remove leftovers of killed earlier runs of the same check (older than 30 min)"""
    import time
    for p in glob.glob(os.path.join(TMP_ROOT, "hyverif.%s.*" % tag)):
        try:
            if time.time() - os.path.getmtime(p) > 1800:
                shutil.rmtree(p, ignore_errors=True)
        except OSError:
            pass


def sub_env(extra=None, write_bytecode=False, pycache_prefix=None):
    """environment of a subprocess that runs the implementation"""
    env = {k: v for k, v in os.environ.items()
           if not k.startswith("PYTHON") and not k.startswith("HY") and k != "HYSTARTUP"}
    env["PYTHONPATH"] = vlib.REPO
    env["PYTHONHASHSEED"] = "0"
    env["PYTHONIOENCODING"] = "utf-8"
    env["PYTHONUTF8"] = "1"
    if pycache_prefix:
        env["PYTHONPYCACHEPREFIX"] = pycache_prefix
    if not write_bytecode:
        env["PYTHONDONTWRITEBYTECODE"] = "1"
    if extra:
        env.update(extra)
    return env


def warm_cache(root):
    """compile hy's own modules once into a private pycache prefix under `root`
    (the ambient environment forbids writing bytecode, so without this every
    subprocess would recompile hy's core); returns the prefix"""
    prefix = os.path.join(root, "pyc")
    os.makedirs(prefix, exist_ok=True)
    env = sub_env(write_bytecode=True, pycache_prefix=prefix)
    subprocess.run([vlib.PY, "-c", "import hy, hy.cmdline, hy.repl, hy.core.result_macros, hy.pyops, hy.core.hy_repr"],
                   env=env, cwd=root, capture_output=True, timeout=300)
    return prefix


def run_cmd(argv, cwd, stdin="", env=None, timeout=120):
    """one subprocess; returns dict(rc, out, err)"""
    try:
        p = subprocess.run(argv, input=stdin, capture_output=True, text=True, timeout=timeout,
                           cwd=cwd, env=env if env is not None else sub_env(), encoding="utf-8",
                           errors="backslashreplace")
        return {"rc": p.returncode, "out": p.stdout, "err": p.stderr}
    except subprocess.TimeoutExpired:
        return {"rc": "timeout", "out": "", "err": "timeout"}


def run_many(jobs, workers=POOL):
    """jobs: list of kwargs for run_cmd; results in order"""
    with concurrent.futures.ThreadPoolExecutor(max_workers=workers) as ex:
        return list(ex.map(lambda kw: run_cmd(**kw), jobs))


def map_pool(fn, items, workers=POOL):
    with concurrent.futures.ThreadPoolExecutor(max_workers=workers) as ex:
        return list(ex.map(fn, items))


def last_line(err):
    lines = [l for l in err.strip().splitlines() if l.strip()]
    return lines[-1] if lines else ""


def err_class(err):
    """the exception class named on the last line of a traceback ('' if none)"""
    l = last_line(err)
    head = l.split(":", 1)[0].strip()
    if head and all(c.isalnum() or c in "._" for c in head):
        return head.split(".")[-1]
    return "?" if l else ""


# ------------------------------------------------------------------ C41: handler observer

# Runs in a fresh interpreter.  Calls the real hy.cmdline.cmdline_handler with
# the callees that hand control to the program replaced by recorders, so what
# it observes is: which callee is reached with which arguments, what sys.argv
# is at that moment, and which process-level switches the options flipped.
HANDLER_WORKER = r'''
import io, json, sys, types
import hy, hy.cmdline as C

cases = json.load(sys.stdin)
real_stdin, real_stdout, real_stderr = sys.stdin, sys.stdout, sys.stderr
results = []

class Out(io.StringIO):
    def fileno(self):
        return 1

for case in cases:
    argv, isatty = case["argv"], case["isatty"]
    rec = {"E": False, "u": [], "calls": []}

    class FakeStdin:
        def isatty(self):
            return isatty
        def read(self):
            rec["stdin_read"] = True
            return "STDIN-SOURCE"

    class FakeREPL:
        def __init__(self, *a, **kw):
            rec["repl"] = {"args": list(a), "spy": kw.get("spy"), "output_fn": kw.get("output_fn"),
                           "other": sorted(set(kw) - {"spy", "output_fn"})}
            self.compile = types.SimpleNamespace(compiler=types.SimpleNamespace(skip_next_shebang=False))
        def runsource(self, source, filename=None):
            rec["calls"].append(["runsource", source, filename, list(sys.argv)])
            return False
        def run(self):
            rec["calls"].append(["repl.run", list(sys.argv)])
            return 0

    class FakePath:
        def __init__(self, p):
            self.p = str(p)
        def is_absolute(self):
            return True
        def read_text(self, *a, **k):
            return "FILE-SOURCE:" + self.p
        def __str__(self):
            return self.p
        def __fspath__(self):
            return self.p

    def run_command(source, filename=None):
        rec["calls"].append(["run_command", source, filename, list(sys.argv)])
        return 0

    def run_module(name, **kw):
        rec["calls"].append(["run_module", name, sorted(kw.items()), list(sys.argv)])

    def run_path(path, **kw):
        rec["calls"].append(["run_path", path, sorted(kw.items()), list(sys.argv)])

    def rm_envs():
        rec["E"] = True

    def fake_open(fd, *a, **k):
        return ("raw", fd)

    def wrapper(raw, *a, **k):
        rec["u"].append(raw[1])
        return out

    saved = dict(C.__dict__)
    sys_saved = (sys.argv, sys.executable, sys.dont_write_bytecode, list(sys.path))
    out = Out()
    C.run_command = run_command
    C.runpy = types.SimpleNamespace(run_module=run_module)
    C.runhy = types.SimpleNamespace(run_path=run_path)
    C.REPL = FakeREPL
    C.Path = FakePath
    C.set_path = lambda f: rec.setdefault("set_path", []).append(str(f))
    C._remove_python_envs = rm_envs
    C.open = fake_open
    C.io = types.SimpleNamespace(TextIOWrapper=wrapper)
    C.hy = types.SimpleNamespace(mangle=lambda s: "MANGLED:" + s)
    sys.dont_write_bytecode = False
    sys.argv = list(argv)
    sys.stdin = FakeStdin()
    sys.stdout = sys.stderr = out
    try:
        try:
            rec["ret"] = C.cmdline_handler(sys.argv)
        except C.HyArgError as e:
            rec["argerror"] = str(e)
        except SystemExit as e:
            rec["exit"] = repr(e.code)
        except BaseException as e:
            rec["exc"] = [type(e).__name__, str(e)]
        rec["B"] = bool(sys.dont_write_bytecode)
        rec["argv_after"] = list(sys.argv)
        rec["executable"] = sys.executable
    finally:
        sys.stdin, sys.stdout, sys.stderr = real_stdin, real_stdout, real_stderr
        sys.argv, sys.executable, sys.dont_write_bytecode, sys.path[:] = sys_saved
        for k in list(C.__dict__):
            if k not in saved:
                del C.__dict__[k]
        C.__dict__.update(saved)
    rec["printed"] = out.getvalue()
    results.append(rec)

json.dump(results, sys.stdout)
'''


def observe_handler(cases):
    """cases: list of dict(argv=[program, ...], isatty=bool) -> list of records"""
    res = []
    chunks = [cases[i::POOL] for i in range(POOL)]
    chunks = [c for c in chunks if c]

    def one(chunk):
        p = subprocess.run([vlib.PY, "-c", HANDLER_WORKER], input=json.dumps(chunk), capture_output=True,
                           text=True, timeout=600, env=vlib.impl_env(), cwd=vlib.VERIF)
        if p.returncode != 0:
            raise RuntimeError("handler worker failed: " + p.stderr[-2000:])
        return json.loads(p.stdout)
    outs = map_pool(one, chunks)
    # undo the striping
    res = [None] * len(cases)
    for k, o in enumerate(outs):
        for j, r in enumerate(o):
            res[k + j * len(chunks)] = r
    return res


def canon_impl(rec, argv):
    """an observed record as the tuple the model's rendering decodes to;
    anything the model has no word for comes back as ('unmodelled', ...)"""
    if rec["u"] not in ([], [1, 1]):
        return ("unmodelled", "unbuffered streams", rec["u"])
    flags = (bool(rec["E"]), bool(rec["B"]), rec["u"] == [1, 1])
    if "argerror" in rec:
        return ("argerror", rec["argerror"])
    if "exc" in rec:
        if rec["exc"][0] == "ValueError" and rec["exc"][1] == "" and not rec["calls"]:
            return ("module+repl", flags)
        if rec["exc"][0] == "ValueError" and "unpack" in rec["exc"][1]:
            return ("unpack",)
        return ("unmodelled", rec["exc"])
    if "exit" in rec:
        return ("unmodelled", "exit", rec["exit"])
    if rec["printed"].startswith("usage:") and rec["ret"] == 0 and not rec["calls"]:
        return ("help", flags)
    if rec["printed"].startswith("hy ") and rec["printed"].count("\n") == 1 and rec["ret"] == 0 and not rec["calls"]:
        return ("version", flags)
    repl = None
    if "repl" in rec:
        r = rec["repl"]
        if r["args"] or r["other"]:
            return ("unmodelled", "REPL args", r)
        repl = (bool(r["spy"]), r["output_fn"])
    calls = rec["calls"]
    if not calls:
        return ("unmodelled", "no callee reached", rec.get("ret"))
    first = calls[0]
    tail = calls[1:]
    want_tail = []
    if first[0] == "run_command" and first[2] == "<string>" and repl is None:
        act, seen = ("eval", first[1]), first[3]
    elif first[0] == "runsource" and first[2] == "<string>" and repl is not None:
        act, seen = ("eval", first[1]), first[3]
        want_tail = ["repl.run"]
    elif first[0] == "run_module" and first[1].startswith("MANGLED:") and \
            first[2] == [["alter_sys", True], ["run_name", "__main__"]]:
        act, seen = ("module", first[1][len("MANGLED:"):]), first[3]
    elif first[0] == "run_command" and first[2] == "<stdin>" and first[1] == "STDIN-SOURCE" and repl is None:
        act, seen = ("stdin",), first[3]
    elif first[0] == "run_path" and first[2] == [["run_name", "__main__"]] and repl is None:
        act, seen = ("file", first[1]), first[3]
    elif first[0] == "runsource" and repl is not None and first[1].startswith("FILE-SOURCE:") \
            and first[1] == "FILE-SOURCE:" + str(first[2]):
        act, seen = ("file", first[2]), first[3]
        want_tail = ["repl.run"]
    elif first[0] == "repl.run" and repl is not None:
        # -i with "-" / no file: straight into the REPL; or the plain REPL
        seen = first[1]
        act = ("repl-or-stdin",)
    else:
        return ("unmodelled", "callee", first)
    if [c[0] for c in tail] != want_tail or any(c[-1] != seen for c in tail):
        return ("unmodelled", "later calls", tail)
    if rec.get("ret") != 0:
        return ("unmodelled", "return value", rec.get("ret"))
    return ("run", flags, act, tuple(seen), repl)


# ------------------------------------------------------------------ decoding the model's rendering

def _nums(s):
    import re
    return [int(x) for x in re.findall(r"\d+", s)]


class _Dec:
    def __init__(self, nums):
        self.n, self.i = nums, 0

    def num(self):
        v = self.n[self.i]
        self.i += 1
        return v

    def text(self):
        out = []
        while True:
            v = self.num()
            if v == 0:
                return "".join(out)
            out.append(chr(v - 1))

    def flags(self):
        return (bool(self.num()), bool(self.num()), bool(self.num()))


def decode_model(s):
    d = _Dec(_nums(s))
    tag = d.num()
    if tag == 1:
        r = ("argerror", d.text())
    elif tag == 2:
        d.text()
        r = ("unpack",)
    elif tag == 3:
        r = ("help", d.flags())
    elif tag == 4:
        r = ("version", d.flags())
    elif tag == 5:
        r = ("module+repl", d.flags())
    else:
        f = d.flags()
        a = d.num()
        act = {1: lambda: ("eval", d.text()), 2: lambda: ("module", d.text()), 3: lambda: ("stdin",),
               4: lambda: ("file", d.text()), 5: lambda: ("repl",)}[a]()
        n = d.num()
        sa = tuple(d.text() for _ in range(n))
        if d.num() == 0:
            repl = None
        else:
            spy = bool(d.num())
            repl = (spy, d.text() if d.num() else None)
        r = ("run", f, act, sa, repl)
    assert d.i == len(d.n), "trailing data in model rendering"
    return r


def same_outcome(m, i):
    """model tuple vs implementation tuple; the observer cannot tell 'stdin
    with -i' from 'plain REPL' (both go straight to repl.run()), the model can"""
    if m == i:
        return True
    if m[0] == "run" and i[0] == "run" and i[2] == ("repl-or-stdin",):
        return m[2] in (("repl",), ("stdin",), ("eval", "")) and m[4] is not None and (m[1], m[3], m[4]) == (i[1], i[3], i[4])
    return False


def model_handler(cases):
    """evaluate Cmd.CmdlineModel.handler on the cases with vm_compute"""
    exprs = []
    for c in cases:
        prog, rest = c["argv"][0], c["argv"][1:]
        exprs.append("render (handler %s %s [%s])" % ("true" if c["isatty"] else "false", vlib.coq_text(prog),
                                                      "; ".join(vlib.coq_text(a) for a in rest)))
    outs = vlib.coq_eval(["HyV.Cmd.CmdlineModel"], "", exprs, tag="c41", shard=250)
    return [decode_model(o) for o in outs]
