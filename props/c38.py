"""C38 -- hy.gensym returns distinct reserved symbols under any thread schedule."""
import dis
import json
import re
import sys
import threading
import time
import unicodedata

from lib import vlib
from props import mangle_common as mc
from translator import gensym_steps, mangle_tables

META = {
    "technique": "T2: gensym's body translated from util.hy (own s-expression reader, cross-checked with dis and the "
                 "exception table) into a step program; Coq proof by inductive invariant that every program accepted by "
                 "the checker well_locked yields pairwise distinct numbers for any number of threads, calls and any "
                 "schedule with faults; per-run obligation well_locked gensym_prog = true; name properties over the C32 "
                 "mangle model; model schedules forced on the real function with a sys.settrace opcode scheduler; stress",
    "level_text": "Theorems C38_distinct_under_every_schedule / C38_every_well_locked_program / C38_lock_not_leaked "
                  "(coq/Props/C38.v) hold for unboundedly many threads, calls and schedule steps, over the step program "
                  "regenerated from hy/core/util.hy on every run. C38_name_props_partial: for every dot-free argument "
                  "text and number the symbol starts with _hy_ and is a fixed point of the C32 mangle model; arguments "
                  "with dots and injectivity in the number are checked on the real function only.",
    "level_note": "Trusted: Coq kernel; translator/gensym_steps.py and the step granularity (one step per bytecode that "
                  "touches _gensym_lock/_gensym_counter; validated by forcing model schedules on the real function); "
                  "threading.Lock is mutual exclusion; the mangle model and unicode_facts of C32 plus the hypothesis "
                  "ascii_split (validated here on generated strings); this harness.",
}

TRUSTED = [
    "Coq 8.16.1 kernel (coqc, full .vo); vm_compute for the regenerated obligations; no native_compute",
    "axioms: none (Print Assumptions: Closed under the global context for every C38 theorem)",
    "translator/gensym_steps.py: util.hy:gensym -> steps (fail-closed; cross-checked with dis + exception table of the "
    "function compiled by the repository's Hy); the interleaving semantics of coq/Gensym/Model.v (atomic steps = single "
    "bytecodes touching shared state; threading.Lock.acquire/release = mutual exclusion; faults only inside the try body)",
    "name theorem: the C32 mangle model (Mangle/Model.v, tied by C32's differential run) under unicode_facts and the "
    "extra hypothesis ascii_split (NFKC keeps an ASCII prefix that is followed by an ASCII character) -- both about the "
    "interpreter's Unicode database, validated here, not proved",
    "the opcode-level scheduler of this harness (sys.settrace + f_trace_opcodes) enforces the order of shared-state events",
]

ARGS = ["", "x", "foo-bar", "a b", "a.b", ".", "é", "中", "X", "hyx_", "-", "_", "__", "1", "+", "a!b?", "́",
        "＿", "á", "\U0001F991", "{}", "%s", "_hyx_", "x.y.z", "..", "é.+", "Ⅻ", "ﬁ", " ", "\n"]


# ------------------------------------------------------------------ the opcode-level scheduler
class Forcer:
    """forces the order of the shared-state events (given as a list of thread ids) on real threads"""

    def __init__(self, seq, code, offsets, timeout=3.0):
        self.seq, self.code, self.offsets, self.timeout = list(seq), code, set(offsets), timeout
        self.pos = 0
        self.inflight = None
        self.dead = False
        self.cv = threading.Condition()
        self.log = []

    def gate(self, tid, off):
        with self.cv:
            if self.inflight == tid:
                self.inflight = None
                self.cv.notify_all()
            if off not in self.offsets:
                return
            while not self.dead and self.pos < len(self.seq) and (self.seq[self.pos] != tid or self.inflight is not None):
                if not self.cv.wait(self.timeout):
                    self.dead = True
                    self.cv.notify_all()
            if self.dead or self.pos >= len(self.seq):
                return
            self.log.append((tid, off))
            self.pos += 1
            self.inflight = tid
            self.cv.notify_all()

    def done(self, tid):
        with self.cv:
            if self.inflight == tid:
                self.inflight = None
                self.cv.notify_all()

    def tracer(self, tid):
        def local(frame, event, arg):
            if event == "opcode":
                self.gate(tid, frame.f_lasti)
            elif event in ("return", "exception"):
                self.done(tid)
            return local

        def glob(frame, event, arg):
            if frame.f_code is self.code:
                frame.f_trace_opcodes = True
                return local
            return None
        return glob


def real_events(gensym):
    ins = [(i.offset, i.opname, i.argval if isinstance(i.argval, (str, int, type(None))) else repr(i.argval), i.argrepr)
           for i in dis.get_instructions(gensym)]
    tab = [(e.start, e.end, e.target) for e in dis._parse_exception_table(gensym.__code__)]
    ev, _ = gensym_steps.bytecode_events({"ins": ins, "tab": tab})
    return [(s, o) for s, o in ev if s != "Add"]


def forced_run(hy, seq_tids, calls, arg="q"):
    """run calls[t] calls of hy.gensym in thread t, the shared events in the order seq_tids.
    Returns (symbols per thread, forcer)."""
    gensym = hy.gensym
    ev = real_events(gensym)
    fz = Forcer(seq_tids, gensym.__code__, [o for _, o in ev])
    out = {t: [] for t in calls}
    errs = []

    def work(t):
        sys.settrace(fz.tracer(t))
        try:
            for _ in range(calls[t]):
                out[t].append(str(gensym(arg)))
        except Exception as e:  # noqa
            errs.append(repr(e))
        finally:
            sys.settrace(None)
            fz.done(t)
    ths = [threading.Thread(target=work, args=(t,)) for t in calls]
    for th in ths:
        th.start()
    for th in ths:
        th.join(30)
    return out, fz, errs


def sched_term(sched):
    return "[" + "; ".join("(%d%%nat, false)" % t for t in sched) + "]" if sched else "(@nil (tid * bool))"


def model_runs(scheds):
    """events and issued numbers of the model for each schedule"""
    exprs = []
    for s in scheds:
        exprs.append("events gensym_prog %s init" % sched_term(s))
        exprs.append("issued (run gensym_prog %s init)" % sched_term(s))
    outs = vlib.coq_eval(["HyV.Base.Text", "HyV.Gensym.Model", "HyV.Gen.GensymSteps"], "", exprs, tag="c38", shard=80)
    res = []
    for i in range(len(scheds)):
        ev = [(int(a), b) for a, b in re.findall(r"\((\d+)(?:%nat)?, (\w+)\)", outs[2 * i])]
        iss = [int(x) for x in re.findall(r"\d+", outs[2 * i + 1].split(":")[0])]
        res.append((ev, iss))
    return res


def number_of(sym, arg):
    m = re.search(r"_(\d+)$", sym)
    return int(m.group(1)) if m else None


def first_step():
    """the first shared step of one call of the translated program"""
    out = vlib.coq_eval(["HyV.Base.Text", "HyV.Gensym.Model", "HyV.Gen.GensymSteps"], "",
                        ["filter is_shared (p_pre gensym_prog ++ p_body gensym_prog ++ p_fin gensym_prog ++ p_post gensym_prog)"],
                        tag="c38f")[0]
    steps = re.findall(r"[A-Z]\w+", out.split(":")[0])
    return steps


def replay(chk, hy, sched, ev, model_issued, key, as_failure):
    """force the model's event order on the real function; judge distinctness"""
    import hy.core.util as U
    steps = first_step.cache
    tids = sorted({t for t, _ in ev})
    if not tids or not steps:
        return None
    calls = {t: max(1, sum(1 for (u, s) in ev if u == t and s == steps[0])) for t in tids}
    base = U._gensym_counter
    out, fz, errs = forced_run(hy, [t for t, _ in ev], calls)
    syms = [s for t in sorted(out) for s in out[t]]
    nums = [number_of(s, "q") for s in syms]
    rel = sorted(n - base for n in nums if n is not None)
    inp = {"threads": len(tids), "calls": calls, "schedule": sched, "shared_events": ["%d:%s" % e for e in ev]}
    how = ("props/c38.py:forced_run(hy, %r, %r) -- threads traced with sys.settrace/f_trace_opcodes, the bytecodes of "
           "hy.gensym that touch _gensym_lock/_gensym_counter executed in this thread order" % ([t for t, _ in ev], calls))
    enforced = not fz.dead and fz.pos >= len(fz.seq)
    chk.count("replay:" + ("enforced" if enforced else "not-enforced"))
    if errs:
        chk.fail("gensym-raised-under-forced-schedule", inp, errs, "symbols", how)
    if len(set(syms)) != len(syms):
        chk.fail(key, inp, {"symbols": syms}, "pairwise distinct symbols", how)
        return True
    if enforced and not as_failure:
        # correspondence: what the model says was issued must have been issued (relative to the counter before)
        missing = [x for x in model_issued if x not in rel]
        if missing:
            chk.disagree("Gensym.Model.run vs hy.gensym under the forced schedule", inp, sorted(model_issued), rel)
    return False


def stall_oracle(chk, hy, stalls):
    """One thread is held (asleep) just before each bytecode of gensym that names _gensym_counter -- i.e. inside the
    critical section -- for `stall` seconds, while a second thread calls gensym.  With a lock held for as long as it
    takes, the second thread waits; a timed or skipped acquire shows up as duplicate symbols.  Independent of the
    translator and of the model: the stall points come from dis of the real function."""
    gensym = hy.gensym
    code = gensym.__code__
    points = [(i.offset, i.opname) for i in dis.get_instructions(gensym) if i.argval == "_gensym_counter"]
    if not points:
        chk.count("stall:no-bytecode-names-_gensym_counter")
        return

    def traced_call(stop_at, stall, stalled):
        hit = [False]

        def local(frame, event, arg):
            if event == "opcode" and not hit[0] and frame.f_lasti == stop_at:
                hit[0] = True
                stalled.set()
                time.sleep(stall)
            return local

        def glob(frame, event, arg):
            if frame.f_code is code:
                frame.f_trace_opcodes = True
                return local
            return None
        sys.settrace(glob)
        try:
            return [str(gensym("st")), str(gensym("st"))]
        finally:
            sys.settrace(None)
            stalled.set()
    # the first traced call only switches per-opcode events on
    w = threading.Thread(target=traced_call, args=(-1, 0, threading.Event()))
    w.start()
    w.join()
    for stall in stalls:
        for off, opname in points:
            stalled = threading.Event()
            res = {}

            def a():
                try:
                    res["a"] = traced_call(off, stall, stalled)
                except Exception as e:  # noqa
                    res["a"] = ["ERR " + repr(e)]

            def b():
                stalled.wait(10)
                try:
                    res["b"] = [str(gensym("st")), str(gensym("st"))]
                except Exception as e:  # noqa
                    res["b"] = ["ERR " + repr(e)]
            ta, tb = threading.Thread(target=a), threading.Thread(target=b)
            ta.start()
            tb.start()
            ta.join(stall + 60)
            tb.join(stall + 60)
            syms = res.get("a", []) + res.get("b", [])
            chk.count("stall-trials")
            chk.case(("stall", off, stall), nontrivial=True)
            inp = {"stalled_thread_before": "%s@%d" % (opname, off), "stall_seconds": stall, "other_thread": "2 calls of hy.gensym"}
            how = ("thread A traced with sys.settrace/f_trace_opcodes sleeps %.1f s before the bytecode at offset %d of hy.gensym; "
                   "thread B then calls hy.gensym twice" % (stall, off))
            if any(x.startswith("ERR") for x in syms):
                chk.fail("gensym-raised-while-another-thread-was-stalled", inp, syms, "symbols", how)
            elif len(set(syms)) != len(syms):
                chk.fail("duplicate-symbols-when-a-thread-is-stalled-in-the-critical-section", inp, {"symbols": syms},
                         "pairwise distinct symbols", how)


INTERLEAVE_CODE = r"""
# Two threads make the FIRST gensym calls of a freshly (re)loaded hy.core.util; thread A runs k1 bytecodes of that module,
# then B runs k2, then A runs on (B takes over whenever A blocks), then B.  Needs neither the model nor the translator.
import sys, json, threading, importlib
import hy, hy.core.util as U
K1, K2 = json.loads(sys.argv[1]), json.loads(sys.argv[2])
FILE = U.__file__

class Ctl:
    def __init__(self, k1, k2):
        self.cv = threading.Condition(); self.turn = "A"; self.quota = {"A": k1, "B": k2}; self.done = set(); self.steals = 0
    def other(self, t): return "B" if t == "A" else "A"
    def wait_turn(self, t):
        while self.turn != t and self.other(t) not in self.done:
            if not self.cv.wait(0.05):
                self.turn = t; self.steals += 1          # the partner is blocked (on the lock): go on
                self.cv.notify_all()
    def step(self, t):
        with self.cv:
            self.wait_turn(t)
            q = self.quota[t]
            if q is not None:
                if q == 0:
                    self.quota[t] = None
                    if self.other(t) not in self.done:
                        self.turn = self.other(t); self.cv.notify_all(); self.wait_turn(t)
                else:
                    self.quota[t] = q - 1
    def finish(self, t):
        with self.cv:
            self.done.add(t); self.turn = self.other(t); self.cv.notify_all()

def run_trial(k1, k2, warm):
    importlib.reload(U)
    g = U.gensym
    ctl = Ctl(k1, k2)
    out = {"A": [], "B": []}
    def tracer(t):
        def local(frame, event, arg):
            if event == "opcode": ctl.step(t)
            return local
        def glob(frame, event, arg):
            if frame.f_code.co_filename == FILE:
                frame.f_trace_opcodes = True
                return local
            return None
        return glob
    def work(t):
        sys.settrace(tracer(t))
        try:
            out[t].append(str(g("w"))); 
        except Exception as e:
            out[t].append("ERR " + repr(e))
        finally:
            sys.settrace(None); ctl.finish(t)
        try:
            out[t].append(str(g("w")))
        except Exception as e:
            out[t].append("ERR " + repr(e))
    ta, tb = threading.Thread(target=work, args=("A",)), threading.Thread(target=work, args=("B",))
    ta.start(); tb.start(); ta.join(20); tb.join(20)
    return out["A"] + out["B"], ctl.steals

run_trial(0, 0, True)          # switches per-opcode events on for the code objects
res = {"trials": 0, "dups": [], "errors": [], "steals": 0}
for k1 in K1:
    for k2 in K2:
        syms, steals = run_trial(k1, k2, False)
        res["trials"] += 1; res["steals"] += steals
        if any(x.startswith("ERR") for x in syms): res["errors"].append({"k1": k1, "k2": k2, "symbols": syms})
        elif len(set(syms)) != len(syms): res["dups"].append({"k1": k1, "k2": k2, "symbols": syms})
print(json.dumps(res))
"""


def first_calls_oracle(chk, thorough):
    """the process's first gensym calls, racing: fresh module state in a fresh interpreter, two context switches at
    bytecode granularity anywhere in hy/core/util.hy (helpers included)"""
    k1 = list(range(0, 50, 1 if thorough else 2))
    k2 = list(range(0, 70, 1 if thorough else 2))
    rc, out, err = vlib.run_impl(INTERLEAVE_CODE, args=(json.dumps(k1), json.dumps(k2)), timeout=840)
    if rc != 0:
        chk.obligation("first-calls interleaving runs completed", False, err[-1500:])
        return
    res = json.loads(out.strip().splitlines()[-1])
    chk.count("first-call-interleavings", res["trials"])
    chk.count("first-call-interleavings:partner-blocked-on-the-lock", res["steals"])
    chk.extra["first_call_interleavings"] = res["trials"]
    for _ in range(res["trials"]):
        chk.evaluations += 1
    how = ("fresh interpreter; importlib.reload(hy.core.util); threads A and B traced per opcode in util.hy: A runs k1 bytecodes, "
           "B runs k2, A runs on, B runs on; each then calls gensym once more")
    for d in res["dups"][:3]:
        chk.fail("duplicate-symbols-in-the-first-calls-of-a-process", {"k1": d["k1"], "k2": d["k2"], "total_trials": res["trials"],
                                                                        "duplicating_trials": len(res["dups"])},
                 {"symbols": d["symbols"]}, "pairwise distinct symbols", how)
    for d in res["errors"][:2]:
        chk.fail("gensym-raised-in-the-first-calls-of-a-process", {"k1": d["k1"], "k2": d["k2"]}, d["symbols"], "symbols", how)


def failing_label_oracle(chk, hy):
    """A calls gensym with a label whose __format__ raises -- after the counter was advanced; B completes a call in
    that window; C calls afterwards.  Whatever gensym does about the failure, B's and C's symbols must differ."""
    for variant in ("raise-in-format", "raise-in-format-twice"):
        in_format, b_done = threading.Event(), threading.Event()
        res = {}

        class Bad:
            def __format__(self, spec):
                in_format.set()
                b_done.wait(5)
                raise RuntimeError("label cannot be formatted")

            __str__ = __repr__ = lambda self: "bad"

        def a():
            try:
                res["a"] = str(hy.gensym(Bad()))
            except Exception as e:  # noqa
                res["a"] = "RAISED " + type(e).__name__

        def b():
            in_format.wait(5)
            res["b"] = [str(hy.gensym("fl")) for _ in range(2 if variant.endswith("twice") else 1)]
            b_done.set()
        ta, tb = threading.Thread(target=a), threading.Thread(target=b)
        ta.start()
        tb.start()
        ta.join(30)
        tb.join(30)
        c = [str(hy.gensym("fl")) for _ in range(3)]
        syms = res.get("b", []) + c
        chk.count("failing-label-trials")
        chk.case(("failing-label", variant), nontrivial=True)
        if len(set(syms)) != len(syms):
            chk.fail("duplicate-symbols-after-a-failing-call", {"schedule": "A: gensym(label whose __format__ raises) | B: gensym x%d while A "
                     "is inside __format__ | A raises | C: gensym x3" % (len(res.get("b", []))), "a_outcome": res.get("a")},
                     {"symbols": syms}, "pairwise distinct symbols",
                     "props/c38.py:failing_label_oracle -- threads synchronised with events inside the label's __format__")


def stress(chk, hy, rounds, nthreads, ncalls):
    old = sys.getswitchinterval()
    sys.setswitchinterval(1e-6)
    try:
        for r in range(rounds):
            args = [[chk.rng.choice(ARGS) for _ in range(ncalls)] for _ in range(nthreads)]
            out = [[] for _ in range(nthreads)]
            start = threading.Barrier(nthreads)

            def work(i):
                start.wait()
                g = hy.gensym
                o = out[i]
                for a in args[i]:
                    try:
                        o.append(g(a))
                    except Exception as e:  # noqa
                        o.append(e)
            ths = [threading.Thread(target=work, args=(i,)) for i in range(nthreads)]
            for t in ths:
                t.start()
            for t in ths:
                t.join()
            syms = [s for o in out for s in o]
            strs = [str(s) for s in syms if not isinstance(s, Exception)]
            chk.count("stress-calls", len(syms))
            if len(set(strs)) != len(strs):
                seen, dups = set(), []
                for s in strs:
                    if s in seen:
                        dups.append(s)
                    seen.add(s)
                chk.fail("duplicate-symbols-under-stress", {"round": r, "threads": nthreads, "calls": ncalls}, dups[:5],
                         "pairwise distinct symbols", "8 threads calling hy.gensym with sys.setswitchinterval(1e-6)")
            for a, s in zip([x for ar in args for x in ar], syms):
                name_oracle(chk, hy, a, s)
    finally:
        sys.setswitchinterval(old)


def dotted_matcher(rec, params):
    """the recorded defect: an argument containing a dot makes gensym raise ValueError from the Symbol constructor"""
    return (rec["key"] == "gensym-raises" and "." in rec["input"]["argument"]
            and str(rec["observed"]).startswith("ValueError"))


def name_oracle(chk, hy, arg, sym):
    how = ("PYTHONPATH=%s /venv/bin/python -c 'import hy; s = hy.gensym(%r); print(ascii(s), hy.mangle(s) == s)'"
           % (vlib.REPO, arg))
    chk.count("argument:" + ("dotted" if "." in arg else "plain"))
    if isinstance(sym, Exception):
        chk.case((arg, "raises"), nontrivial=True)
        chk.fail("gensym-raises", {"argument": arg}, "%s: %s" % (type(sym).__name__, str(sym)[:120]),
                 "a Symbol starting with _hy_ with hy.mangle(s) == s", how)
        return
    s = str(sym)
    key = None
    if type(sym) is not hy.models.Symbol:
        key = "not-a-symbol"
    elif not s.startswith("_hy_"):
        key = "no-reserved-prefix"
    elif hy.mangle(s) != s:
        key = "not-already-mangled"
    chk.case((arg, "dotted" if "." in arg else "plain"), nontrivial=(hy.mangle("a" + arg) != "a" + arg), sample=None)
    if key:
        chk.fail(key, {"argument": arg}, s, "a Symbol starting with _hy_ with hy.mangle(s) == s", how)


def validate_ascii_split(chk, n):
    rng = chk.rng
    bad = []
    marks = ["́", "̈", "̣", "゙", "ͅ", "ᅡ", "ᆨ", "्", "ཱ"]
    for _ in range(n):
        a = "".join(chr(rng.randrange(128)) for _ in range(rng.randrange(0, 6)))
        c = chr(rng.randrange(128))
        t = "".join(rng.choice(marks) if rng.random() < 0.4 else chr(rng.choice([rng.randrange(0x80, 0x3000), rng.randrange(128),
                                                                                  rng.randrange(0x110000)]))
                    for _ in range(rng.randrange(0, 5)))
        t = "".join(ch for ch in t if not 0xD800 <= ord(ch) <= 0xDFFF)
        if unicodedata.normalize("NFKC", a + c + t) != a + unicodedata.normalize("NFKC", c + t):
            bad.append(ascii(a + c + t))
    chk.obligation("hypothesis ascii_split (NFKC keeps an ASCII prefix followed by an ASCII character) holds on %d generated strings" % n,
                   not bad, repr(bad[:5]))


def run(chk):
    chk.trusted = TRUSTED
    chk.assumptions = [
        "threads are CPython threads; a schedule is an order of the bytecodes that touch _gensym_lock / _gensym_counter "
        "(Add and all other bytecodes are thread-local); threading.Lock gives mutual exclusion",
        "'already mangled' = hy.mangle(symbol) == symbol; 'distinct' = distinct symbol texts",
        "exceptions are considered only inside gensym's try body (what its finally clause protects)",
        "a thread can be held inside the critical section for as long as the stall oracle waits (2.5 s quick, 6 s thorough); "
        "an acquire timeout longer than that would not be noticed by the oracle (the proof obligation still breaks)",
    ]
    chk.matchers["gensym_dotted_argument_raises"] = dotted_matcher
    ok = chk.prove("Props/C38.v", ["Props/C38.vo"], [mangle_tables.translate, gensym_steps.translate])
    thorough = chk.tier == "thorough"
    hy = vlib.use_repo_in_process()
    mc.validate_unicode_facts(chk, chk.rng, 3000)
    validate_ascii_split(chk, 200000 if thorough else 20000)
    chk.rule = ("(1) schedules: random thread-id lists over 2-3 threads, run on the model (coq/Gensym/Model.v over the "
                "regenerated program); the resulting order of shared-state bytecodes is forced on real threads calling "
                "hy.gensym under an opcode-level tracer; (2) stress: 8 threads, switch interval 1e-6, random argument texts "
                "(empty, hyphens, spaces, dots, non-ASCII, combining marks, characters needing hyx_ escapes, format "
                "metacharacters); every returned symbol judged: Symbol, starts with _hy_, hy.mangle fixes it, all distinct; "
                "non-trivial = argument whose mangling is not the identity")
    # ---- stress + name oracle on the real function
    if thorough:
        stress(chk, hy, 16, 8, 3000)
    else:
        stress(chk, hy, 6, 8, 1500)
    # ---- a failing call with a successful one in its window; the first calls of a fresh process
    try:
        failing_label_oracle(chk, hy)
    except Exception as e:  # noqa
        import traceback
        chk.obligation("failing-label runs completed", False, traceback.format_exc()[-1500:])
    try:
        first_calls_oracle(chk, thorough)
    except Exception as e:  # noqa
        import traceback
        chk.obligation("first-calls interleaving runs completed", False, traceback.format_exc()[-1500:])
    # ---- a thread held inside the critical section while another one calls gensym
    try:
        stall_oracle(chk, hy, [2.5, 6.0] if thorough else [2.5])
    except Exception as e:  # noqa
        import traceback
        chk.obligation("stall runs completed", False, traceback.format_exc()[-1500:])
    # every argument once, single-threaded, incl. distinctness across arguments for one number range
    singles = []
    for a in ARGS:
        for _ in range(2):
            try:
                singles.append(hy.gensym(a))
            except Exception as e:  # noqa
                singles.append(e)
    for a, s in zip([a for a in ARGS for _ in range(2)], singles):
        name_oracle(chk, hy, a, s)
    singles = [s for s in singles if not isinstance(s, Exception)]
    if len({str(s) for s in singles}) != len(singles):
        chk.fail("duplicate-symbols-sequential", {"arguments": ARGS}, [str(s) for s in singles], "pairwise distinct symbols",
                 "[hy.gensym(a) for a in ARGS]")
    # ---- model schedules forced on the real function (a broken tie must not undo the oracle results above)
    try:
        forced_schedules(chk, hy, ok, thorough)
    except Exception as e:  # noqa
        import traceback
        chk.obligation("forced-schedule runs completed", False, traceback.format_exc()[-1500:])


def forced_schedules(chk, hy, ok, thorough):
    built, log = vlib.coq_build(["Gen/GensymSteps.vo"])
    if not built:
        chk.obligation("regenerated step program compiles (Gen/GensymSteps.v)", False, log[-1500:])
        return
    try:
        first_step.cache = first_step()
    except Exception as e:  # noqa
        chk.obligation("model evaluation (coq_eval over Gen/GensymSteps.v)", False, str(e)[-1500:])
        return
    # the first traced call only switches per-opcode events on for the code object: do it outside the runs that count
    forced_run(hy, [], {0: 1})
    obl_ok = all(o[1] for o in chk.obligations if o[0].startswith("coq cone builds") or o[0].startswith("property theorems"))
    if not obl_ok:
        # model-guided search: a schedule with <= 3 context switches on which the model issues a duplicate
        out = vlib.coq_eval(["HyV.Base.Text", "HyV.Gensym.Model", "HyV.Gen.GensymSteps"], "",
                            ["search_dup gensym_prog 14"], tag="c38s")[0]
        m = re.search(r"Some \((\d+)(?:%nat)?, (\d+)(?:%nat)?, (\d+)(?:%nat)?, (\d+)(?:%nat)?\)", out)
        chk.extra["model_search"] = out[:200]
        if m:
            a, b, c, d = map(int, m.groups())
            k = 40
            sched = [0] * a + [1] * b + [0] * c + [1] * d + [0] * k + [1] * k
            (ev, iss), = model_runs([sched])
            # only the prefix up to the duplicate matters: keep the events of the first call of each thread
            for attempt in range(5):
                if replay(chk, hy, {"a": a, "b": b, "c": c, "d": d}, ev, iss, "duplicate-symbols-under-schedule", True):
                    break
    n_sched = 400 if thorough else 40
    scheds = []
    for i in range(n_sched):
        nt = chk.rng.choice([2, 2, 3])
        L = chk.rng.randrange(20, 90)
        s = []
        while len(s) < L:
            s += [chk.rng.randrange(nt)] * chk.rng.choice([1, 1, 2, 3, 5, 9])
        scheds.append(s[:L])
    runs = model_runs(scheds)
    dup_in_model = 0
    for s, (ev, iss) in zip(scheds, runs):
        chk.count("forced-schedules")
        chk.count("threads:%d" % len({t for t, _ in ev}))
        if len(set(iss)) != len(iss):
            dup_in_model += 1
        chk.case(("sched", tuple(s)), nontrivial=len({t for t, _ in ev}) >= 2,
                 sample={"schedule": s[:40], "events": ["%d:%s" % e for e in ev][:24]} if len(chk.samples) < 6 else None)
        replay(chk, hy, s, ev, iss, "duplicate-symbols-under-schedule", False)
    chk.extra["model_schedules_with_duplicates"] = dup_in_model
    if ok and dup_in_model:
        chk.obligation("theorem instance: the model issues no duplicate on the generated schedules", False,
                       "%d schedules" % dup_in_model)
