"""C10 oracle: hy_compile + compile() + marshal.dumps on one model tree, the class
of whatever is raised, a tree shrinker, and the pool worker."""
import ast
import marshal
import re
import signal
import sys
import types
import warnings


class CaseTimeout(BaseException):
    pass


def _alarm(signum, frame):
    raise CaseTimeout("wall" if signum == signal.SIGALRM else "cpu")


_counter = [0]


def has_bare_except_star(hy, t):
    m = hy.models
    if isinstance(t, m.Expression) and len(t) >= 2 and t[0] == m.Symbol("except*") and isinstance(t[1], m.List) and len(t[1]) == 0:
        return True
    return isinstance(t, (m.Sequence, list, tuple)) and any(has_bare_except_star(hy, c) for c in t)


def classify(hy, tree, timeout=3.0):
    """-> (verdict, stage, exception class name, message); verdict: 'ok' | 'user-error' | 'violation' | 'timeout'.
    A tree with (except* [] ...) is judged in a child process: Hy compiles it to a TryStar with a bare handler, which
    CPython's compile() accepts but whose execution -- here: compile-time evaluation by do-mac, eval-when-compile, a
    macro body -- kills the interpreter with SIGSEGV."""
    if has_bare_except_star(hy, tree):
        return classify_in_child(hy, tree, timeout)
    return classify_here(hy, tree, timeout)


def classify_in_child(hy, tree, timeout=3.0):
    import json
    import os
    import subprocess
    code = ("import sys, json\nsys.path.insert(0, %r)\nsys.path.insert(0, %r)\nimport hy, hy.compiler\n"
            "from props import valid_oracle as vo\ntree = %s\nprint('RESULT ' + json.dumps(vo.classify_here(hy, tree, %r)))\n"
            % (os.path.dirname(os.path.dirname(os.path.abspath(hy.__file__))), os.path.dirname(os.path.dirname(os.path.abspath(__file__))),
               py_repr(tree), timeout))
    try:
        p = subprocess.run([sys.executable, "-c", code], capture_output=True, text=True, timeout=60, stdin=subprocess.DEVNULL,
                           env=dict(os.environ, PYTHONHASHSEED="0"))
    except subprocess.TimeoutExpired:
        return ("timeout", "hy_compile", "wall", "")
    for line in p.stdout.splitlines():
        if line.startswith("RESULT "):
            return tuple(json.loads(line[7:]))
    if p.returncode < 0:
        return ("violation", "hy_compile", "ProcessKilled", "the compiler process was killed by signal %d" % -p.returncode)
    return ("violation", "oracle", "ChildFailed", (p.stderr or "")[-200:])


def classify_here(hy, tree, timeout=3.0):
    from hy.errors import HyLanguageError
    _counter[0] += 1
    name = "zq_c10_%d" % _counter[0]
    mod = types.ModuleType(name)
    sys.modules[name] = mod
    stage = "hy_compile"
    # CPU time of this process, not wall time: on a loaded machine a starved worker must not be interrupted at a random
    # point (an exception raised while an import lock is held leaves the worker dead-locked)
    signal.signal(signal.SIGVTALRM, _alarm)
    signal.setitimer(signal.ITIMER_VIRTUAL, timeout)
    # and a generous wall-clock limit for a case that blocks without using CPU
    signal.signal(signal.SIGALRM, _alarm)
    signal.setitimer(signal.ITIMER_REAL, 30.0)
    try:
        with warnings.catch_warnings():
            warnings.simplefilter("ignore")
            a = hy.compiler.hy_compile(tree, mod, filename="<c10>", source="")
            stage = "compile"
            code = compile(a, "<c10>", "exec")
            stage = "marshal"
            marshal.dumps(code)
        return ("ok", "", "", "")
    except CaseTimeout as t:
        return ("timeout", stage, str(t) or "cpu", "")
    except RecursionError as e:
        return ("violation", stage, "RecursionError", str(e)[:200])
    except BaseException as e:
        if isinstance(e, (KeyboardInterrupt, SystemExit)) and stage != "hy_compile":
            raise
        msg = str(e)
        if isinstance(e, HyLanguageError) or isinstance(e, SyntaxError):
            return ("user-error", stage, type(e).__name__, msg[:300])
        return ("violation", stage, type(e).__name__, msg[-600:] if type(e).__name__ == "HyCompileError" else msg[:300])
    finally:
        signal.setitimer(signal.ITIMER_VIRTUAL, 0)
        signal.setitimer(signal.ITIMER_REAL, 0)
        sys.modules.pop(name, None)


def norm_msg(cls, msg):
    if cls == "HyCompileError":
        # keep the last line of the embedded traceback: the real exception
        lines = [l for l in msg.strip().splitlines() if l.strip()]
        msg = lines[-1] if lines else msg
    msg = re.sub(r"'[^']*'", "'_'", msg)
    msg = re.sub(r"`[^`]*`", "`_`", msg)
    msg = re.sub(r"\(\d+\)", "(N)", msg)
    msg = re.sub(r"\d+", "N", msg)
    return msg[:120]


def key_of(res):
    verdict, stage, cls, msg = res
    return "%s:%s:%s" % (stage, cls, norm_msg(cls, msg))


def render(hy, tree):
    try:
        return hy.repr(tree)
    except Exception:
        return repr(tree)


def py_repr(tree):
    """a Python expression that rebuilds the tree (for the replay command)"""
    import hy
    m = hy.models
    if isinstance(tree, m.FComponent):
        return "hy.models.FComponent([%s], conversion=%r)" % (", ".join(py_repr(c) for c in tree), tree.conversion)
    if isinstance(tree, m.Sequence):
        return "hy.models.%s([%s])" % (type(tree).__name__, ", ".join(py_repr(c) for c in tree))
    if isinstance(tree, m.Symbol):
        return "hy.models.Symbol(%r, from_parser=True)" % str(tree)
    if isinstance(tree, m.Keyword):
        return "hy.models.Keyword(%r, from_parser=True)" % tree.name
    if isinstance(tree, m.Float):
        return "hy.models.Float(float(%r))" % repr(float(tree))
    if isinstance(tree, m.Complex):
        return "hy.models.Complex(%r)" % complex(tree)
    if isinstance(tree, m.Integer):
        return "hy.models.Integer(%r)" % int(tree)
    if isinstance(tree, m.String):
        return "hy.models.String(%r)" % str(tree)
    if isinstance(tree, m.Bytes):
        return "hy.models.Bytes(%r)" % bytes(tree)
    return repr(tree)


def children(hy, t):
    return list(t) if isinstance(t, hy.models.Sequence) else []


def shrink(hy, gen, tree, key, budget=250):
    """greedy structural shrinking preserving the failure key"""
    m = hy.models
    used = [0]

    def still(t):
        if used[0] >= budget:
            return False
        used[0] += 1
        r = classify(hy, t)
        return r[0] == "violation" and key_of(r) == key

    changed = True
    while changed and used[0] < budget:
        changed = False
        # 1. replace the whole tree by one of its sub-trees
        for path, node in gen.nodes(tree):
            if path and still(node):
                tree = node
                changed = True
                break
        if changed:
            continue
        # 2. drop a child / replace a child by an atom
        for path, node in gen.nodes(tree):
            kids = list(node)
            for i in range(len(kids)):
                cand = gen.rebuild(tree, path, kids[:i] + kids[i + 1:])
                ok = True
                try:
                    ok = still(cand)
                except Exception:
                    ok = False
                if ok:
                    tree = cand
                    changed = True
                    break
                if isinstance(kids[i], m.Sequence) or (isinstance(kids[i], m.Symbol) and str(kids[i]) != "x"):
                    for repl in (m.Symbol("x"), m.Integer(1)):
                        if isinstance(node, m.FString):
                            continue
                        cand = gen.rebuild(tree, path, kids[:i] + [repl] + kids[i + 1:])
                        try:
                            ok = still(cand)
                        except Exception:
                            ok = False
                        if ok:
                            tree = cand
                            changed = True
                            break
                    if changed:
                        break
            if changed:
                break
    return tree


from props.valid_gen import AUG, COMPARE  # noqa: E402


def _walk(hy, t):
    yield t
    if isinstance(t, (hy.models.Sequence, list, tuple)):
        for c in t:
            yield from _walk(hy, c)


def _head(hy, t):
    m = hy.models
    if isinstance(t, m.Expression) and t and isinstance(t[0], m.Symbol):
        return str(t[0])
    return None


def features(hy, tree):
    """structural facts about a shrunk failing tree (evaluated in the worker, stored with the failure)"""
    import unicodedata
    m = hy.models
    f = {}
    nodes = list(_walk(hy, tree))
    is_um = lambda x: _head(hy, x) == "unpack-mapping"  # noqa
    f["odd_dict"] = any(isinstance(n, m.Dict) and len([c for c in n if not is_um(c)]) % 2 == 1 for n in nodes)

    def misaligned(d):
        k = 0
        for c in d:
            if is_um(c):
                if k % 2 == 1:
                    return True
            else:
                k += 1
        return False
    f["dict_unpack_misaligned"] = any(isinstance(n, m.Dict) and misaligned(n) for n in nodes)
    aug = set(AUG)
    f["aug_bad_target"] = any(_head(hy, n) in aug and len(n) >= 2 and
                              (isinstance(n[1], (m.List, m.Tuple)) or _head(hy, n[1]) == "unpack-iterable") for n in nodes)
    f["chainc_single"] = any(_head(hy, n) == "chainc" and len(n) == 2 for n in nodes)
    def n_alternatives(n):
        kids = list(n)[1:]
        n_as = sum(1 for c in kids if isinstance(c, m.Keyword) and c.name == "as")
        return len(kids) - 2 * n_as
    f["short_or_pattern"] = any(_head(hy, n) == "|" and n_alternatives(n) <= 1 for n in nodes) \
        and any(_head(hy, n) == "match" for n in nodes)
    f["import_empty_list"] = any(_head(hy, n) == "import" and any(isinstance(c, m.List) and len(c) == 0 for c in n) for n in nodes)

    def bad_ann_target(x):
        return isinstance(x, (m.List, m.Tuple)) or _head(hy, x) == "unpack-iterable"
    f["annotate_bad_target"] = any(_head(hy, n) == "annotate" and len(n) >= 2 and bad_ann_target(n[1]) for n in nodes)
    f["compare_with_unpack_mapping"] = any((_head(hy, n) in COMPARE or _head(hy, n) == "chainc") and any(is_um(c) for c in n[1:])
                                           for n in nodes)

    def falsy(x):
        try:
            return not x
        except Exception:
            return False
    assert_falsy = any(_head(hy, n) == "assert" and len(n) == 3 and falsy(n[2]) for n in nodes)
    tp_falsy = any(isinstance(n, m.List) and any(_head(hy, c) == "annotate" and len(c) == 3 and falsy(c[2]) for c in n) for n in nodes)
    f["falsy_literal_truth_tested"] = assert_falsy or tp_falsy
    f["tp_falsy_bound"] = tp_falsy
    f["star_wildcard"] = any(_head(hy, n) == "unpack-iterable" and len(n) == 2 and n[1] == m.Symbol("_") for n in nodes) \
        and any(_head(hy, n) == "match" for n in nodes)
    def as_wild(n):
        kids = list(n) if isinstance(n, (m.Sequence, list, tuple)) else []
        return any(isinstance(a, m.Keyword) and a.name == "as" and isinstance(b, m.Symbol) and str(b) == "_" for a, b in zip(kids, kids[1:]))
    f["as_wildcard"] = any(as_wild(n) for n in nodes) and any(_head(hy, n) == "match" for n in nodes)
    f["bare_except_star"] = has_bare_except_star(hy, tree)
    f["has_nonlocal"] = any(_head(hy, n) == "nonlocal" and len(n) >= 2 for n in nodes)
    f["bare_unpack_mapping"] = any(_head(hy, n) == "unpack-mapping" and len(n) == 1 for n in nodes)
    f["dot_pattern_short"] = any(_head(hy, n) == "." and len(n) == 2 for n in nodes) and any(_head(hy, n) == "match" for n in nodes)

    def constant_like(s):
        return isinstance(s, m.Symbol) and unicodedata.normalize("NFKC", str(s)) in ("None", "True", "False")
    f["constant_like_name"] = any(constant_like(n) for n in nodes)

    def variant(x):      # normalises to a constant name without being spelled like one
        return constant_like(x) and str(x) not in ("None", "True", "False")

    def deftype_const(n):
        if _head(hy, n) != "deftype":
            return False
        args = [a for a in list(n)[1:]]
        if args and isinstance(args[0], m.Keyword) and len(args) >= 2:
            args = args[2:]
        return bool(args) and constant_like(args[0])

    def match_const(n):
        if _head(hy, n) != "match":
            return False
        for x in _walk(hy, n):
            if variant(x):
                return True
            if _head(hy, x) in ("unpack-iterable", "unpack-mapping") and len(x) == 2 and constant_like(x[1]):
                return True
        return False
    def tp_const(n):
        """a type-parameter name (:tp [T  #^ bound T  #* Ts  #** P]) of defn / fn / defclass / deftype that is a constant name"""
        if not isinstance(n, m.Expression):
            return False
        kids = list(n)
        for a, b in zip(kids, kids[1:]):
            if isinstance(a, m.Keyword) and a.name == "tp" and isinstance(b, m.List):
                for x in b:
                    if constant_like(x):
                        return True
                    if _head(hy, x) in ("annotate", "unpack-iterable", "unpack-mapping") and len(x) >= 2 and constant_like(x[1]):
                        return True
        return False
    # where the recorded defect lives: the name of a deftype, type-parameter names, and binding positions of match patterns
    # ... and any name that only *normalises* to a constant name (_nonconst tests the unmangled text)
    f["constant_name_in_deftype_or_pattern"] = any(deftype_const(n) or tp_const(n) or match_const(n) or variant(n) for n in nodes)
    f["class_pattern_head"] = any(_head(hy, n) == "match" for n in nodes) and any(
        isinstance(n, m.Expression) and n and (isinstance(n[0], m.Expression) or str(n[0]) in ("None", "True", "False"))
        for n in nodes) or any(_head(hy, n) == "match" for n in nodes) and any(
        isinstance(n, m.Expression) and len(n) >= 2 and isinstance(n[1], m.Expression) and n[1] and
        str(n[1][0]) in ("None", "True", "False", ".") for n in nodes)
    f["mapping_pattern_in_comprehension"] = any(_head(hy, n) in ("lfor", "sfor", "gfor", "dfor") and
                                                any(isinstance(x, m.Dict) for x in _walk(hy, n)) and
                                                any(_head(hy, x) == "match" for x in _walk(hy, n)) for n in nodes)
    # dynamic: does some sub-form compile, alone, to a Result without expression / to nothing at all?
    no_expr = empty = False
    import types
    import warnings
    for n in ([] if has_bare_except_star(hy, tree) else nodes[:60]):      # (compiling such a tree here could kill this process)
        if not isinstance(n, m.Expression):
            continue
        modname = "zq_c10_feat"
        mod = types.ModuleType(modname)
        sys.modules[modname] = mod
        try:
            with warnings.catch_warnings():
                warnings.simplefilter("ignore")
                comp = hy.compiler.HyASTCompiler(mod, filename="<c10>", source="")
                with comp.scope:
                    r = comp.compile(n)
            if r._expr is None:
                no_expr = True
                if not r.stmts:
                    empty = True
        except BaseException:
            pass
        finally:
            sys.modules.pop(modname, None)
    f["has_form_without_expr"] = no_expr
    f["has_empty_form"] = empty
    return f


def worker(args):
    seed, n, repo, depth = args
    import random
    sys.path.insert(0, repo)
    import hy
    import hy.compiler  # noqa
    from props import valid_gen
    rng = random.Random(seed)
    gen = valid_gen.G(hy, rng, max_depth=depth)
    counts, fails, samples = {}, {}, []
    distinct = set()
    nontrivial = 0
    wall_timeouts = 0
    for i in range(n):
        stream, tree = gen.case()
        head = str(tree[0]) if isinstance(tree, hy.models.Expression) and tree and isinstance(tree[0], hy.models.Symbol) else "(no head)"
        try:
            res = classify(hy, tree)
        except Exception as e:  # the oracle itself must not die
            res = ("violation", "oracle", type(e).__name__, str(e)[:200])
        counts["stream:" + stream] = counts.get("stream:" + stream, 0) + 1
        counts["head:" + head] = counts.get("head:" + head, 0) + 1
        counts["verdict:" + res[0]] = counts.get("verdict:" + res[0], 0) + 1
        if res[0] == "timeout":
            counts["timeout:" + res[2]] = counts.get("timeout:" + res[2], 0) + 1
            if res[2] == "wall":
                wall_timeouts += 1
                if wall_timeouts >= 3:
                    # this worker keeps blocking (e.g. on a lock left behind by an interrupted import): give the job up
                    counts["job-abandoned-after-3-wall-timeouts"] = 1
                    n = i + 1
                    break
        if res[0] == "user-error":
            counts["user-error:%s:%s" % (res[1], res[2])] = counts.get("user-error:%s:%s" % (res[1], res[2]), 0) + 1
        text = render(hy, tree)
        h = hash(text)
        if h not in distinct:
            distinct.add(h)
            if len(gen.nodes(tree)) >= 2:
                nontrivial += 1
        if len(samples) < 2 and i % 97 == 5:
            samples.append({"stream": stream, "tree": text[:300], "outcome": res[0] + (":" + res[2] if res[2] else "")})
        if res[0] == "violation":
            k = key_of(res)
            ent = fails.setdefault(k, {"count": 0, "examples": []})
            ent["count"] += 1
            if len(ent["examples"]) < 2:
                try:
                    small = shrink(hy, gen, tree, k)
                except BaseException:
                    small = tree
                r2 = classify(hy, small)
                ent["examples"].append({"stream": stream, "tree": render(hy, small), "py": py_repr(small), "original": text[:400],
                                        "stage": r2[1] or res[1], "exc": r2[2] or res[2], "msg": (r2[3] or res[3])[-300:],
                                        "features": features(hy, small)})
    return {"counts": counts, "fails": fails, "samples": samples, "distinct": len(distinct), "nontrivial": nontrivial, "n": n}
