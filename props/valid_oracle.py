"""C10 oracle: hy_compile + compile() + marshal.dumps on one model tree, the class
of whatever is raised, a tree shrinker, and the pool worker."""
import ast
import marshal
import re
import signal
import sys
import types
import warnings


class CaseTimeout(BaseException):
    pass


def _alarm(signum, frame):
    raise CaseTimeout()


_counter = [0]


def classify(hy, tree, timeout=3.0):
    """-> (verdict, stage, exception class name, message)
    verdict: 'ok' | 'user-error' | 'violation' | 'timeout'"""
    from hy.errors import HyLanguageError
    _counter[0] += 1
    name = "zq_c10_%d" % _counter[0]
    mod = types.ModuleType(name)
    sys.modules[name] = mod
    stage = "hy_compile"
    signal.signal(signal.SIGALRM, _alarm)
    signal.setitimer(signal.ITIMER_REAL, timeout)
    try:
        with warnings.catch_warnings():
            warnings.simplefilter("ignore")
            a = hy.compiler.hy_compile(tree, mod, filename="<c10>", source="")
            stage = "compile"
            code = compile(a, "<c10>", "exec")
            stage = "marshal"
            marshal.dumps(code)
        return ("ok", "", "", "")
    except CaseTimeout:
        return ("timeout", stage, "", "")
    except RecursionError as e:
        return ("violation", stage, "RecursionError", str(e)[:200])
    except BaseException as e:
        if isinstance(e, (KeyboardInterrupt, SystemExit)) and stage != "hy_compile":
            raise
        msg = str(e)
        if isinstance(e, HyLanguageError) or isinstance(e, SyntaxError):
            return ("user-error", stage, type(e).__name__, msg[:300])
        return ("violation", stage, type(e).__name__, msg[-600:] if type(e).__name__ == "HyCompileError" else msg[:300])
    finally:
        signal.setitimer(signal.ITIMER_REAL, 0)
        sys.modules.pop(name, None)


def norm_msg(cls, msg):
    if cls == "HyCompileError":
        # keep the last line of the embedded traceback: the real exception
        lines = [l for l in msg.strip().splitlines() if l.strip()]
        msg = lines[-1] if lines else msg
    msg = re.sub(r"'[^']*'", "'_'", msg)
    msg = re.sub(r"`[^`]*`", "`_`", msg)
    msg = re.sub(r"\(\d+\)", "(N)", msg)
    msg = re.sub(r"\d+", "N", msg)
    return msg[:120]


def key_of(res):
    verdict, stage, cls, msg = res
    return "%s:%s:%s" % (stage, cls, norm_msg(cls, msg))


def render(hy, tree):
    try:
        return hy.repr(tree)
    except Exception:
        return repr(tree)


def py_repr(tree):
    return re.sub(r"\s+", " ", repr(tree))


def children(hy, t):
    return list(t) if isinstance(t, hy.models.Sequence) else []


def shrink(hy, gen, tree, key, budget=250):
    """greedy structural shrinking preserving the failure key"""
    m = hy.models
    used = [0]

    def still(t):
        if used[0] >= budget:
            return False
        used[0] += 1
        r = classify(hy, t)
        return r[0] == "violation" and key_of(r) == key

    changed = True
    while changed and used[0] < budget:
        changed = False
        # 1. replace the whole tree by one of its sub-trees
        for path, node in gen.nodes(tree):
            if path and still(node):
                tree = node
                changed = True
                break
        if changed:
            continue
        # 2. drop a child / replace a child by an atom
        for path, node in gen.nodes(tree):
            kids = list(node)
            for i in range(len(kids)):
                cand = gen.rebuild(tree, path, kids[:i] + kids[i + 1:])
                ok = True
                try:
                    ok = still(cand)
                except Exception:
                    ok = False
                if ok:
                    tree = cand
                    changed = True
                    break
                if isinstance(kids[i], m.Sequence) or (isinstance(kids[i], m.Symbol) and str(kids[i]) != "x"):
                    for repl in (m.Symbol("x"), m.Integer(1)):
                        if isinstance(node, m.FString):
                            continue
                        cand = gen.rebuild(tree, path, kids[:i] + [repl] + kids[i + 1:])
                        try:
                            ok = still(cand)
                        except Exception:
                            ok = False
                        if ok:
                            tree = cand
                            changed = True
                            break
                    if changed:
                        break
            if changed:
                break
    return tree


def features(hy, tree):
    """facts about a (shrunk) tree that the known-finding matchers look at"""
    m = hy.models
    f = {"odd_dict": False, "heads": [], "nfkc_constant_symbol": False, "annotated_non_name_target": False}
    import unicodedata

    def walk(t, in_quote=False):
        if isinstance(t, m.Dict) and len(t) % 2 == 1:
            f["odd_dict"] = True
        if isinstance(t, m.Symbol) and str(t) not in ("None", "True", "False") and \
                unicodedata.normalize("NFKC", str(t)) in ("None", "True", "False"):
            f["nfkc_constant_symbol"] = True
        if isinstance(t, m.Expression) and t and isinstance(t[0], m.Symbol):
            f["heads"].append(str(t[0]))
        if isinstance(t, m.Sequence):
            for c in t:
                walk(c)
    walk(tree)
    f["heads"] = sorted(set(f["heads"]))
    return f


def worker(args):
    seed, n, repo, depth = args
    import random
    sys.path.insert(0, repo)
    import hy
    import hy.compiler  # noqa
    from props import valid_gen
    rng = random.Random(seed)
    gen = valid_gen.G(hy, rng, max_depth=depth)
    counts, fails, samples = {}, {}, []
    distinct = set()
    nontrivial = 0
    for i in range(n):
        stream, tree = gen.case()
        head = str(tree[0]) if isinstance(tree, hy.models.Expression) and tree and isinstance(tree[0], hy.models.Symbol) else "(no head)"
        try:
            res = classify(hy, tree)
        except Exception as e:  # the oracle itself must not die
            res = ("violation", "oracle", type(e).__name__, str(e)[:200])
        counts["stream:" + stream] = counts.get("stream:" + stream, 0) + 1
        counts["head:" + head] = counts.get("head:" + head, 0) + 1
        counts["verdict:" + res[0]] = counts.get("verdict:" + res[0], 0) + 1
        if res[0] == "user-error":
            counts["user-error:%s:%s" % (res[1], res[2])] = counts.get("user-error:%s:%s" % (res[1], res[2]), 0) + 1
        text = render(hy, tree)
        h = hash(text)
        if h not in distinct:
            distinct.add(h)
            if len(gen.nodes(tree)) >= 2:
                nontrivial += 1
        if len(samples) < 2 and i % 97 == 5:
            samples.append({"stream": stream, "tree": text[:300], "outcome": res[0] + (":" + res[2] if res[2] else "")})
        if res[0] == "violation":
            k = key_of(res)
            ent = fails.setdefault(k, {"count": 0, "examples": []})
            ent["count"] += 1
            if len(ent["examples"]) < 2:
                try:
                    small = shrink(hy, gen, tree, k)
                except BaseException:
                    small = tree
                r2 = classify(hy, small)
                ent["examples"].append({"stream": stream, "tree": render(hy, small), "py": py_repr(small), "original": text[:400],
                                        "stage": r2[1] or res[1], "exc": r2[2] or res[2], "msg": (r2[3] or res[3])[-300:],
                                        "features": features(hy, small)})
    return {"counts": counts, "fails": fails, "samples": samples, "distinct": len(distinct), "nontrivial": nontrivial, "n": n}
