"""C03 -- Operator macros agree with hy.pyops functions and Python semantics."""
import ast
import copy
import itertools
import re

from lib import vlib
from props import ops_common as oc
from translator import ops_tables

META = {
    "technique": "Coq proofs over a model of the operator macro compilers, the pattern_macro wrapper and the hy.pyops "
                 "functions (their bodies regenerated from pyops.hy as terms of a small body language), for an abstract "
                 "interpretation of Python's operators; regenerated tables (m_ops/c_ops/a_ops, decorator arities, handler "
                 "constants, defop rows); AST-level and symbolic value-level differential runs; three-way differential "
                 "oracle (macro / hy.pyops function / documented Python expansion) on real values",
    "level_text": "Theorems in coq/Props/C03.v hold for every operator of the regenerated tables, every allowed arity with no "
                  "bound, every operand list and every interpretation of Python's binary, unary and comparison operators: "
                  "the macro's output is syntactically the documented Python expansion; arithmetic/bitwise/unary functions "
                  "equal the macros on all values (TypeError / syntax error outside the arities); comparison macros are "
                  "Python's chained comparison including which operands get evaluated; augmented assignment assigns the "
                  "table aggregator's expansion; calls containing #* expand to the hy.pyops call. Two full-strength "
                  "statements are REFUTED with witnesses that reproduce on the implementation: comparison functions "
                  "evaluate all comparisons before short-circuiting, and //= aggregates with * against the documentation.",
    "level_note": "Trusted: Coq kernel; translator/ops_tables.py (+ its s-expression reader); the hand-written model of "
                  "reduce/_foldr/comp-op/hy.pyops.and and of Python's evaluation of BinOp/UnaryOp/Compare/AugAssign "
                  "(tied by exact-text pinning of those definitions and by differential runs on symbolic operand objects); "
                  "CPython's operator module applying the named operator; statement lifting of operands that compile to "
                  "statements is C01's concern (operands here are expressions).",
}

TRUSTED = [
    "Coq 8.16.1 kernel (coqc, full .vo); vm_compute for the per-run table obligations; no native_compute",
    "axioms: none (Print Assumptions: Closed under the global context for every C03 theorem)",
    "translator/ops_tables.py + translator/ops_sexpr.py: tables, decorator arities, handler-body constants (each handler "
    "function matched against a template with holes), defop rows/lambda lists/bodies; _foldr, comp-op, the defop macro "
    "and hy.pyops.and pinned by exact text",
    "hand-written Gallina model Ops/Operators.v of the macro compilers, pattern_macro wrapper, functools.reduce, _foldr, "
    "comp-op, and of Python's evaluation of the emitted AST -- tied by AST-level and symbolic value-level differential "
    "execution on every run, not verified",
    "CPython: operator.add etc. apply the named operator; Python's grammar (** right-associative, comparison chains) "
    "validated by ast.parse of every documented row on every run",
]

OPS = ["+", "-", "*", "/", "//", "%", "**", "@", "<<", ">>", "&", "|", "^", "bnot", "not",
       "=", "!=", "<", "<=", ">", ">=", "is", "is-not", "in", "not-in"]
COMPARE = ["=", "!=", "<", "<=", ">", ">=", "is", "is-not", "in", "not-in"]
MATHS = ["+", "-", "*", "/", "//", "%", "**", "@", "<<", ">>", "&", "|", "^"]
IMPORTS = ["HyV.Ops.OpSyntax", "HyV.Gen.OpTables", "HyV.Ops.Operators", "HyV.Ops.OperatorsSym"]

BIN_AST = {"Add": "+", "Sub": "-", "Mult": "*", "Div": "/", "FloorDiv": "//", "Mod": "%", "Pow": "**", "LShift": "<<",
           "RShift": ">>", "BitOr": "|", "BitXor": "^", "BitAnd": "&", "MatMult": "@"}


class Batch:
    """collects Gallina expressions from several correspondences and evaluates them in ONE coq_eval; expressions
    added together have one type and are evaluated as lists of GROUP elements per Eval"""
    GROUP = 40

    def __init__(self):
        self.exprs, self.res = [], None

    def add(self, exprs):
        chunks = [exprs[i:i + self.GROUP] for i in range(0, len(exprs), self.GROUP)]
        start = len(self.exprs)
        self.exprs.extend(oc.coq_list(c) for c in chunks)
        return (start, len(self.exprs), len(exprs))

    def run(self):
        self.res = vlib.coq_eval(IMPORTS, "", self.exprs, tag="c03", shard=25)

    def get(self, span):
        out = []
        for r in self.res[span[0]:span[1]]:
            out.extend(oc.coq_parse(r))
        assert len(out) == span[2], (len(out), span)
        return out


# ------------------------------------------------------------------ AST canonicalisation

def canon_expr(node):
    """real ast -> the structure coq_parse gives for the model's pexpr nat"""
    if isinstance(node, ast.Name) and re.fullmatch(r"a\d+", node.id):
        return ("PLeaf", int(node.id[1:]))
    if isinstance(node, ast.Constant):
        v = node.value
        if v is True:
            return ("PConst", "KTrue")
        if v is False:
            return ("PConst", "KFalse")
        if v is None:
            return ("PConst", "KNone")
        if type(v) is int:
            return ("PConst", ("KInt", v))
    if isinstance(node, ast.UnaryOp):
        return ("PUn", type(node.op).__name__, canon_expr(node.operand))
    if isinstance(node, ast.BinOp):
        return ("PBin", canon_expr(node.left), type(node.op).__name__, canon_expr(node.right))
    if isinstance(node, ast.Compare):
        return ("PCmp", canon_expr(node.left),
                [("tuple", "C" + type(o).__name__, canon_expr(c)) for o, c in zip(node.ops, node.comparators)])
    raise ValueError("outside the operator fragment: " + ast.dump(node))


def hy_compile_one(hy, src):
    """-> ('ok', single statement node) | ('syntax', msg)"""
    from hy.compiler import hy_compile
    from hy.errors import HyLanguageError
    try:
        tree = hy_compile(hy.read_many(src), "__main__", import_stdlib=False)
    except HyLanguageError as e:
        return ("syntax", type(e).__name__)
    if len(tree.body) != 1:
        return ("other", ast.dump(tree))
    return ("ok", tree.body[0])


def ast_correspondence(chk, hy, max_n, batch):
    exprs, keys = [], []
    for name in OPS:
        for n in range(0, max_n + 1):
            exprs.append("(@compile_op nat %s (map PLeaf (seq 0 %d)))" % (oc.coq_string(name), n))
            keys.append(("op", name, n))
    for name in MATHS:
        for n in range(0, max_n):
            exprs.append("(@compile_aug nat %s 100 (map PLeaf (seq 0 %d)))" % (oc.coq_string(name + "="), n))
            keys.append(("aug", name + "=", n))
    n_op = sum(1 for k in keys if k[0] == "op")
    span1, span2 = batch.add(exprs[:n_op]), batch.add(exprs[n_op:])
    yield
    for (kind, name, n), model in zip(keys, batch.get(span1) + batch.get(span2)):
        if kind == "op":
            src = "(%s %s)" % (name, " ".join("a%d" % i for i in range(n)))
            st = hy_compile_one(hy, src)
            if st[0] == "ok" and isinstance(st[1], ast.Expr):
                try:
                    impl = ("Some", canon_expr(st[1].value))
                except ValueError as e:
                    impl = ("other", str(e))
            elif st[0] == "syntax":
                impl = "None"
            else:
                impl = st
        else:
            src = "(%s x %s)" % (name, " ".join("a%d" % i for i in range(n)))
            st = hy_compile_one(hy, src)
            if st[0] == "ok" and isinstance(st[1], ast.AugAssign) and isinstance(st[1].target, ast.Name):
                try:
                    impl = ("Some", ("PAug", 100, type(st[1].op).__name__, canon_expr(st[1].value)))
                except ValueError as e:
                    impl = ("other", str(e))
            elif st[0] == "syntax":
                impl = "None"
            else:
                impl = ("other", ast.dump(st[1]) if st[0] == "ok" else st)
        chk.count("ast-correspondence")
        if model != impl:
            chk.disagree("Ops.Operators.compile_op/compile_aug vs hy_compile (AST)", src, repr(model), repr(impl))


# ------------------------------------------------------------------ documentation rows

ROW = re.compile(r"^- ``\((\S+)((?: [^)`]+)?)\)`` → ``(.*)``$")


def runtime_doc(hy, name):
    """rows of the runtime docstring of hy.pyops.<name>: {'nullary','unary','binary','nary','agg'} (Python text)"""
    import hy.pyops
    f = getattr(hy.pyops, hy.mangle(name))
    doc = f.__doc__
    if doc is None:
        return None
    out = {"nullary": None, "unary": None, "binary": None, "nary": None, "agg": None}
    for line in doc.split("\n"):
        m = ROW.match(line)
        if m:
            if m.group(1) != name:
                raise ValueError("row for another operator in the docstring of " + name)
            params = m.group(2).strip()
            key = {"": "nullary", "x": "unary", "x y": "binary", "a1 a2 … an": "nary"}.get(params)
            if key is None:
                raise ValueError("unknown documentation row %r" % line)
            out[key] = m.group(3)
        m = re.match(r"^Aggregator for augmented assignment: :hy:func:`(\S+) <hy\.pyops\.(\S+)>`$", line)
        if m:
            out["agg"] = m.group(1)
    return out


def doc_python(rows, n):
    """the documented Python expansion for n operands a0..a(n-1) as Python source, or None"""
    names = ["a%d" % i for i in range(n)]
    sub = lambda text, mp: re.sub(r"\b(x|y)\b", lambda m: mp[m.group(1)], text)
    if n == 0:
        return rows["nullary"]
    if n == 1 and rows["unary"] is not None:
        return sub(rows["unary"], {"x": "a0", "y": "a0"})
    if n == 2 and rows["binary"] is not None:
        return sub(rows["binary"], {"x": "a0", "y": "a1"})
    if rows["nary"] is not None and n != 2:
        m = re.fullmatch(r"a1 (.+) a2 (.+) … (.+) an", rows["nary"])
        if not m or len({m.group(1), m.group(2), m.group(3)}) != 1:
            raise ValueError("unexpected n-ary row %r" % rows["nary"])
        return (" " + m.group(1) + " ").join(names)
    return None


def source_rows(raw):
    """the same rows computed from the source's documentation list (translator's reading of defop)"""
    p = raw["pyop"]
    return {"nullary": raw["nullary"], "unary": raw["unary"],
            "binary": ("x %s y" % p) if raw["binary"] else None,
            "nary": ("a1 %s a2 %s … %s an" % (p, p, p)) if raw["nary"] else None, "agg": raw["agg"]}


def doc_correspondence(chk, hy, tables, max_n, batch, docs):
    """(1) the translator's reading of each defop documentation list = the runtime docstring;
       (2) the model's doc_expansion = ast.parse of the documented Python text (Python's grammar)"""
    raws = {d[0]: d[5] for d in tables["defs"]}
    for name in OPS:
        src_rows = source_rows(raws[name])
        rt = runtime_doc(hy, name)
        if rt is None:
            chk.notes.append("hy.pyops.%s has no docstring (plain defn whose first body form is a list); its documented "
                             "expansion is taken from that list in the source" % name)
            rt = src_rows
        elif rt != src_rows:
            chk.disagree("translator's reading of the defop documentation list vs runtime docstring", name,
                         repr(src_rows), repr(rt))
        docs[name] = rt
    exprs, keys = [], []
    for name in OPS:
        for n in range(0, max_n + 1):
            exprs.append("(@doc_expansion nat %s (map PLeaf (seq 0 %d)))" % (oc.coq_string(name), n))
            keys.append((name, n))
    span = batch.add(exprs)
    yield
    for (name, n), model in zip(keys, batch.get(span)):
        py = doc_python(docs[name], n)
        if py is None:
            impl = "None"
        else:
            try:
                impl = ("Some", canon_expr(ast.parse(py, mode="eval").body))
            except (SyntaxError, ValueError) as e:
                impl = ("other", repr(e))
        chk.count("doc-correspondence")
        if model != impl:
            chk.disagree("Ops.Operators.doc_expansion vs ast.parse(documented row)", "%s/%d: %r" % (name, n, py),
                         repr(model), repr(impl))


# ------------------------------------------------------------------ symbolic operand objects

class SymErr(Exception):
    def __init__(self, idx):
        Exception.__init__(self, idx)
        self.idx = idx


class Cfg:
    def __init__(self, bad, falsy):
        self.bad, self.falsy = list(bad), list(falsy)


def K(v):
    """term of a Python value"""
    if isinstance(v, Sym):
        return v.t
    if v is True:
        return ("SConst", "KTrue")
    if v is False:
        return ("SConst", "KFalse")
    if v is None:
        return ("SConst", "KNone")
    if type(v) is int:
        return ("SConst", ("KInt", v))
    raise TypeError("not a symbolic value: %r" % (v,))


class Sym:
    __slots__ = ("t", "cfg")

    def __init__(self, t, cfg):
        self.t, self.cfg = t, cfg

    def _mk(self, t):
        if t in self.cfg.bad:
            raise SymErr(self.cfg.bad.index(t))
        return Sym(t, self.cfg)

    def __bool__(self):
        return self.t not in self.cfg.falsy

    __hash__ = object.__hash__

    def __contains__(self, item):
        return self._mk(("SCmp", "CIn", K(item), self.t))

    def __pos__(self):
        return self._mk(("SUn", "UAdd", self.t))

    def __neg__(self):
        return self._mk(("SUn", "USub", self.t))

    def __invert__(self):
        return self._mk(("SUn", "Invert", self.t))


def _install():
    for cls, dunder in (("Add", "add"), ("Sub", "sub"), ("Mult", "mul"), ("Div", "truediv"), ("FloorDiv", "floordiv"),
                        ("Mod", "mod"), ("Pow", "pow"), ("LShift", "lshift"), ("RShift", "rshift"), ("BitOr", "or"),
                        ("BitXor", "xor"), ("BitAnd", "and"), ("MatMult", "matmul")):
        def fwd(self, other, cls=cls):
            return self._mk(("SBin", cls, self.t, K(other)))

        def rev(self, other, cls=cls):
            return self._mk(("SBin", cls, K(other), self.t))
        setattr(Sym, "__%s__" % dunder, fwd)
        setattr(Sym, "__r%s__" % dunder, rev)
    for cls, dunder in (("CEq", "eq"), ("CNotEq", "ne"), ("CLt", "lt"), ("CLtE", "le"), ("CGt", "gt"), ("CGtE", "ge")):
        def cmp(self, other, cls=cls):
            return self._mk(("SCmp", cls, self.t, K(other)))
        setattr(Sym, "__%s__" % dunder, cmp)


_install()


def term_coq(t):
    if isinstance(t, tuple):
        return "(" + " ".join(term_coq(x) for x in t) + ")"
    if isinstance(t, int):
        return "(%d)%%Z" % t
    return t


def leaf_coq(t):
    # SLeaf takes a nat, KInt a Z
    if t[0] == "SLeaf":
        return "(SLeaf %d)" % t[1]
    if t[0] == "SConst":
        return "(SConst %s)" % (t[1] if isinstance(t[1], str) else "(KInt (%d)%%Z)" % t[1][1])
    return "(" + t[0] + " " + " ".join(x if isinstance(x, str) else leaf_coq(x) for x in t[1:]) + ")"


def outcome(f):
    try:
        r = f()
    except SymErr as e:
        return ("Exn", e.idx)
    except TypeError as e:
        return ("TypeError", str(e)[:80])
    return ("Val", K(r))


def candidate_terms(name, leaves):
    """terms that the documented expansion or a wrong fold / an eager evaluation would compute"""
    out = []
    n = len(leaves)
    if name in COMPARE:
        c = {"=": "CEq", "!=": "CNotEq", "<": "CLt", "<=": "CLtE", ">": "CGt", ">=": "CGtE",
             "in": "CIn", "not-in": "CIn"}.get(name)
        if c:
            for i in range(n - 1):
                out.append(("SCmp", c, leaves[i], leaves[i + 1]))
    elif name in MATHS and n >= 2:
        cls = {v: k for k, v in BIN_AST.items()}[name]
        acc = leaves[0]
        for x in leaves[1:]:
            acc = ("SBin", cls, acc, x)
            out.append(acc)
        acc = leaves[-1]
        for x in reversed(leaves[:-1]):
            acc = ("SBin", cls, x, acc)
            out.append(acc)
    elif n == 1:
        out.append(("SUn", "UAdd", leaves[0]))
        out.append(("SUn", "USub", leaves[0]))
        out.append(("SUn", "Invert", leaves[0]))
        out.append(("SBin", "Div", ("SConst", ("KInt", 1)), leaves[0]))
    return out


class Compiled:
    """Hy functions (fn [a0 .. an-1] (NAME a0 .. an-1)) compiled once per name and arity"""

    def __init__(self, hy):
        self.hy, self.cache = hy, {}
        import types
        self.mod = types.ModuleType("c03_scratch")

    def fn(self, name, n, star=None):
        key = (name, n, star)
        if key not in self.cache:
            from hy.errors import HyLanguageError
            params = " ".join("a%d" % i for i in range(n))
            args = " ".join(("#* a%d" % i) if (star is not None and i in star) else "a%d" % i for i in range(n))
            src = "(fn [%s] (%s %s))" % (params, name, args)
            try:
                self.cache[key] = ("ok", self.hy.eval(self.hy.read(src), module=self.mod))
            except HyLanguageError as e:
                self.cache[key] = ("syntax", type(e).__name__)
        return self.cache[key]

    def aug(self, name, n):
        key = ("aug", name, n)
        if key not in self.cache:
            from hy.errors import HyLanguageError
            params = " ".join("a%d" % i for i in range(n))
            src = "(fn [x %s] (%s x %s) x)" % (params, name, params)
            try:
                self.cache[key] = ("ok", self.hy.eval(self.hy.read(src), module=self.mod))
            except HyLanguageError as e:
                self.cache[key] = ("syntax", type(e).__name__)
        return self.cache[key]


def sym_runs(chk, hy, comp, docs, max_n, per, batch):
    """symbolic values: model = implementation (macro and function), and the oracle macro = function = documented"""
    import hy.pyops
    rng = chk.rng
    cases = []
    for name in OPS:
        for n in range(0, max_n + 1):
            for k in range(per):
                # operand leaves, sometimes with a repeated object
                ids = list(range(n))
                if n >= 2 and rng.random() < 0.2:
                    ids[rng.randrange(n)] = ids[rng.randrange(n)]
                leaves = [("SLeaf", i) for i in ids]
                cands = candidate_terms(name, leaves) + leaves
                bad, falsy = [], []
                if k > 0 and cands:
                    for t in cands:
                        r = rng.random()
                        if r < 0.18 and t[0] != "SLeaf":
                            bad.append(t)
                        elif r < 0.5:
                            falsy.append(t)
                cases.append((name, n, leaves, bad, falsy))
    exprs = []
    for name, n, leaves, bad, falsy in cases:
        b = oc.coq_list([leaf_coq(t) for t in bad])
        f = oc.coq_list([leaf_coq(t) for t in falsy])
        v = oc.coq_list([leaf_coq(t) for t in leaves])
        for fn in ("sym_macro", "sym_call", "sym_doc"):
            exprs.append("(%s %s %s %s %s)" % (fn, b, f, oc.coq_string(name), v))
    span = batch.add(exprs)
    yield
    res = batch.get(span)
    for idx, (name, n, leaves, bad, falsy) in enumerate(cases):
        m_macro, m_call, m_doc = (res[3 * idx + j] for j in range(3))
        cfg = Cfg(bad, falsy)
        objs = {}
        args = []
        for t in leaves:
            if t not in objs:
                objs[t] = Sym(t, cfg)
            args.append(objs[t])
        st = comp.fn(name, n)
        i_macro = "Stuck" if st[0] == "syntax" else outcome(lambda: st[1](*args))
        f = getattr(hy.pyops, hy.mangle(name))
        i_call = outcome(lambda: f(*args))
        py = doc_python(docs[name], n)
        if py is None:
            i_doc = "Stuck"
        else:
            code = compile(py, "<doc>", "eval")
            env = {"a%d" % i: a for i, a in enumerate(args)}
            i_doc = outcome(lambda: eval(code, {}, env))
        if i_call[0] == "TypeError":
            i_call = ("Exn", 999) if re.search(r"argument|positional", i_call[1]) else i_call
        desc = {"op": name, "operands": [leaf_coq(t) for t in leaves], "raising": [leaf_coq(t) for t in bad],
                "falsy": [leaf_coq(t) for t in falsy]}
        chk.count("symbolic:" + ("compare" if name in COMPARE else "maths" if name in MATHS else "unary"))
        for what, m, i in (("macro", m_macro, i_macro), ("hy.pyops function", m_call, i_call),
                           ("documented expansion", m_doc, i_doc)):
            if m != i:
                chk.disagree("symbolic operands: model vs implementation, " + what, desc, repr(m), repr(i))
        allowed = i_macro != "Stuck"
        chk.case(("sym", name, n, tuple(bad), tuple(falsy)), nontrivial=allowed and n >= 2,
                 sample={"op": name, "n": n, "macro": repr(i_macro)} if idx % 397 == 5 else None)
        if not allowed:
            chk.count("symbolic:arity-not-allowed")
            continue
        if i_doc != "Stuck" and i_macro != i_doc:
            chk.fail("macro-vs-doc", desc, repr(i_macro), repr(i_doc), "symbolic operands, see props/c03.py:Sym")
        if i_macro != i_call:
            if name in COMPARE and n >= 3 and i_macro[0] == "Val" and i_call[0] == "Exn" and i_call[1] != 999 \
                    and i_macro == i_doc:
                # the exception is that of a LATER pair than the one whose falsy result the chain returned
                pairs = candidate_terms(name, leaves)
                exc_term = bad[i_call[1]] if i_call[1] < len(bad) else None
                j = pairs.index(exc_term) if exc_term in pairs else None
                earlier_falsy = j is not None and any(
                    (pairs[k] in falsy) != (name == "not-in") and pairs[k] not in bad for k in range(j))
                if earlier_falsy:
                    desc = dict(desc, **{"class": "comparison-function-evaluates-all-pairs",
                                         "macro": repr(i_macro), "function": repr(i_call)})
            chk.fail("macro-vs-pyops", desc, repr(i_call), repr(i_macro), "symbolic operands, see props/c03.py:Sym")


# ------------------------------------------------------------------ real values

def canon_val(v):
    if isinstance(v, float):
        return ("float", v.hex())
    if isinstance(v, (set, frozenset)):
        return (type(v).__name__, tuple(sorted(repr(canon_val(x)) for x in v)))
    if isinstance(v, (list, tuple)):
        return (type(v).__name__, tuple(canon_val(x) for x in v))
    if isinstance(v, complex):
        return ("complex", v.real.hex(), v.imag.hex())
    return (type(v).__name__, repr(v))


def run3(f):
    try:
        return ("value", canon_val(f()))
    except Exception as e:       # the property compares exception TYPES
        return ("raises", type(e).__name__)


INTS = [0, 1, -1, 2, 3, 7, -5]
POOLS = {
    "int": INTS, "bigint": [10 ** 20, -10 ** 20, 1, 0, 3], "bool": [True, False],
    "float": [0.0, 1.5, -2.0, float("inf"), float("nan"), 0.5], "str": ["", "a", "ab", "%s"],
    "list": [[], [1], [1, 2], ["a"]], "set": [set(), {1}, {1, 2}, {2, 3}],
}
SMALL = {"int": [0, 1, -1], "bool": [True, False], "float": [0.5, 1.0, -1.0], "str": ["", "a"], "list": [[], [1]],
         "set": [set(), {1}]}


def value_tuples(chk, name, n, count):
    """operand tuples: homogeneous by kind, numeric mixes, type-clashing mixes"""
    rng = chk.rng
    danger = name in ("**",) and n >= 3
    pools = SMALL if (name == "**" and n >= 4) else POOLS
    kinds = [k for k in pools if not (k == "bigint" and name in ("**", "<<", ">>", "*", "@"))]
    out = []
    for _ in range(count):
        r = rng.random()
        if r < 0.45:
            k = rng.choice(kinds)
            tup = [rng.choice(pools[k]) for _ in range(n)]
            bucket = "homogeneous:" + k
        elif r < 0.75:
            ks = [k for k in kinds if k in ("int", "bool", "float", "bigint")]
            tup = [rng.choice(pools[rng.choice(ks)]) for _ in range(n)]
            bucket = "numeric-mix"
        else:
            tup = [rng.choice(pools[rng.choice(kinds)]) for _ in range(n)]
            bucket = "clashing-mix"
        if danger:
            tup = [x if not (type(x) is int and abs(x) > 3) else 2 for x in tup]
        if name == "**" and n >= 3 and sum(1 for x in tup if type(x) is int and abs(x) >= 2) > 3:
            continue
        if name in ("in", "not-in") and rng.random() < 0.6 and n >= 2:
            # containers on the right make membership meaningful
            tup = [rng.choice([1, "a", 2]) if i == 0 else rng.choice([[1], "ab", {1, 2}, [[1]], 5]) for i in range(n)]
            bucket = "membership"
        out.append((bucket, tup))
    return out


def eager_pairs(name, vals):
    """independent evaluation of every comparison of consecutive operands (what an eager function would do)"""
    import operator
    f = {"=": operator.eq, "!=": operator.ne, "<": operator.lt, "<=": operator.le, ">": operator.gt, ">=": operator.ge,
         "is": operator.is_, "is-not": operator.is_not, "in": lambda a, b: a in b, "not-in": lambda a, b: a not in b}[name]
    res = []
    for a, b in zip(vals, vals[1:]):
        try:
            res.append(("value", bool(f(a, b))))
        except Exception as e:
            res.append(("raises", type(e).__name__))
    return res


def real_runs(chk, hy, comp, docs, max_n, per):
    import hy.pyops
    for name in OPS:
        f = getattr(hy.pyops, hy.mangle(name))
        for n in range(0, max_n + 1):
            st = comp.fn(name, n)
            if st[0] == "syntax":
                chk.count("real:arity-not-allowed")
                continue
            py = doc_python(docs[name], n)
            code = compile(py, "<doc>", "eval") if py is not None else None
            if code is None:
                chk.count("real:no-documented-row")
            tuples = value_tuples(chk, name, n, per if n else 1)
            for bucket, tup in tuples:
                a1, a2, a3 = copy.deepcopy(tup), copy.deepcopy(tup), copy.deepcopy(tup)
                if name in ("is", "is-not"):
                    a2 = a3 = a1          # identity is a property of the operand objects themselves
                r_macro = run3(lambda: st[1](*a1))
                r_fn = run3(lambda: f(*a2))
                r_doc = run3(lambda: eval(code, {}, {"a%d" % i: v for i, v in enumerate(a3)})) if code else None
                chk.count("real:" + bucket)
                chk.count("real-outcome:" + r_macro[0])
                desc = {"op": name, "operands": [repr(v) for v in tup]}
                chk.case(("real", name, repr(tup)), nontrivial=n >= 2 or r_macro[0] == "raises",
                         sample={"form": "(%s %s)" % (name, " ".join(repr(v) for v in tup)), "macro": repr(r_macro)}
                         if chk.evaluations % 1499 == 3 else None)
                how = ("PYTHONPATH=%s python -c 'import hy; print(hy.eval(hy.read(%r)))' and hy.pyops.%s(...)"
                       % (vlib.REPO, "(%s %s)" % (name, " ".join(hy.repr(v) for v in tup)), hy.mangle(name)))
                if r_doc is not None and r_macro != r_doc:
                    chk.fail("macro-vs-doc", dict(desc, python=py), repr(r_macro), repr(r_doc), how)
                if r_macro != r_fn:
                    if name in COMPARE and n >= 3 and r_macro[0] == "value" and r_fn[0] == "raises":
                        ep = eager_pairs(name, tup)
                        first_falsy = next((i for i, x in enumerate(ep) if x == ("value", False)), None)
                        first_exc = next((i for i, x in enumerate(ep) if x[0] == "raises"), None)
                        if first_falsy is not None and first_exc is not None and first_falsy < first_exc \
                                and ep[first_exc][1] == r_fn[1] and r_macro == r_doc:
                            desc = dict(desc, **{"class": "comparison-function-evaluates-all-pairs",
                                                 "macro": repr(r_macro), "function": repr(r_fn)})
                    chk.fail("macro-vs-pyops", desc, repr(r_fn), repr(r_macro), how)


LIT_INTS = [0, 1, 2, 3, 60, 24, -1, 7]
LIT_FLOATS = [0.1, 1e16, 0.5, 1.5, 0.3, 1e-3]


def literal_runs(chk, hy, comp, docs, per):
    """operands written as LITERALS in the form (the other runs pass them as variables): the macro must still be
    the documented left fold, whatever the compiler does with constants.  Mixed int / float literals and
    variables, 2-5 operands"""
    import hy.pyops
    rng = chk.rng
    for name in ["+", "*", "-", "/", "//", "%", "**", "&", "|", "^", "<<", ">>"]:
        f = getattr(hy.pyops, hy.mangle(name))
        fixed = {"*": [[0.1, 3, 3], [0.3, 3, 3, 7], [1e-3, 7, 3]], "+": [[1e16, 1, 1], [0.1, 1, 2, 3], [1e16, 1, 1, 1, 1]]}.get(name, [])
        for k in range(per):
            n = rng.choice([2, 3, 3, 4, 4, 5])
            preset = fixed[k] if k < len(fixed) else None
            if preset:
                n = len(preset)
            if comp.fn(name, n)[0] == "syntax":
                n = 2                      # the operator does not take that many operands
                if comp.fn(name, n)[0] == "syntax":
                    continue
            vals, parts, env = [], [], {}
            ints_only = name in ("&", "|", "^", "<<", ">>")
            for i in range(n):
                v = rng.choice(LIT_INTS if ints_only or rng.random() < 0.6 else LIT_FLOATS)
                if name == "**" and i > 0:
                    v = rng.choice([0, 1, 2, 0.5])
                if name in ("<<", ">>") and i > 0:
                    v = rng.choice([0, 1, 2, 3])
                if preset:
                    v = preset[i]
                vals.append(v)
                if not preset and rng.random() < 0.25:
                    env["lit_v%d" % i] = v
                    parts.append("lit-v%d" % i)
                else:
                    parts.append(hy.repr(v))
            src = "(%s %s)" % (name, " ".join(parts))
            py = doc_python(docs[name], n)
            code = compile(py, "<doc>", "eval") if py is not None else None
            r_macro = run3(lambda: hy.eval(hy.read(src), dict(env)))
            r_fn = run3(lambda: f(*vals))
            r_doc = run3(lambda: eval(code, {}, {"a%d" % i: v for i, v in enumerate(vals)})) if code else None
            chk.count("literal-operands:" + name)
            chk.case(("lit", src, repr(sorted(env.items()))), nontrivial=True,
                     sample={"form": src, "macro": repr(r_macro)} if k == 0 and name in ("+", "*") else None)
            desc = {"form": src, "variables": env, "operands": [repr(v) for v in vals]}
            how = "PYTHONPATH=%s python -c 'import hy; print(hy.eval(hy.read(%r), %r))' vs hy.pyops.%s(*operands)" % (
                vlib.REPO, src, env, hy.mangle(name))
            if r_doc is not None and r_macro != r_doc:
                chk.fail("literal-macro-vs-doc", dict(desc, python=py), repr(r_macro), repr(r_doc), how)
            if r_macro != r_fn:
                chk.fail("literal-macro-vs-pyops", desc, repr(r_fn), repr(r_macro), how)


def aug_runs(chk, hy, comp, docs, max_n, per):
    """(op= x v1 .. vn) against  x op= (v1 AGG v2 ... AGG vn)  with the DOCUMENTED aggregator"""
    for name in MATHS:
        rows = docs[name]
        agg = rows["agg"] or name
        for n in range(1, max_n):
            st = comp.aug(name + "=", n)
            if n >= 2 and rows["nary"] is None:
                chk.count("aug:operator-documented-as-binary-only")
                if st[0] != "syntax":
                    chk.fail("augassign-arity", {"op": name + "=", "values": n}, "accepted",
                             "syntax error: the parent operator takes two arguments only")
                continue
            if st[0] == "syntax":
                chk.fail("augassign-arity", {"op": name + "=", "values": n}, "syntax error", "accepted")
                continue
            py_val = "a0" if n == 1 else doc_python(docs[agg], n)
            pyop = BIN_AST[{v: k for k, v in BIN_AST.items()}[name]] if False else name
            src = "def f(x, %s):\n    x %s= (%s)\n    return x\n" % (", ".join("a%d" % i for i in range(n)), name, py_val)
            env = {}
            exec(compile(src, "<aug>", "exec"), env)
            ref = env["f"]
            mult = "def g(x, %s):\n    x %s= (%s)\n    return x\n" % (
                ", ".join("a%d" % i for i in range(n)), name, " * ".join("a%d" % i for i in range(n)))
            exec(compile(mult, "<aug>", "exec"), env)
            for bucket, tup in value_tuples(chk, name, n + 1, per):
                t1, t2, t3 = copy.deepcopy(tup), copy.deepcopy(tup), copy.deepcopy(tup)
                r_macro = run3(lambda: st[1](*t1))
                r_ref = run3(lambda: ref(*t2))
                chk.count("aug:" + bucket)
                chk.case(("aug", name, repr(tup)), nontrivial=n >= 2)
                if r_macro != r_ref:
                    desc = {"op": name + "=", "x": repr(tup[0]), "values": [repr(v) for v in tup[1:]],
                            "documented_aggregator": agg}
                    if name == "//" and n >= 2 and r_macro == run3(lambda: env["g"](*t3)):
                        desc["class"] = "floordiv-assign-aggregates-with-mult"
                    chk.fail("augassign-agg", desc, repr(r_macro), repr(r_ref),
                             "(%s= x ...) vs Python: x %s= (%s)" % (name, name, py_val))


def shadow_runs(chk, hy, comp, max_n, per):
    """a macro call containing #* : expands to the hy.pyops call, and evaluates like it"""
    import hy.pyops
    rng = chk.rng
    for name in OPS:
        f = getattr(hy.pyops, hy.mangle(name))
        for n in range(1, max_n):
            star = frozenset(i for i in range(n) if rng.random() < 0.5) or frozenset([rng.randrange(n)])
            args = " ".join(("#* a%d" % i) if i in star else "a%d" % i for i in range(n))
            form = hy.read("(%s %s)" % (name, args))
            exp = hy.macroexpand_1(form)
            want = hy.read("((. hy pyops %s) %s)" % (name, args))
            chk.count("shadow:expansion")
            chk.case(("shadow-exp", name, args), nontrivial=True)
            if exp != want:
                chk.fail("shadow-expansion", {"form": hy.repr(form)}, hy.repr(exp), hy.repr(want),
                         "hy.macroexpand_1 of the form")
            # the model's wrapper on the same argument shapes
            st = comp.fn(name, n, star)
            if st[0] != "ok":
                chk.fail("shadow-compiles", {"form": hy.repr(form)}, st[1], "compiles")
                continue
            for _ in range(per):
                vals = []
                for i in range(n):
                    if i in star:
                        vals.append([rng.choice(INTS + [1.5, "a", [1], {1}]) for _ in range(rng.randrange(0, 3))])
                    else:
                        vals.append(rng.choice(INTS + [1.5, "a", [1], {1}]))
                flat = []
                for i, v in enumerate(vals):
                    flat.extend(v if i in star else [v])
                if name == "**" and len(flat) > 3:
                    flat = None
                if flat is None:
                    continue
                v1, v2 = copy.deepcopy(vals), copy.deepcopy(flat)
                r_m = run3(lambda: st[1](*v1))
                r_f = run3(lambda: f(*v2))
                chk.count("shadow:value")
                chk.case(("shadow", name, repr(vals)), nontrivial=True)
                if r_m != r_f:
                    chk.fail("shadow-value", {"form": hy.repr(form), "values": repr(vals)}, repr(r_m), repr(r_f),
                             "macro call with #* vs hy.pyops.%s(*flattened)" % hy.mangle(name))


def shadow_model(chk, hy, max_n, batch):
    """model's wrapper vs hy.macroexpand_1 for every operator and every position of the unpacking"""
    exprs, keys = [], []
    for name in OPS:
        for n in range(1, max_n):
            for pos in range(n):
                items = ["(FExpr [FSym \"unpack-iterable\"; FOperand %d])" % i if i == pos else "(FOperand %d)" % i
                         for i in range(n)]
                exprs.append("(expand_macro %s %s)" % (oc.coq_string(name), oc.coq_list(items)))
                keys.append((name, n, pos))
    span = batch.add(exprs)
    yield

    def form_of(x):
        from hy.models import Expression, Symbol
        if isinstance(x, Expression):
            return ("FExpr", [form_of(y) for y in x])
        if isinstance(x, Symbol):
            s = str(x)
            m = re.fullmatch(r"a(\d+)", s)
            return ("FOperand", int(m.group(1))) if m else ("FSym", ("str", s))
        raise ValueError(repr(x))
    for (name, n, pos), model in zip(keys, batch.get(span)):
        args = " ".join(("#* a%d" % i) if i == pos else "a%d" % i for i in range(n))
        exp = hy.macroexpand_1(hy.read("(%s %s)" % (name, args)))
        impl = ("Some", ("ExpandTo", form_of(exp)))
        chk.count("shadow:model-correspondence")
        if model != impl:
            chk.disagree("Ops.Operators.expand_macro vs hy.macroexpand_1", "(%s %s)" % (name, args), repr(model), repr(impl))


# ------------------------------------------------------------------ known findings

def m_compare_eager(rec, params):
    i = rec.get("input", {})
    return rec.get("key") == "macro-vs-pyops" and isinstance(i, dict) \
        and i.get("class") == "comparison-function-evaluates-all-pairs" and i.get("op") in COMPARE \
        and len(i.get("operands", [])) >= 3


def m_floordiv_agg(rec, params):
    i = rec.get("input", {})
    return rec.get("key") == "augassign-agg" and isinstance(i, dict) and i.get("op") == "//=" \
        and i.get("class") == "floordiv-assign-aggregates-with-mult" and len(i.get("values", [])) >= 2


def m_unary_dropped(rec, params):
    i = rec.get("input", {})
    return rec.get("key") == "operand-evaluation" and isinstance(i, dict) \
        and i.get("class") == "unary-comparison-operand-dropped" and i.get("op") in COMPARE and i.get("arity") == 1 \
        and i.get("macro_evaluations") == [0] and i.get("function_evaluations") == [1]


def evaluation_runs(chk, hy, comp, max_n):
    """operands with an observable evaluation: the macro form and the call of the hy.pyops function must evaluate
    every operand the same number of times when no comparison short-circuits (all results truthy here)"""
    import types
    for name in OPS:
        for n in range(1, min(max_n, 3) + 1):
            if comp.fn(name, n)[0] == "syntax":
                continue
            vals = {"in": ["a", "ab", ["ab"]], "not-in": [1, [2], [[3]]], "is": [None] * 3, "is-not": [1, "a", 2.5],
                    "!=": [1, 2, 3], "<": [1, 2, 3], "<=": [1, 2, 3], ">": [3, 2, 1], ">=": [3, 2, 1], "=": [1, 1, 1],
                    "not": [0], "bnot": [1], "**": [2, 1, 1], "@": [None] * 3}.get(name, [6, 2, 1])
            if name == "@" and n > 1:
                continue
            outs = []
            for head in (name, "hy.pyops." + name):
                mod = types.ModuleType("c03_eval")
                mod.log = []

                def ev(i, log=mod.log):
                    log.append(i)
                    return vals[i]
                mod.ev = ev
                # each operand is ONE call expression (a form compiling to statements would keep its statements)
                args = " ".join("(ev %d)" % i for i in range(n))
                r = run3(lambda: hy.eval(hy.read("(%s %s)" % (head, args)), module=mod))
                outs.append((r, [mod.log.count(i) for i in range(n)]))
            chk.count("operand-evaluation")
            chk.case(("evalcount", name, n), nontrivial=True)
            (r_m, c_m), (r_f, c_f) = outs
            if r_m != r_f or c_m != c_f:
                desc = {"op": name, "arity": n, "form": "(%s (ev 0) ...) with ev logging its calls" % name,
                        "macro_result": repr(r_m), "function_result": repr(r_f),
                        "macro_evaluations": c_m, "function_evaluations": c_f}
                if name in COMPARE and n == 1 and r_m == r_f:
                    desc["class"] = "unary-comparison-operand-dropped"
                chk.fail("operand-evaluation", desc, repr((r_m, c_m)), repr((r_f, c_f)),
                         "(%s (do (print 1) 5)) prints nothing, (hy.pyops.%s (do (print 1) 5)) prints 1" % (name, name))


def smoke(chk, hy, comp):
    """the two observations of DESIGN section 10, replayed literally"""
    import hy.pyops
    st = comp.fn("<", 3)
    r_m = run3(lambda: st[1](2, 1, "a"))
    r_f = run3(lambda: getattr(hy.pyops, hy.mangle("<"))(2, 1, "a"))
    chk.notes.append("(< 2 1 \"a\") -> %r ; (hy.pyops.< 2 1 \"a\") -> %r" % (r_m, r_f))
    st = comp.aug("//=", 2)
    chk.notes.append("(//= x 2 5) with x=100 -> %r ; documented x //= (2 // 5) -> %r" % (
        run3(lambda: st[1](100, 2, 5)), run3(lambda: 100 // (2 // 5))))


def run(chk):
    chk.trusted = TRUSTED
    chk.assumptions = [
        "operands are values (the property's quantifier); operand forms that compile to statements are C01's subject",
        "an operator's 'documented Python expansion' is the row of the hy.pyops docstring for that arity (nullary, unary, "
        "binary, n-ary template instantiated); where there is no unary row the n-ary template with n=1 (the operand)",
        "(= x) with one operand compiles to True without evaluating x (the function evaluates it): invisible for "
        "operand values; checked with operands that log their evaluation and recorded as a known finding (the pinned "
        "test suite relies on it, so it is not repaired)",
        "exceptions are compared by type, results by type and repr (floats by hex, sets order-free)",
    ]
    chk.matchers["c03_compare_eager"] = m_compare_eager
    chk.matchers["c03_floordiv_agg"] = m_floordiv_agg
    chk.matchers["c03_unary_dropped"] = m_unary_dropped
    proved = chk.prove("Props/C03.v", ["Props/C03.vo", "Ops/OperatorsSym.vo"], [ops_tables.translate])
    thorough = chk.tier == "thorough"
    hy = vlib.use_repo_in_process()
    comp = Compiled(hy)
    max_n = 8 if thorough else 6
    chk.rule = ("all 25 operators x arities 0..%d: (1) AST of the macro call vs model; (2) documented rows vs model and vs "
                "ast.parse; (3) symbolic operand objects with seeded raising/falsy sub-results: model = implementation "
                "for macro, function and documented expansion, and macro = function = documented; (4) real operand tuples "
                "(ints, big ints, bools, floats incl. inf/nan, strings, lists, sets; homogeneous, numeric mixes, clashing "
                "mixes raising TypeError/ZeroDivisionError): macro = hy.pyops function = documented Python; (5) augmented "
                "assignment vs Python with the documented aggregator; (6) calls containing #*. Non-trivial = arity >= 2 or "
                "an exception outcome" % max_n)
    try:
        tables = ops_tables.read_tables(vlib.REPO)
    except Exception as e:
        tables = None
        chk.notes.append("translator failed (%s); model correspondences skipped, oracles still run" % e)
    model_ok = proved or all(o[1] for o in chk.obligations if o[0].startswith("coq cone"))
    docs = {}
    if tables is not None and model_ok:
        batch = Batch()
        phases = [ast_correspondence(chk, hy, max_n, batch),
                  doc_correspondence(chk, hy, tables, max_n, batch, docs),
                  shadow_model(chk, hy, 5, batch),
                  sym_runs(chk, hy, comp, docs, max_n, 14 if thorough else 5, batch)]
        try:
            for ph in phases:
                next(ph)                     # collect the Gallina expressions
            batch.run()
            for ph in phases:
                for _ in ph:                 # judge
                    pass
        except RuntimeError as e:
            chk.obligation("model evaluates (coq_eval)", False, str(e)[-1500:])
    for name in OPS:
        if name not in docs:
            rt = runtime_doc(hy, name)
            docs[name] = rt or {"nullary": None, "unary": "not x", "binary": None, "nary": None, "agg": None}
    real_runs(chk, hy, comp, docs, max_n, 400 if thorough else 36)
    literal_runs(chk, hy, comp, docs, 1500 if thorough else 150)
    aug_runs(chk, hy, comp, docs, max_n, 120 if thorough else 14)
    shadow_runs(chk, hy, comp, 6 if thorough else 5, 12 if thorough else 3)
    evaluation_runs(chk, hy, comp, max_n)
    smoke(chk, hy, comp)
    from hy.reader.mangling import mangle
    chk.obligation("mangle is injective on the comparison operator names (c_ops is re-keyed by mangle)",
                   len({mangle(k) for k in COMPARE}) == len(COMPARE))


def replay(path):
    """re-run the check that produced the replay file (the failing input is regenerated from the same seed)"""
    import json
    rec = json.load(open(path))
    print("replaying", rec.get("kind"), rec.get("key"), json.dumps(rec.get("input"))[:300])
    chk = vlib.Check("C03", "quick", 0)
    run(chk)
    return chk.finish()
