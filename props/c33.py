"""C33 -- hy.unmangle inverts hy.mangle up to mangling."""
import re
import unicodedata

from lib import vlib
from props import mangle_common as mc
from translator import mangle_tables

META = {
    "technique": "Coq proof (escape-grammar inversion, any name length, any Unicode oracle meeting stated hypotheses) "
                 "over line-by-line models of mangle()/unmangle(); refutation witnesses for the excluded classes; "
                 "extracted-model differential run; property oracle on code points in context",
    "level_text": "C33_unmangle_inverts_mangle_partial (coq/Props/C33.v): for every dot-free name of any length whose "
                  "hyphen-converted body does not start with hyx_ and whose escaped form NFKC leaves unchanged, "
                  "unmangle(mangle s) succeeds and re-mangles to mangle s; the three excluded classes are refuted on "
                  "the model (C33_*_refuted) and reproduced on the real code as known findings. Both models are "
                  "compared with the real functions on every run; the property itself is evaluated on the real "
                  "functions for every generated name (thorough: every code point in 7 contexts).",
    "level_note": "Trusted: Coq kernel; unicode_facts hypotheses (validated per code point / sampled on strings); "
                  "translator/mangle_tables.py; extraction (ExtrOcamlBasic) + OCaml driver + harness; the algorithms of "
                  "mangle()/unmangle() (incl. the regex, modelled as a left-to-right scanner, and int(_,16)) are "
                  "hand models tied by differential execution, not verified.",
}

TRUSTED = [
    "Coq 8.16.1 kernel (coqc, full .vo); vm_compute for finite ASCII sweeps, regenerated-constant obligations and the refutation witnesses",
    "axioms: none (Print Assumptions: Closed under the global context)",
    "oracle hypotheses Mangle/Facts.v:unicode_facts (names alphabet, lookup(name(c)) = c, NFKC facts) validated against the interpreter",
    "translator/mangle_tables.py",
    "hand-written models Mangle/Model.v of mangle() and unmangle() (regex X(U)?([_a-z0-9H]+?)X as a scanner; "
    "re.fullmatch affix split; int(text,16) grammar incl. 0x prefix), tied by differential execution",
]


def lookup_chars(s):
    """characters whose names unmangle might look up in s (so the model's table knows them)"""
    out = set()
    parts = s.split("X")
    for p in parts:
        try:
            out.add(unicodedata.lookup(p.replace("_", " ").replace("H", "-").upper()))
        except (KeyError, ValueError):
            pass
    return "".join(out)


def lookup_names(s):
    """the names unmangle might look up in s, as the model forms them (the text between two X, _ -> space, H -> -),
    in the case the implementation passes to unicodedata.lookup"""
    out = set()
    parts = s.split("X")
    for i in range(len(parts)):
        for j in range(i, min(i + 3, len(parts))):
            p = "X".join(parts[i:j + 1])
            out.add(p.replace("_", " ").replace("H", "-"))
            out.add(p.replace("_", " ").replace("H", "-").upper())
    return out


def impl_unmangle(unmangle, m):
    try:
        return ("OK", unmangle(m))
    except KeyError:
        return ("ERR", "KeyError")
    except (ValueError, OverflowError):
        return ("ERR", "ValueError")
    except Exception as e:
        return ("ERR", type(e).__name__)


def _chunk(job):
    """one block of names: unmangle correspondence on the real mangle outputs + the property on the real functions"""
    import subprocess
    binary, cls, chunk, kinds, base = job
    vlib.use_repo_in_process()
    from hy.reader.mangling import mangle, unmangle
    dis, fails, counts, cases = [], [], {}, []

    def count(k):
        counts[k] = counts.get(k, 0) + 1
    mangled = []
    for s in chunk:
        try:
            mangled.append(mangle(s))
        except Exception:
            mangled.append(None)
    # the escaped-but-not-yet-normalised name, from the model (content of the tagged region)
    pres = []
    praw = subprocess.run([binary], input="".join(
        "mangle\t%s\t%s\n" % (mc.cps(s), mc.table_for(s)) for s in chunk), capture_output=True, text=True).stdout.splitlines()
    for l in praw:
        nums = [int(x) for x in l[3:].split(",")] if len(l) > 3 else []
        pres.append("".join(chr(n) for n in nums if n < mc.T0) if nums.count(mc.T0) == 1 else None)
    todo = [(j, m) for j, m in enumerate(mangled) if m is not None]
    lines = "".join("unmangle\t%s\t%s\n" % (mc.cps(m), mc.table_for(m + lookup_chars(m), lookup_names(m))) for _, m in todo)
    out = subprocess.run([binary], input=lines, capture_output=True, text=True).stdout.splitlines()
    for (j, m), l in zip(todo, out):
        kind, _, rest = l.partition(" ")
        mo = ("OK", "".join(chr(int(x)) for x in rest.split(",")) if rest else "") if kind == "OK" else ("ERR", rest)
        io = impl_unmangle(unmangle, m)
        if mo != io and len(dis) < 50:
            dis.append(("Mangle.Model.unmangle vs hy.reader.mangling.unmangle", m, mo, io))
    for j, s in enumerate(chunk):
        m = mangled[j]
        in_scope = not s.lstrip(cls).startswith("hyx_")
        count("kind:" + kinds[j])
        count("in-scope" if in_scope else "out-of-scope(hyx_ prefix)")
        if m is None or not in_scope:
            cases.append((s, False, None))
            continue
        cases.append((s, "hyx_" in m, {"name": s, "mangled": m} if (base + j) % 7919 == 11 else None))
        inp = {"name": s, "codepoints": [hex(ord(c)) for c in s], "pre": pres[j]}
        how = "PYTHONPATH=%s python -c 'import hy; m=hy.mangle(%r); u=hy.unmangle(m); print(ascii(m),ascii(u),ascii(hy.mangle(u)))'" % (vlib.REPO, s)
        io = impl_unmangle(unmangle, m)
        if io[0] != "OK":
            fails.append(("unmangle-raises", inp, "unmangle(%r) raises %s" % (m, io[1]), "no exception", how))
            continue
        try:
            again = mangle(io[1]) if io[1] else None
        except Exception as e:
            again = "raises " + type(e).__name__
        if again != m:
            fails.append(("remangle-differs", inp, {"mangled": m, "unmangled": io[1], "remangled": again}, m, how))
    return dis, fails, counts, cases


def run(chk):
    chk.trusted = TRUSTED
    chk.assumptions = ["names whose part after the leading underscore-class characters starts with hyx_ are out of "
                       "scope (filtered and counted), as the property says",
                       "OverflowError from chr()/int() is classed with ValueError in the unmangle correspondence"]
    chk.prove("Props/C33.v", ["Props/C33.vo", "Mangle/Extract.vo"], [mangle_tables.translate])
    thorough = chk.tier == "thorough"
    mc.validate_unicode_facts(chk, chk.rng, 100000 if thorough else 10000)
    vlib.use_repo_in_process()
    from hy.reader.mangling import mangle, unmangle
    cls = mc.us_class()
    binary = mc.build_driver()

    # ---- known-finding matchers (precise input classes, see DESIGN.md C33)
    def dotted(s):
        return "." in s and s.strip(".") != ""

    def body(s):
        s2 = s.lstrip(cls)
        return (s2[0] + s2[1:].replace("-", "_")) if s2 else s2
    chk.matchers["dotted-name"] = lambda rec, p: dotted(rec["input"]["name"])
    chk.matchers["hyx-after-hyphen-conversion"] = lambda rec, p: (not dotted(rec["input"]["name"])) and \
        body(rec["input"]["name"]).startswith("hyx_")
    chk.matchers["nfkc-alters-escaped-name"] = lambda rec, p: (not dotted(rec["input"]["name"])) and \
        rec["input"].get("pre") is not None and mc.nfkc(rec["input"]["pre"]) != rec["input"]["pre"]

    names, kinds = [], []
    for kind, s in mc.gen_names(chk, chk.rng, 5000, 20000 if not thorough else 100000, exhaustive=thorough):
        names.append(s)
        kinds.append(kind)
    chk.rule = ("names as in C32 (code points in 7 positional contexts + seeded random mixes incl. hyx_/hyx-/X..X/U/H "
                "fragments and dots); in scope = part after leading underscore-class chars does not start with hyx_; "
                "non-trivial = in-scope name whose mangling contains an escape; plus unmangle-only correspondence on "
                "random strings over the escape alphabet")
    B = 50000
    jobs = [(binary, cls, names[i:i + B], kinds[i:i + B], i) for i in range(0, len(names), B)]
    if len(jobs) > 2:
        import multiprocessing
        with multiprocessing.Pool(min(vlib.NPROC, len(jobs))) as pool:
            results = pool.map(_chunk, jobs)
    else:
        results = [_chunk(j) for j in jobs]
    for dis, fails, counts, cases in results:
        for d in dis:
            chk.disagree(*d)
        for k, n in counts.items():
            chk.count(k, n)
        for key, nontriv, sample in cases:
            chk.case(key, nontrivial=nontriv, sample=sample)
        for f in fails:
            chk.fail(*f)
    # ---- unmangle-only correspondence on arbitrary escape-shaped strings
    alpha = ["X", "U", "H", "_", "a", "f", "0", "9", "x", "hyx_", "__", "squid", "Xexclamation_markX", "XU21X", "XU110000X",
             "XU0x1fX", "XU_1X", "XU1_fX", "XhyphenHminusX", ".", "-", "z", "Xlatin_small_letter_aX", "XUX", "XX"]
    # first: names that unicodedata.lookup resolves through an alias (FF = FORM FEED, LF, NUL, ...): the lookup oracle
    # handed to the model must know them (a false alarm of this check with VERIF_SEED=2 came from leaving them out)
    strs = ["hyx_XffXexclamation_markX", "hyx_XlfX", "XnulX", "hyx_aXffX", "hyx_XbelX0", "hyx_XFFX"]
    alpha += ["XffX", "XlfX"]
    for _ in range(20000 if not thorough else 60000):
        strs.append("".join(chk.rng.choice(alpha) for _ in range(chk.rng.randrange(1, 7))))
    lines = "".join("unmangle\t%s\t%s\n" % (mc.cps(m), mc.table_for(m + lookup_chars(m), lookup_names(m))) for m in strs)
    out = __import__("subprocess").run([binary], input=lines, capture_output=True, text=True).stdout.splitlines()
    for m, l in zip(strs, out):
        kind, _, rest = l.partition(" ")
        mo = ("OK", "".join(chr(int(x)) for x in rest.split(",")) if rest else "") if kind == "OK" else ("ERR", rest)
        io = impl_unmangle(unmangle, m)
        chk.count("unmangle-only:" + io[0])
        chk.case("U:" + m, nontrivial=False)
        if mo != io:
            chk.disagree("Mangle.Model.unmangle vs hy.reader.mangling.unmangle (escape-shaped strings)", m, mo, io)
