"""Shared by C24/C25/C27: Coq terms for values and models, table oracles built from
the interpreter, canonical forms, evaluation environment, generators."""
import collections
import math
import re
import struct
import sys
import unicodedata
from fractions import Fraction

from lib import vlib

SEP = 1114112
IMPORTS = ["HyV.Print.Syntax", "HyV.Print.Names", "HyV.Print.Reader", "HyV.Print.ModelRepr", "HyV.Print.ValueRepr",
           "HyV.Print.TableOracle", "HyV.Print.Ser"]
DELIMS = set("()[]{};\"'`~ \t\n\r\f\v")


def hy_mod():
    return vlib.use_repo_in_process()


# ------------------------------------------------------------------ Coq terms

def ctext(s):
    return "[" + "; ".join(str(ord(c)) for c in s) + "]%N"


def cbytes(b):
    return "[" + "; ".join(str(c) for c in b) + "]%N"


def copt(s):
    return "None" if s is None else "(Some %s)" % ctext(s)


def flkey(x):
    """a Python float as the model's fl: 'n', 'i', '-i' or the 64 bits"""
    if math.isnan(x):
        return "n"
    if math.isinf(x):
        return "i" if x > 0 else "-i"
    return struct.unpack(">Q", struct.pack(">d", x))[0]


def cfl(x):
    k = flkey(x)
    if k == "n":
        return "FNaN"
    if k == "i":
        return "(FInf false)"
    if k == "-i":
        return "(FInf true)"
    return "(FFin %d%%N)" % k


def cz(n):
    return "(%d)%%Z" % n


BUILTIN_FACTORIES = [list, int, set, dict, str, float, tuple, bool, bytes, frozenset, complex]


class Needs:
    """what the table oracle of a batch must know"""

    def __init__(self):
        self.floats, self.complexes, self.chars, self.texts = set(), set(), set(), []

    def fl(self, x):
        if not (math.isnan(x) or math.isinf(x)):
            self.floats.add(flkey(x))

    def cx(self, z):
        self.complexes.add((flkey(z.real), flkey(z.imag), repr(complex(z))))

    def st(self, s):
        for c in s:
            if ord(c) >= 128:
                self.chars.add(c)


def coq_value(x, nd):
    """Python value of the documented types -> Gallina term of type value"""
    hy = hy_mod()
    t = type(x)
    if x is None:
        return "VNone"
    if t is bool:
        return "(VBool %s)" % ("true" if x else "false")
    if t is int:
        return "(VInt %s)" % cz(x)
    if t is float:
        nd.fl(x)
        return "(VFloat %s)" % cfl(x)
    if t is complex:
        nd.cx(x)
        return "(VComplex %s %s)" % (cfl(x.real), cfl(x.imag))
    if t is str:
        nd.st(x)
        return "(VStr %s)" % ctext(x)
    if t is bytes:
        return "(VBytes %s)" % cbytes(x)
    if t is bytearray:
        return "(VBytearray %s)" % cbytes(x)
    if t is hy.models.Keyword:
        return "(VKw %s)" % ctext(x.name)
    if t is Fraction:
        return "(VFraction %s %s)" % (cz(x.numerator), cz(x.denominator))
    if t is range:
        return "(VRange %s %s %s)" % (cz(x.start), cz(x.stop), cz(x.step))
    kind, items = node_of(x)
    return "(VNode %s [%s])" % (kind, "; ".join(coq_value(i, nd) for i in items))


def node_of(x):
    t = type(x)
    flat = lambda d: [y for kv in d.items() for y in kv]
    if t is list:
        return "VkList", list(x)
    if t is tuple:
        return "VkTuple", list(x)
    if t is set:
        return "VkSet", list(x)
    if t is frozenset:
        return "VkFrozenset", list(x)
    if t is collections.deque:
        return "VkDeque", list(x)
    if t is dict:
        return "VkDict", flat(x)
    if t is collections.OrderedDict:
        return "VkOrderedDict", flat(x)
    if t is collections.Counter:
        return "VkCounter", flat(x)
    if t is collections.defaultdict:
        f = x.default_factory
        if f is None:
            return "(VkDefaultdict None)", flat(x)
        if f in BUILTIN_FACTORIES:
            return "(VkDefaultdict (Some %s))" % ctext(f.__name__), flat(x)
        raise TypeError("defaultdict factory outside the domain: %r" % (f,))
    if t is collections.ChainMap:
        return "VkChainMap", list(x.maps)
    if t is slice:
        return "VkSlice", [x.start, x.stop, x.step]
    raise TypeError("value outside the domain: %r" % (t,))


def coq_model(m, nd):
    """hy model -> Gallina term of type model"""
    hy = hy_mod()
    M = hy.models
    t = type(m)
    if t is M.Symbol:
        return "(MSym %s)" % ctext(str(m))
    if t is M.Keyword:
        return "(MKw %s)" % ctext(m.name)
    if t is M.Integer:
        return "(MInt %s)" % cz(int(m))
    if t is M.Float:
        nd.fl(float(m))
        return "(MFloat %s)" % cfl(float(m))
    if t is M.Complex:
        nd.cx(complex(m))
        return "(MComplex %s %s)" % (cfl(m.real), cfl(m.imag))
    if t is M.String:
        nd.st(str(m))
        return "(MStr %s %s)" % (ctext(str(m)), copt(m.brackets))
    if t is M.Bytes:
        return "(MBytes %s)" % cbytes(bytes(m))
    kinds = {M.Expression: "KExpr", M.List: "KList", M.Dict: "KDict", M.Set: "KSet", M.Tuple: "KTuple"}
    if t in kinds:
        k = kinds[t]
    elif t is M.FString:
        k = "(KFStr %s %s)" % (copt(m.brackets), "true" if m.is_tstring else "false")
    elif t is M.FComponent:
        cv = m.conversion
        if cv is not None and len(cv) != 1:
            raise TypeError("conversion outside the domain: %r" % (cv,))
        k = "(KFComp %s %s)" % ("None" if cv is None else "(Some %d%%N)" % ord(cv), "true" if m.is_tstring else "false")
    else:
        raise TypeError("model outside the domain: %r" % (t,))
    return "(MNode %s [%s])" % (k, "; ".join(coq_model(c, nd) for c in m))


# ------------------------------------------------------------------ canonical serialisations (same format as Print/Ser.v)

def ser_text(s):
    return "[" + ",".join(str(ord(c)) for c in s) + "]"


def ser_bytes(b):
    return "[" + ",".join(str(c) for c in b) + "]"


def ser_fl(x):
    return str(flkey(x))


def ser_model(m):
    hy = hy_mod()
    M = hy.models
    t = type(m)
    if t is M.Symbol:
        return "S" + ser_text(str(m))
    if t is M.Keyword:
        return "K" + ser_text(m.name)
    if t is M.Integer:
        return "I%d" % int(m)
    if t is M.Float:
        return "F" + ser_fl(float(m))
    if t is M.Complex:
        return "C" + ser_fl(m.real) + "/" + ser_fl(m.imag)
    if t is M.String:
        return "T" + ser_text(str(m)) + ("-" if m.brackets is None else ser_text(m.brackets))
    if t is M.Bytes:
        return "Y" + ser_bytes(bytes(m))
    kinds = {M.Expression: "E", M.List: "L", M.Dict: "D", M.Set: "X", M.Tuple: "U"}
    if t in kinds:
        k = kinds[t]
    elif t is M.FString:
        k = "f" + ("-" if m.brackets is None else ser_text(m.brackets)) + ("1" if m.is_tstring else "0")
    elif t is M.FComponent:
        cv = m.conversion
        k = "c" + ("-" if cv is None else str(ord(cv)) if len(cv) == 1 else "?%r" % cv) + "|" + ("1" if m.is_tstring else "0")
    else:
        return "?%s" % t.__name__
    return "N" + k + "(" + " ".join(ser_model(c) for c in m) + ")"


def canon(x):
    """canonical nested tuple of a value: type at every node, floats by bits, unordered containers sorted"""
    hy = hy_mod()
    t = type(x)
    if x is None:
        return ("n",)
    if t is bool:
        return ("b", int(x))
    if t is int:
        return ("i", x)
    if t is float:
        return ("f", flkey(x))
    if t is complex:
        return ("c", flkey(x.real), flkey(x.imag))
    if t is str:
        return ("s", x)
    if t is bytes:
        return ("y", x)
    if t is bytearray:
        return ("a", bytes(x))
    if t is hy.models.Keyword:
        return ("k", x.name)
    if t is Fraction:
        return ("q", x.numerator, x.denominator)
    if t is range:
        return ("r", x.start, x.stop, x.step)
    try:
        kind, items = node_of(x)
    except TypeError:
        return ("?", t.__name__, repr(x))
    return canon_node(KIND_TAG.get(kind.split()[0].lstrip("("), "?"),
                      (None if kind.endswith("None)") else x.default_factory.__name__) if t is collections.defaultdict else None,
                      [canon(i) for i in items])


KIND_TAG = {"VkList": "L", "VkTuple": "U", "VkSet": "X", "VkFrozenset": "Z", "VkDeque": "Q", "VkDict": "D",
            "VkOrderedDict": "O", "VkCounter": "C", "VkDefaultdict": "F", "VkChainMap": "M", "VkSlice": "S"}


def canon_node(tag, factory, items):
    if tag in "XZ":
        items = sorted(items, key=repr)
    elif tag in "DCF":
        pairs = sorted(zip(items[0::2], items[1::2]), key=lambda p: repr(p[0]))
        items = [y for p in pairs for y in p]
    return ("N", tag, factory, tuple(items))


class SerParser:
    """parse Print/Ser.v ser_value text into the canon structure"""

    def __init__(self, s):
        self.s, self.i = s, 0

    def num(self):
        m = re.compile(r"-?\d+").match(self.s, self.i)
        self.i = m.end()
        return int(m.group(0))

    def text(self):
        assert self.s[self.i] == "["
        j = self.s.index("]", self.i)
        body = self.s[self.i + 1:j]
        self.i = j + 1
        return [int(x) for x in body.split(",")] if body else []

    def fl(self):
        for k in ("-i", "i", "n"):
            if self.s.startswith(k, self.i):
                self.i += len(k)
                return k
        return self.num()

    def value(self):
        c = self.s[self.i]
        self.i += 1
        if c == "n":
            return ("n",)
        if c == "b":
            self.i += 1
            return ("b", int(self.s[self.i - 1]))
        if c == "i":
            return ("i", self.num())
        if c == "f":
            return ("f", self.fl())
        if c == "c":
            a = self.fl()
            self.i += 1
            return ("c", a, self.fl())
        if c == "s":
            return ("s", "".join(chr(x) for x in self.text()))
        if c == "y":
            return ("y", bytes(self.text()))
        if c == "a":
            return ("a", bytes(self.text()))
        if c == "k":
            return ("k", "".join(chr(x) for x in self.text()))
        if c == "q":
            a = self.num()
            self.i += 1
            return ("q", a, self.num())
        if c == "r":
            a = self.num()
            self.i += 1
            b = self.num()
            self.i += 1
            return ("r", a, b, self.num())
        if c == "N":
            tag = self.s[self.i]
            self.i += 1
            factory = None
            if tag == "F":
                if self.s[self.i] == "-":
                    self.i += 1
                else:
                    factory = "".join(chr(x) for x in self.text())
            assert self.s[self.i] == "("
            self.i += 1
            items = []
            while self.s[self.i] != ")":
                if self.s[self.i] == " ":
                    self.i += 1
                items.append(self.value())
            self.i += 1
            return canon_node(tag, factory, items)
        raise ValueError("bad ser_value text at %d: %r" % (self.i, self.s[:80]))


def parse_ser_value(s):
    return SerParser(s).value()


# ------------------------------------------------------------------ oracles from the interpreter

def num_class(tok):
    """what as_identifier's numeric cascade makes of an identifier text (hy.models constructors)"""
    hy = hy_mod()
    M = hy.models
    try:
        return "(NInt %s)" % cz(int(M.Integer(tok)))
    except ValueError:
        pass
    try:
        return "(NFloat %s)" % cfl(float(M.Float(tok)))
    except ValueError:
        pass
    if tok not in ("j", "J"):
        try:
            z = M.Complex(tok)
            return "(NComplex %s %s)" % (cfl(z.real), cfl(z.imag))
        except ValueError:
            pass
    return None


def tokens_of(text):
    """every identifier text the reader could hand to as_identifier while reading `text` (over-approximation)"""
    out = set()
    for run in re.findall(r"[^()\[\]{};\"'`~ \t\n\r\f\v]+", text):
        for i in range(min(len(run), 3)):
            suf = run[i:]
            out.add(suf)
            if "." in suf:
                for p in suf.split("."):
                    if p:
                        out.add(p)
    return out


def names_of(text):
    out = {}
    for nm in re.findall(r"\\N\{([^}]*)\}", text):
        try:
            out[nm] = ord(unicodedata.lookup(nm))
        except KeyError:
            pass
    return out


def float_from_bits(b):
    return struct.unpack(">d", struct.pack(">Q", b))[0]


def oracle_term(nd, texts):
    """Gallina term: table_oracle for a batch; texts = every text the reader model will see"""
    toks = set()
    names = {}
    for t in texts:
        toks |= tokens_of(t)
        if "\\N{" in t:
            names.update(names_of(t))
    numtab = []
    for tok in sorted(toks):
        c = num_class(tok)
        if c is not None:
            numtab.append("(%s, %s)" % (ctext(tok), c))
    ftab = ["(%d%%N, %s)" % (b, ctext(repr(float_from_bits(b)))) for b in sorted(nd.floats)]
    ctab = ["(%s, %s, %s)" % (cfl_key(a), cfl_key(b), ctext(r)) for a, b, r in sorted(nd.complexes, key=repr)]
    printable = [str(ord(c)) for c in sorted(nd.chars) if c.isprintable()]
    ntab = ["(%s, %d%%N)" % (ctext(k), v) for k, v in sorted(names.items())]
    return "(table_oracle [%s] [%s] [%s] [%s]%%N [%s])" % (
        "; ".join(numtab), "; ".join(ftab), "; ".join(ctab), "; ".join(printable), "; ".join(ntab))


def cfl_key(k):
    return {"n": "FNaN", "i": "(FInf false)", "-i": "(FInf true)"}.get(k) or "(FFin %d%%N)" % k


def decode(s):
    """printed `list N` -> list of python strings split at SEP"""
    nums = [int(n) for n in re.findall(r"\d+", s)]
    parts, cur = [], []
    for n in nums:
        if n == SEP:
            parts.append("".join(chr(x) for x in cur))
            cur = []
        else:
            cur.append(n)
    parts.append("".join(chr(x) for x in cur))
    return parts


def run_chunks(chunks, tag, timeout=900):
    """chunks: list of (oracle_term, [Gallina terms of type `list N` using W]).  One coqc process per chunk,
    run in parallel; returns, per chunk, the decoded outputs.  (vlib.coq_eval shares one definition text among
    all shards; here every chunk has its own small oracle, which keeps table lookups and parsing cheap.)"""
    import os
    import subprocess
    os.makedirs(vlib.CASES, exist_ok=True)
    files = []
    for k, (oracle, exprs) in enumerate(chunks):
        path = os.path.join(vlib.CASES, "%s_%d_%d.v" % (tag, os.getpid(), k))
        lines = ["From Coq Require Import List NArith ZArith Bool.", "Import ListNotations."]
        lines += ["Require Import %s." % m for m in IMPORTS]
        lines += ["Open Scope N_scope.", "Set Printing Width 1000000. Set Printing Depth 1000000.",
                  "Definition W : oracle := %s." % oracle]
        lines += ["Eval vm_compute in (%d, %s)." % (i, e) for i, e in enumerate(exprs)]
        with open(path, "w") as f:
            f.write("\n".join(lines) + "\n")
        files.append(path)
    results = [None] * len(files)
    try:
        running, idx = [], 0
        while idx < len(files) or running:
            while idx < len(files) and len(running) < vlib.NPROC:
                p = subprocess.Popen(["timeout", str(timeout), "coqc", "-Q", vlib.COQ, "HyV", "-w",
                                      "-notation-overridden,-deprecated,-ambiguous-paths", files[idx]],
                                     stdout=subprocess.PIPE, stderr=subprocess.PIPE, text=True, cwd=vlib.CASES)
                running.append((idx, p))
                idx += 1
            i, p = running.pop(0)
            o, e = p.communicate()
            if p.returncode != 0:
                raise RuntimeError("model evaluation failed on %s:\n%s" % (files[i], (o + e)[-3000:]))
            outs = []
            for c in re.split(r"^\s*= ", o, flags=re.M)[1:]:
                c = re.sub(r"\s+", " ", c).strip()
                m = re.match(r"\((\d+), (.*)\)\s*:", c)
                if not m:
                    raise RuntimeError("cannot parse coq output: " + c[:300])
                outs.append(decode(m.group(2)))
            if len(outs) != len(chunks[i][1]):
                raise RuntimeError("model evaluation: %d results for %d cases" % (len(outs), len(chunks[i][1])))
            results[i] = outs
    finally:
        for f in files:
            base = f[:-2]
            for ext in (".v", ".vo", ".vok", ".vos", ".glob"):
                try:
                    os.remove(base + ext)
                except OSError:
                    pass
            try:
                os.remove(os.path.join(os.path.dirname(f), "." + os.path.basename(base) + ".aux"))
            except OSError:
                pass
    return results


def chunked(items, n):
    return [items[i:i + n] for i in range(0, len(items), n)]


# ------------------------------------------------------------------ evaluation environment

def eval_env():
    env = {"Fraction": Fraction, "deque": collections.deque, "OrderedDict": collections.OrderedDict,
           "Counter": collections.Counter, "defaultdict": collections.defaultdict, "ChainMap": collections.ChainMap}
    return env


def read_eval(text):
    """(hy.eval (hy.read text)) in an environment binding the constructor names"""
    hy = hy_mod()
    return hy.eval(hy.read(text), eval_env())


def exc_class(e):
    hy = hy_mod()
    from hy.reader.exceptions import LexException, PrematureEndOfInput
    if isinstance(e, PrematureEndOfInput):
        return "PRE"
    if isinstance(e, LexException):
        return "LEX"
    return "PY:" + type(e).__name__


# ------------------------------------------------------------------ generators: values

STR_ALPHABET = (list("abcXYZ019 _-+.:!?@#$%^&*=<>/|,") + ["'", '"', "\\", "\n", "\r", "\t", "\0", "\x07", "\x1b", "\x7f",
                "\x80", "\x85", "\xa0", "\xad", "\xe9", "\xff", "\u0100", "\u2028", "\u20ac", "\ufeff", "\uffff", "\U0001F600",
                "\U000E0001", "\U0010FFFF", "\ud800", "\udfff", "{", "}", "[", "]", "(", ")", ";", "~", "`", "N", "x", "u", "U"])


def gen_str(rng, maxlen=8):
    r = rng.random()
    if r < 0.08:
        return ""
    n = rng.randrange(1, maxlen + 1)
    if r < 0.2:
        return "".join(chr(rng.randrange(0x110000)) for _ in range(n))
    if r < 0.3:
        return "".join(chr(rng.randrange(0x20, 0x7f)) for _ in range(n))
    return "".join(rng.choice(STR_ALPHABET) for _ in range(n))


def gen_bytes(rng, maxlen=8):
    n = rng.randrange(0, maxlen + 1)
    pool = [0, 9, 10, 13, 31, 32, 34, 39, 92, 97, 122, 126, 127, 128, 255]
    return bytes(rng.choice(pool) if rng.random() < 0.7 else rng.randrange(256) for _ in range(n))


SPECIAL_FLOATS = [0.0, -0.0, 1.0, -1.5, 1e22, 1e16, 1e-7, 123456789.123, float("inf"), float("-inf"), float("nan"),
                  5e-324, -5e-324, 2.2250738585072014e-308, 1.7976931348623157e308, 0.1, 1 / 3, 1e21, 1e-5, 100.0, 1e15]


def gen_float(rng):
    r = rng.random()
    if r < 0.5:
        return rng.choice(SPECIAL_FLOATS)
    if r < 0.8:
        return float_from_bits(rng.getrandbits(64))
    return rng.uniform(-1000, 1000) * 10 ** rng.randrange(-30, 30)


def gen_int(rng):
    r = rng.random()
    if r < 0.5:
        return rng.randrange(-20, 21)
    if r < 0.8:
        return rng.randrange(-10 ** 6, 10 ** 6)
    return rng.randrange(-10 ** 40, 10 ** 40)


KW_ALPHABET = list("abcxyz019_-+*/!?<>=&%$@^|,#:") + ["\xe9", "\u03bb", "\U0001F600", "\\"]


def gen_keyword(rng):
    hy = hy_mod()
    n = rng.randrange(0, 6)
    return hy.models.Keyword("".join(rng.choice(KW_ALPHABET) for _ in range(n)))


def gen_atom(rng, hashable=False):
    r = rng.random()
    if r < 0.08:
        return None
    if r < 0.16:
        return rng.random() < 0.5
    if r < 0.34:
        return gen_int(rng)
    if r < 0.46:
        return gen_float(rng)
    if r < 0.54:
        return complex(gen_float(rng), gen_float(rng))
    if r < 0.70:
        return gen_str(rng)
    if r < 0.78:
        return gen_bytes(rng)
    if r < 0.84:
        return gen_keyword(rng)
    if r < 0.90:
        d = rng.randrange(1, 50)
        return Fraction(rng.randrange(-100, 100), d)
    if r < 0.95:
        return safe_range(rng)
    if hashable:
        return gen_str(rng)
    return bytearray(gen_bytes(rng))


def safe_range(rng):
    a = [gen_int(rng) for _ in range(rng.randrange(1, 4))]
    if len(a) == 3 and a[2] == 0:
        a[2] = 1
    return range(*a)


def gen_value(rng, depth, hashable=False, factories=False):
    """nested value of the documented types"""
    if depth <= 0 or rng.random() < 0.35:
        return gen_atom(rng, hashable)
    sub = lambda h=False: gen_value(rng, depth - 1, h, factories)
    n = rng.randrange(0, 4)
    r = rng.random()
    if hashable:
        if r < 0.5:
            return tuple(sub(True) for _ in range(n))
        if r < 0.8:
            return frozenset(sub(True) for _ in range(n))
        return gen_atom(rng, True)
    pairs = lambda: [(sub(True), sub()) for _ in range(n)]
    if r < 0.16:
        return [sub() for _ in range(n)]
    if r < 0.28:
        return tuple(sub() for _ in range(n))
    if r < 0.40:
        return dict(pairs())
    if r < 0.48:
        return set(sub(True) for _ in range(n))
    if r < 0.56:
        return frozenset(sub(True) for _ in range(n))
    if r < 0.63:
        return collections.deque(sub() for _ in range(n))
    if r < 0.70:
        return collections.OrderedDict(pairs())
    if r < 0.76:
        c = collections.Counter()
        for k, v in pairs():
            c[k] = v if rng.random() < 0.3 else rng.randrange(-3, 9)
        return c
    if r < 0.84:
        f = None
        if factories and rng.random() < 0.7:
            f = rng.choice(BUILTIN_FACTORIES)
        return collections.defaultdict(f, pairs())
    if r < 0.91:
        maps = [dict(pairs()) if rng.random() < 0.8 else collections.OrderedDict(pairs()) for _ in range(rng.randrange(1, 4))]
        return collections.ChainMap(*maps)
    parts = [None if rng.random() < 0.4 else sub() for _ in range(3)]
    return slice(*parts)


def has_factory(x):
    if isinstance(x, collections.defaultdict) and x.default_factory is not None:
        return True
    if isinstance(x, (str, bytes, bytearray, range, int, float, complex, Fraction)) or x is None:
        return False
    try:
        _, items = node_of(x)
    except TypeError:
        return False
    return any(has_factory(i) for i in items)


def nan_keys_repeat(x):
    """two NaN keys in one set/dict: distinct objects in the original, possibly one constant after reading"""
    try:
        kind, items = node_of(x)
    except TypeError:
        return False
    if kind in ("VkSet", "VkFrozenset"):
        keys = items
    elif kind.startswith(("VkDict", "VkOrderedDict", "VkCounter", "(VkDefaultdict")):
        keys = items[0::2]
    else:
        keys = []
    def nanny(k):
        return (isinstance(k, float) and math.isnan(k)) or (isinstance(k, complex) and (math.isnan(k.real) or math.isnan(k.imag))) \
            or (isinstance(k, (tuple, frozenset)) and any(nanny(j) for j in k))
    if sum(1 for k in keys if nanny(k)) > 1:
        return True
    return any(nan_keys_repeat(i) for i in items)


# ------------------------------------------------------------------ generators: Hy source texts over every syntax form (C25)

SYM_START = list("abcxyzABC_*+-/<>=!?$%&^|@") + ["\xe9", "λ", "\U0001F600", "\\"]
SYM_REST = SYM_START + list("0123456789.:#,")
SYMBOLS = ["a", "b", "foo", "x1", "-", "+", "*", "...", ".", "..", "None", "True", "setv", "@a", "@", "a-b", "_5", "e5", "1e", "0x",
           "j", "J", "inf", "nan", "NaNx", "quote", "unquote", "unquote-splice", "quasiquote", "unpack-iterable",
           "unpack-mapping", "annotate", "a!", "!r", "=", "a=", "b", "f", "r", "t", "rf", "ℵ", "<class"]
# spellings that hy.mangle maps to the same name as a sugar head, and near misses: none of them is the head symbol
SUGAR_LOOKALIKES = ["unquote_splice", "unpack_iterable", "unpack_mapping", "unquote-splice_", "_unquote", "unquote_", "quote_",
                    "Quote", "QUOTE", "quotE", "ｑuote", "quasi-quote", "quasi_quote", "unquote-Splice", "unpack_iterable_",
                    "unpack-iterablé", "hyx_quote", "unquote-splice-", "unpack--iterable", "__quote", "quote-"]
NUMBERS = ["0", "7", "-3", "+5", "1_000", "1,000", "0x1F", "0o17", "0b101", "007", "1.5", "-0.0", "1e5", "1E-3", ".5", "5.",
           "1_0.2_5", "NaN", "Inf", "-Inf", "+Inf", "1e400", "2j", "-1.5j", "1+2j", "1e3-2e-2j", "NaN+Infj", "NaNj", "-Infj",
           "123456789012345678901234567890", "0.1", "1e22", "1e16", "5e-324"]


def gen_symbol(rng):
    if rng.random() < 0.6:
        return rng.choice(SYMBOLS)
    n = rng.randrange(1, 5)
    return rng.choice(SYM_START) + "".join(rng.choice(SYM_REST) for _ in range(n - 1))


def gen_dotted(rng):
    parts = [gen_symbol(rng).replace(".", "d") or "p" for _ in range(rng.randrange(2, 4))]
    head = rng.choice(["", "", ".", "..", "..."])
    return head + ".".join(parts)


STR_SRC = (list("abcXYZ019 _-+.:!?@#$%^&*=<>/|,()[];~`'") + ["\\\\", '\\"', "\\'", "\\n", "\\t", "\\r", "\\0", "\\x41", "\\xff",
           "\\u20ac", "\\U0001F600", "\\N{BULLET}", "\\N{LATIN SMALL LETTER A}", "\\a", "\\b", "\\f", "\\v", "\\101", "\\7",
           "\\\n", "\n", "\r", "\r\n", "\t", "\x00", "\x7f", "\x85", "\xa0", "\xe9", " ", "€", "\U0001F600", "N", "x"])


def gen_str_body(rng, braces=False, maxlen=6):
    out = []
    for _ in range(rng.randrange(0, maxlen + 1)):
        r = rng.random()
        if braces and r < 0.15:
            out.append(rng.choice(["{{", "}}"]))
        elif not braces and r < 0.1:
            out.append(rng.choice("{}"))
        else:
            out.append(rng.choice(STR_SRC))
    return "".join(out)


def gen_raw_body(rng, delim, braces=False, maxlen=6):
    pool = list("abc \n\t\\\"'N{}[]();#") + ["]", "]" + delim[:1], "\r\n", "\xe9", "€"]
    out = []
    for _ in range(rng.randrange(0, maxlen + 1)):
        c = rng.choice(pool)
        if c in "{}":
            c = c + c if braces else c
        out.append(c)
    s = "".join(out)
    if ("]" + delim + "]") in s or s.endswith("]") or any(s.endswith(("]" + delim)[:k]) for k in range(1, len(delim) + 2)):
        s = s.replace("]", ")") + "."
    return s


def gen_field(rng, depth, raw, spec_depth=0):
    """the text of one replacement field, braces included"""
    ws = lambda: rng.choice(["", "", " ", "  ", "\n"])
    form = gen_form(rng, depth - 1, in_field=True)
    out = "{" + ws() + form
    need_space = True
    r = rng.random()
    if r < 0.2:
        out += ws() + "=" + ws()
        need_space = False
    if rng.random() < 0.4:
        out += (" " if need_space else ws()) + "!" + rng.choice("rsarsaz ")
        need_space = False
        out += ws()
    if rng.random() < 0.45:
        out += (" " if need_space else "") + ":"
        n = rng.randrange(0, 4)
        for _ in range(n):
            if rng.random() < 0.45 and spec_depth < 2:
                out += gen_field(rng, depth - 1, raw, spec_depth + 1)
            else:
                out += rng.choice([">", "<5", "^10", ".3f", " ", "x", "{{", "}}", "#", "\\\\" if not raw else "\\", "\n", "\\x41" if not raw else "A", "é"])
        out += "}"
    else:
        out += (" " if need_space and form[-1:] not in ")]}\"" else "") + "}" if rng.random() < 0.5 else " }"
    return out


def gen_fstring(rng, depth):
    r = rng.random()
    if r < 0.25:
        delim = rng.choice(["f", "f-x", "f-", "f-ab"])
        body = ""
        for _ in range(rng.randrange(0, 4)):
            body += gen_raw_body(rng, delim, braces=True, maxlen=3) if rng.random() < 0.6 else gen_field(rng, depth, True)
        if ("]" + delim + "]") in body:
            body = body.replace("]" + delim + "]", "")
        lead = rng.choice(["", "", "", "", "\n", "\n\n", "\r\n", "\n\r\n"])
        return "#[" + delim + "[" + lead + body + "]" + delim + "]"
    prefix = rng.choice(["f", "f", "f", "rf", "fr", "t", "rt"])
    raw = "r" in prefix
    body = ""
    for _ in range(rng.randrange(0, 4)):
        if rng.random() < 0.55:
            s = gen_str_body(rng, braces=True, maxlen=3)
            if raw:
                s = s.replace('"', "'").replace("\\", "/")
            body += s.replace('"', '\\"') if not raw else s
        else:
            body += gen_field(rng, depth, raw)
    return prefix + '"' + body + '"'


def gen_form(rng, depth, in_field=False):
    """Hy source text of one form"""
    r = rng.random()
    if depth <= 0 or r < 0.3:
        k = rng.random()
        if k < 0.3:
            return gen_symbol(rng)
        if k < 0.4:
            return ":" + (gen_symbol(rng).replace(".", "") if rng.random() < 0.9 else "")
        if k < 0.55:
            return rng.choice(NUMBERS)
        if k < 0.62:
            return gen_dotted(rng)
        if k < 0.8:
            body = gen_str_body(rng).replace('"', '\\"')
            p = rng.choice(["", "", "", "r", "b", "br", "rb"])
            if "r" in p:
                body = body.replace("\\", "/")
            if "b" in p:
                body = "".join(c if ord(c) < 128 else "?" for c in body)
                body = re.sub(r"\\[NuU]", "n", body)
            return p + '"' + body + '"'
        if k < 0.9:
            delim = rng.choice(["", "", "x", "==", "a-b", "f", "t", "ft", "f x"])
            lead = rng.choice(["", "", "", "", "", "\n", "\n\n", "\r\n", "\r"])
            if delim == "f" or delim.startswith("f-"):
                delim = "g" + delim
            return "#[" + delim + "[" + lead + gen_raw_body(rng, delim) + "]" + delim + "]"
        return gen_fstring(rng, depth)
    sub = lambda: gen_form(rng, depth - 1)
    sep = lambda: rng.choice([" ", " ", " ", "  ", "\n", " ;c\n", " #_ junk "])
    n = rng.randrange(0, 4)
    if r < 0.62:
        o, c = rng.choice([("(", ")"), ("(", ")"), ("[", "]"), ("{", "}"), ("#{", "}"), ("#(", ")")])
        items = [sub() for _ in range(n)]
        if o == "(" and rng.random() < 0.35:
            head = rng.choice([".", "quote", "unquote", "unquote-splice", "quasiquote", "unpack-iterable", "unpack-mapping",
                               "annotate", "..", "...", "None"] + SUGAR_LOOKALIKES[:6])
            if rng.random() < 0.25:
                head = rng.choice(SUGAR_LOOKALIKES)
                items = items[:1] if items and rng.random() < 0.7 else items
            items = [head] + [gen_symbol(rng) if rng.random() < 0.6 else x for x in items]
        return o + sep().join(items) + c
    if r < 0.8:
        p = rng.choice(["'", "`", "~", "~@", "#* ", "#** ", "~ ", "' ", "#*  "])
        s = sub()
        if p == "~" and s.startswith("@"):
            p = "~ "
        return p + s
    if r < 0.84:
        return "#^ " + sub() + " " + sub()
    if r < 0.92:
        return gen_fstring(rng, depth)
    return gen_dotted(rng)
