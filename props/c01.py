"""C01 -- compiled code means what the Hy program means."""
from lib import vlib
from props import compiler_common as cc
from translator import compiler_tables

META = {
    "technique": "Coq simulation proof by structural induction over programs (any nesting/depth, every fault oracle) for "
                 "the statement-lifting compiler; refutation witnesses for Result.rename; AST-level correspondence with "
                 "hy_compile; CPython execution of the real compiled code vs the reference semantics",
    "level_text": "C01_compile_correct_partial (coq/Props/C01.v): for EVERY program of the modelled source language -- "
                  "constants, variables, effectful calls, do, setv, setx, and, or, not, if, while/else, break, continue, "
                  "raise, try/except/else/finally, nested arbitrarily to any depth -- every fault oracle, store and fuel, "
                  "the compiled result and the documented reference semantics agree on outcome, effect trace (order "
                  "included) and user variables (forward simulation: unless the reference run exhausts its fuel), "
                  "provided Result.rename does not fire (refuted otherwise: C01_rename_refuted, reproduced on the real "
                  "compiler as a known finding). Calls with several arguments, operators, get/cut, let, for, "
                  "comprehensions, with, fn, return, match are not in this model (C03-C09 have their own).",
    "level_note": "Trusted: Coq kernel; PySem validated against CPython each run, not verified; HySem written from the docs; "
                  "hand-written compiler model tied by AST-level differential runs; translator/compiler_tables.py. "
                  "Forms outside the theorem are decided by the oracle only on the programs explored.",
}


# minimised past failures (run first on every run; the fixed ones must keep passing)
CORPUS = [
    ("setx", 1, ("try", [("const", ("int", 1))], [(("one", 1), [("const", ("int", 2))])], None, None)),      # fixed 0a25177
    ("log", 1, ("setx", 1, ("try", [("raise", ("const", ("exn", 1)))], [(("one", 1), [("const", ("int", 2))])], None, None))),
    ("try", [("const", ("int", 1))], [(("one", 1), [("const", ("int", 2))])], [], None),                      # fixed 08f501f
    ("try", [("log", 1, ("const", ("int", 1)))], [(("all",), [])], [], [("log", 2, ("const", ("none",)))]),
    # fixed c90ef71: a finally whose forms compile to no statements, without handlers -> Try with empty finalbody
    ("try", [("const", ("int", -3)), ("raise", ("const", ("exn", 2)))], [], [("do", [])], [("do", [])]),
    ("try", [("const", ("int", 1))], [], None, [("do", [])]),
    ("try", [("log", 1, ("const", ("int", 1)))], [(("one", 1), [("const", ("int", 2))])], None, []),
    # fixed cfc331c: the renaming shortcut of compile_assign fired although the value was a larger expression that only
    # mentions the temporary -- the last operand of (setv x (and (if c (do (s) a) b) d)) was dropped
    ("setv", 0, ("bool", True, [("if", ("var", 1), ("do", [("log", 1, ("const", ("int", 1))), ("var", 2)]), ("var", 3)), ("log", 2, ("var", 3))])),
    ("setx", 0, ("bool", False, [("if", ("var", 1), ("do", [("log", 1, ("const", ("int", 0))), ("var", 2)]), ("var", 3)), ("log", 2, ("const", ("int", 7)))])),
    ("setv", 0, ("bool", True, [("var", 1), ("do", [("setv", 2, ("var", 0)), ("var", 2)])])),              # finding C01-result-rename
]


COMPREHENSION_PROGRAMS = [
    # comprehensions are C04's subject; here only: the statements of a statement-producing key / value / element form are
    # executed, in order, once per iteration (program, value, notes)
    ("(dfor x [1 2] (do (note x) (* x 10)) x)", {10: 1, 20: 2}, [1, 2]),
    ("(dfor x [1 2] x (do (note x) (* x 10)))", {1: 10, 2: 20}, [1, 2]),
    ("(dfor x [1 2] (do (note x) x) (do (note (- x)) (* x 10)))", {1: 10, 2: 20}, [1, -1, 2, -2]),
    ("(dfor x [1 2] :if (do (note 0) True) (do (note x) x) 5)", {1: 5, 2: 5}, [0, 1, 0, 2]),
    ("(dfor x [1 2] (if (> x 1) (do (note x) x) 0) (do (setv y x) (+ y 1)))", {0: 2, 2: 3}, [2]),
    ("(lfor x [1 2] (do (note x) (* x 10)))", [10, 20], [1, 2]),
    ("(sfor x [1 2] (do (note x) (* x 10)))", {10, 20}, [1, 2]),
    ("(list (gfor x [1 2] (do (note x) (* x 10))))", [10, 20], [1, 2]),
    ("(dfor x [1 2] y [3] (do (note y) (+ x y)) (do (note x) x))", {4: 1, 5: 2}, [3, 1, 3, 2]),
]


def comprehension_probe(chk):
    hy = vlib.use_repo_in_process()
    for src, want, want_notes in COMPREHENSION_PROGRAMS:
        for ctx in ("%s", "(do (defn f [] %s) (f))"):
            full = ctx % src
            notes = []
            try:
                got = hy.eval(hy.read_many(full), {"note": notes.append})
            except Exception as e:
                got = "raises %s: %s" % (type(e).__name__, str(e)[:80])
            chk.count("comprehension-probe")
            chk.case("K:" + full, nontrivial=True)
            if got != want or notes != want_notes:
                chk.fail("comprehension-statements", {"program": full}, "value %r, notes %r" % (got, notes),
                         "value %r, notes %r" % (want, want_notes), "hy.eval(hy.read_many(src), {'note': list.append})")


def run(chk):
    chk.trusted = cc.TRUSTED_COMPILER
    chk.assumptions = ["programs are generated over the modelled fragment plus let and a call with two arguments (log2 k a b) "
                       "(behaviour only; reference: a, then b, then the effect point); sibling-argument order, which "
                       "docs/semantics.rst leaves unspecified when a later argument needs statements, does not arise: in every "
                       "generated (log2 k a b) either b needs no statements or what remains of a after its statements is a "
                       "constant or a compiler temporary"]
    cc.register_matchers(chk)
    chk.prove("Props/C01.v", ["Props/C01.vo", "Compiler/Run.vo", "Compiler/Valueless.vo"], [compiler_tables.translate])
    rng = chk.rng
    thorough = chk.tier == "thorough"
    n1, n2, n3 = (4000, 4000, 1600) if thorough else (380, 380, 200)
    progs = [cc.dress(rng, e, fault_p=0.0) for e in CORPUS]
    for p in progs[-1:]:
        p["vals"] = [("int", 5), ("int", 1), ("none",), ("none",)]
    progs += cc.make_progs(rng, n1, ["setx", "exn", "raise"], 1, 5)            # the fragment of the theorem
    progs += cc.make_progs(rng, n2, ["setx", "exn", "raise", "while", "try"], 1, 4)
    # let, as a renaming of fresh model variables (may shadow outer names): behaviour only
    progs += cc.make_progs(rng, n2 // 2, ["setx", "exn", "raise", "try", "let"], 2, 4)
    # focused shapes, each in a context that observes the value: (a) and/or with a value-less statement operand
    # (setv, while, do ending in setv) that is reached in a non-first position; (b) a try whose body raises and whose
    # selected handler ends in a value-less statement; (c) else-if ladders (cond) with two statement-lifted ifs in a
    # clause other than the first, both values live as the arguments of a call with two arguments; (d) such calls anywhere
    full = ["setx", "exn", "raise", "while", "try", "log2", "focus"]
    progs += cc.focused_progs(rng, n3, full, ["ladder", "try_valueless_handler", "ladder", "bool_valueless", "two_live",
                                              "try_valueless_handler"])
    progs += cc.make_progs(rng, n3 // 2, full, 2, 4)
    cc.annotate(progs)
    chk.count("programs in which Result.rename fires", sum(1 for p in progs if p["extra"]["renames"]))
    chk.rule = ("grammar-directed programs of depth 1-5 over const/var/(log k e)/do/setv/setx/and/or/not/if/raise (a third) "
                "plus while/break/continue/try (a third); let; focused shapes (value-less statement operands of and/or reached "
                "in non-first position, try whose selected handler ends in a value-less statement, else-if ladders with two "
                "statement-lifted ifs live at once as arguments of a two-argument call) in value-observing contexts; every "
                "expression slot may hold a statement-producing form; a fault table makes up to two effect points raise one of "
                "5 exception classes; non-trivial = distinct program of size >= 4")
    cc.differential(chk, progs)
    comprehension_probe(chk)
    chk.extra["forms_outside_the_model"] = ["calls with several arguments (one binary call is exercised behaviourally)", "operators", "get", "cut", "let", "for", "comprehensions", "with", "fn", "return", "match"]
