"""Shared by C22/C23/C26: running the Gallina models of coq/Lit on harness-written cases,
observing the real reader/constructors, the interpreter-side oracles."""
import codecs
import io
import re
import warnings

from lib import vlib

IMPORTS = ["HyV.Base.Text", "HyV.Lit.Strings", "HyV.Lit.StringsSpec", "HyV.Lit.StringsRun"]
LEXKIND = {1: "prefix", 2: "escape", 3: "bytes-ascii", 4: "decode", 5: "close", 6: "ctor"}


def ct(s):
    """python str (or list of ints) -> Gallina `text`"""
    if isinstance(s, (bytes, bytearray)):
        s = list(s)
    if isinstance(s, str):
        s = [ord(c) for c in s]
    return "[" + "; ".join(str(n) for n in s) + "]%N"


def cbool(b):
    return "true" if b else "false"


def nums(out):
    return [int(x) for x in re.findall(r"\d+", out)]


def model_eval(exprs, imports=IMPORTS, defs="", tag="lit", shard=300):
    """evaluate expressions of type `list N`; returns lists of ints"""
    if not exprs:
        return []
    return [nums(o) for o in vlib.coq_eval(imports, defs, exprs, tag=tag, shard=shard)]


# ------------------------------------------------------------------ the extracted model (volume path)

def build_driver():
    import os
    if os.environ.get("LIT_NO_DRIVER"):      # development switch: exercise the runs without the extracted model
        raise RuntimeError("LIT_NO_DRIVER set")
    ok, log = vlib.coq_build(["Lit/Extract.vo"])
    if not ok:
        raise RuntimeError("extraction failed: " + log[-2000:])
    ex = os.path.join(vlib.VERIF, "extract")
    return vlib.build_ocaml("lit", [os.path.join(ex, "lit_model.mli"), os.path.join(ex, "lit_model.ml"),
                                    os.path.join(ex, "lit_driver.ml")], "hymodel_lit")


def arg(s):
    """one protocol argument: str / bytes / list of ints / bool"""
    if isinstance(s, bool):
        return "1" if s else "0"
    if isinstance(s, (bytes, bytearray)):
        return ",".join(str(b) for b in s)
    if isinstance(s, str):
        return ",".join(str(ord(c)) for c in s)
    return ",".join(str(n) for n in s)


def run_driver(binary, lines, jobs=None):
    """lines: list of (cmd, arg, ...) already rendered with arg(); returns list of int lists.
    Split over several driver processes."""
    import subprocess
    if not lines:
        return []
    jobs = jobs or min(vlib.NPROC, max(1, len(lines) // 2000))
    chunks = [lines[i::jobs] for i in range(jobs)]
    procs = []
    for ch in chunks:
        p = subprocess.Popen([binary], stdin=subprocess.PIPE, stdout=subprocess.PIPE, stderr=subprocess.PIPE, text=True)
        procs.append((p, "".join("\t".join(l) + "\n" for l in ch)))
    import threading
    outs = [None] * jobs

    def feed(i):
        p, data = procs[i]
        o, e = p.communicate(data)
        if p.returncode != 0:
            outs[i] = RuntimeError("model driver failed: " + e[-1000:])
        else:
            outs[i] = o.split("\n")[:-1]
    ths = [threading.Thread(target=feed, args=(i,)) for i in range(jobs)]
    for t in ths:
        t.start()
    for t in ths:
        t.join()
    res = [None] * len(lines)
    for i in range(jobs):
        if isinstance(outs[i], Exception):
            raise outs[i]
        if len(outs[i]) != len(chunks[i]):
            raise RuntimeError("model driver: %d results for %d inputs" % (len(outs[i]), len(chunks[i])))
        for k, l in enumerate(outs[i]):
            res[i + k * jobs] = [int(x) for x in l.split(",")] if l else []
    return res


def name_table_arg(texts):
    """protocol form of the name table for the given texts"""
    names = set()
    for t in texts:
        for cand in (t, bsr(t)):
            names.update(NAME_RX.findall(cand))
    ents = []
    for n in sorted(names):
        cp = lookup_name(n)
        if cp is not None:
            ents.append("%s:%d" % (arg(n), cp))
    return ";".join(ents)


# ------------------------------------------------------------------ the interpreter's \N{...} table

NAME_RX = re.compile(r"(?=N\{([^}]*)\})")


def lookup_name(name):
    """what the unicode_escape decoder resolves \\N{name} to (None: unknown / malformed)"""
    try:
        bs = ("\\N{%s}" % name).encode("latin-1")
    except UnicodeEncodeError:
        return None
    try:
        with warnings.catch_warnings():
            warnings.simplefilter("ignore")
            r = bs.decode("unicode_escape")
    except (UnicodeDecodeError, ValueError):
        return None
    return ord(r) if len(r) == 1 else None


def bsr(s):
    return s.encode("ISO-8859-1", errors="backslashreplace").decode("latin-1")


def name_table(texts):
    """Gallina list (name, code point) for every \\N{...} candidate in the texts (raw and as bytes)"""
    names = set()
    for t in texts:
        for cand in (t, bsr(t)):
            names.update(NAME_RX.findall(cand))
    ents = []
    for n in sorted(names):
        cp = lookup_name(n)
        if cp is not None:
            ents.append("(%s, %d%%N)" % (ct(n), cp))
    return "[" + "; ".join(ents) + "]"


# ------------------------------------------------------------------ observing the implementation

def end_pos(consumed):
    """reader position after consuming `consumed` (Reader.getc's rule)"""
    line = 1 + consumed.count("\n")
    col = len(consumed) - (consumed.rfind("\n") + 1)
    return line, col


def lex_class(msg):
    if "invalid string prefix" in msg:
        return "prefix"
    if "invalid escape sequence" in msg:
        return "escape"
    if "bytes can only contain ASCII" in msg:
        return "bytes-ascii"
    if "Ran into a ']'" in msg:
        return "close"
    if "Syntactically illegal bracket string" in msg:
        return "ctor"
    if "codec can't decode" in msg or "invalid \\x escape" in msg or "Trailing \\ in string" in msg:
        return "decode"
    return "other:" + msg[:60]


def read_all(hy, src, reader=None):
    """every form of src read through hy.read_many (optionally on a given HyReader), or the error that ended it:
    ('ok', [(type name, repr)...]) / ('lex', class) / ('premature',) / ('other', exception name)"""
    from hy.reader.exceptions import LexException, PrematureEndOfInput
    try:
        with warnings.catch_warnings():
            warnings.simplefilter("ignore")
            ms = list(hy.read_many(src, reader=reader))
    except PrematureEndOfInput:
        return ("premature",)
    except LexException as e:
        return ("lex", lex_class(e.msg if hasattr(e, "msg") else str(e)))
    except BaseException as e:
        return ("other", type(e).__name__)
    return ("ok", [(type(m).__name__, repr(m)) for m in ms])


def read_first(hy, src):
    """first form of src as ('ok', kind, code points, (end_line, end_col), brackets) / ('lex', class) /
    ('premature',) / ('fstring',) / ('other', type name)"""
    from hy.reader.exceptions import LexException, PrematureEndOfInput
    try:
        with warnings.catch_warnings():
            warnings.simplefilter("ignore")
            m = hy.read(io.StringIO(src))
    except PrematureEndOfInput:
        return ("premature",)
    except LexException as e:
        return ("lex", lex_class(e.msg if hasattr(e, "msg") else str(e)))
    except EOFError:
        return ("eof",)
    except BaseException as e:  # anything else escaping the reader is reported by C18; here it is just "other"
        return ("other", type(e).__name__)
    pos = (m.end_line, m.end_column)
    if type(m) is hy.models.String:
        return ("ok", "str", [ord(c) for c in m], pos, m.brackets)
    if type(m) is hy.models.Bytes:
        return ("ok", "bytes", list(m), pos, None)
    if type(m) is hy.models.FString:
        return ("fstring",)
    return ("other", type(m).__name__)


# Python's recognised escape sequences (language reference, "String and Bytes literals"), by the character
# after the backslash.  Written from the reference, not from Hy's whitelist.
PY_ESCAPES_COMMON = set("\n\\'\"abfnrtvx01234567")
PY_ESCAPES_STR_ONLY = set("NuU")


def unrecognised_escapes(body, isb):
    """characters following a backslash that do not start a recognised escape (body already newline-translated)"""
    out, i = [], 0
    ok = PY_ESCAPES_COMMON | (set() if isb else PY_ESCAPES_STR_ONLY)
    while i < len(body):
        if body[i] == "\\" and i + 1 < len(body):
            if body[i + 1] not in ok:
                out.append(body[i + 1])
            i += 2
        else:
            i += 1
    return out


def py_eval_literal(lit, body=None, raw=False, isb=False):
    """('ok', value) / ('unrecognised',) / ('error', cls) / ('unevaluable',) for a Python literal text.
    CPython warns about the first invalid escape only (and not at all before a non-ASCII character), so
    'unrecognised' is decided by the reference table; a warning CPython does give must be covered by it."""
    unrec = [] if (raw or body is None) else unrecognised_escapes(body.replace("\r\n", "\n").replace("\r", "\n"), isb)
    if "\x00" in lit or any(0xD800 <= ord(c) <= 0xDFFF for c in lit):
        return ("unevaluable",)
    with warnings.catch_warnings(record=True) as w:
        warnings.simplefilter("always")
        try:
            v = eval(compile(lit, "<lit>", "eval"))
        except (SyntaxError, ValueError) as e:
            return ("error", type(e).__name__)
    if any(re.match(r"invalid escape sequence", str(x.message)) for x in w) and not unrec:
        return ("oracle-table-incomplete", [str(x.message) for x in w])
    if unrec:
        return ("unrecognised", unrec)
    return ("ok", v)
