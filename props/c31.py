"""C31 -- quasiquote substitutes unquotes at the right nesting level."""
from lib import vlib
from props import quote_common as qc

META = {
    "technique": "Coq proof (induction on the template, generalised over depth, environment and state) that the model "
                 "of compile_quote/render_quoted_form + evaluation of the emitted constructor forms equals a reference "
                 "substitution written from the documentation; promoted form via a lemma on FString joining; "
                 "extracted-model differential run and reference oracle on the real quasiquote",
    "level_text": "Theorems C31_quasiquote_correct(_any_depth)_partial, C31_quasiquote_promoted_partial, C31_rejected_is_static_error "
                  "(coq/Props/C31.v) hold for every well-formed template the documentation gives a meaning to, at every "
                  "nesting depth, in every sequence kind, for every state-passing environment (so order and number of "
                  "evaluations of the unquoted forms are part of the statement); no bound on size or depth. Literal parts "
                  "inherit C30's exception (Complex imaginary -0.0), proved as C31_complex_negzero_refuted. The model is "
                  "compared with the real render_quoted_form, hy.eval and hy.as_model on every generated template.",
    "level_note": "Trusted: Coq kernel; hand-written model Quote/Model.v (render, eval of the constructor-call fragment, "
                  "constructors, truthiness/iteration of the value classes, as_model), tied by differential execution only; "
                  "the reference qq_ref/qq_ref_p is a reading of docs/api.rst; extraction + OCaml driver + this harness; "
                  "hy.mangle supplies the head-symbol normaliser table.",
}

TRUSTED = [
    "Coq 8.16.1 kernel (coqc, full .vo); vm_compute for the examples only; no native_compute",
    "axioms: none (Print Assumptions: Closed under the global context for every C31 theorem)",
    "hand-written model coq/Quote/Model.v: render_quoted_form with its level argument, evaluation of the emitted forms "
    "(constructor calls, list displays with unpack-iterable, binary or), hy.models constructors (FString joining, bracket "
    "checks), bool()/iter() of the value classes, hy.as_model -- tied to /repo by differential execution on every run",
    "the reference qq_ref / qq_ref_p / qq_valid / qq_rejected (Quote/Model.v) is my reading of docs/api.rst; two documented "
    "examples are proved to come out as documented (C31_reference_matches_docs_*)",
    "user code is modelled as an arbitrary state-passing function of the form; real unquoted forms are calls (g i) of a "
    "logging function and literal forms of the modelled fragment",
    "extraction (ExtrOcamlBasic only) + extract/quote_driver.ml + props/quote_common.py (dumps, line protocol)",
]

HEADS_UNQ = ["unquote", "unquote", "unquote", "unquote", "\uff55nquote"]
HEADS_SPL = ["unquote-splice", "unquote-splice", "unquote_splice"]


class TemplateGen:
    def __init__(self, rng, gen, vgen):
        self.rng, self.g, self.vg = rng, gen, vgen
        self.M = gen.M
        self.table = {}
        self.objs = {}

    def fresh(self, splice):
        i = len(self.table)
        v = qc.UserErr(self.rng.randrange(1, 9)) if self.rng.random() < 0.04 else self.value(2, splice)
        self.objs[i] = v
        self.table[i] = ("R", v.n) if isinstance(v, qc.UserErr) else ("V", qc.dump(v))
        M = self.M
        return M.Expression([M.Symbol("g"), M.Integer(i)])

    def value(self, depth, splice=False):
        rng, M = self.rng, self.M
        r = rng.random()
        if splice:
            if r < 0.30:
                return [self.value(depth - 1) for _ in range(rng.choice([0, 1, 2, 3]))]
            if r < 0.42:
                return tuple(self.value(depth - 1) for _ in range(rng.choice([0, 1, 2])))
            if r < 0.58:
                return rng.choice([None, 0, "", (), [], False, 0.0, -0.0, b"", M.Keyword(""), M.String(""), M.Expression(),
                                   M.Integer(0), M.Float(0.0), 0j])
            if r < 0.66:
                return rng.choice([lambda: {1, 2, 3}, lambda: {"a", "b"}, lambda: set(), lambda: {5}, lambda: {"k": 9},
                                   lambda: {}, lambda: {2: [1], "z": None}, lambda: {("a", 2): 0, 7: 7, "": ""},
                                   lambda: {None, "x", 12, (1, 2)}])()
            if r < 0.72:
                return self.vg.tree(rng.choice([1, 2]))   # a model: sequences splice, atoms mostly do not
            if r < 0.80:
                return rng.choice(["xy", b"ab", M.String("pq"), M.Symbol("sym"), M.Bytes(b"\x01\x02")])
        if depth <= 0 or r < 0.50:
            c = rng.random()
            if c < 0.40:
                return self.vg.tree(rng.choice([0, 1, 2]))
            if c < 0.50:
                return rng.choice([0, 1, -3, 2 ** 70, 255])
            if c < 0.58:
                return rng.choice([True, False, None])
            if c < 0.66:
                return qc.from_bits(qc.gen_float_bits(rng))
            if c < 0.72:
                return complex(qc.from_bits(qc.gen_float_bits(rng)), qc.from_bits(qc.gen_float_bits(rng)))
            if c < 0.86:
                return rng.choice(qc.TEXTS)
            if c < 0.90:
                return bytes(rng.randrange(256) for _ in range(rng.choice([0, 1, 3])))
            if c < 0.95:
                return rng.choice([lambda: {3, 4}, lambda: {"k": [1, 2]}, lambda: set(), lambda: {}, lambda: {"p": None, 2: "two"}])()
            return qc.Opaque(rng.randrange(100))
        if r < 0.80:
            return [self.value(depth - 1) for _ in range(rng.choice([0, 1, 2, 3]))]
        return tuple(self.value(depth - 1) for _ in range(rng.choice([0, 1, 2])))

    HASHABLE = ["k", "p", "", 2, 3, 7, -4, None, ("a", 2), (), b"x", "long key"]

    def member(self):
        """a form whose value can be a set member / dict key: a call of g returning a hashable, or a literal"""
        rng, M = self.rng, self.M
        if rng.random() < 0.55:
            i = len(self.table)
            v = rng.choice(self.HASHABLE)
            self.objs[i] = v
            self.table[i] = ("V", qc.dump(v))
            return M.Expression([M.Symbol("g"), M.Integer(i)])
        return rng.choice([M.String("k"), M.String("p"), M.Integer(2), M.Integer(7), M.Symbol("None"), M.String(""),
                           M.Bytes(b"x"), M.Integer(-4)])

    def display(self):
        """a literal collection display: list / tuple with repeats, set of repeated members, dict with repeated keys"""
        rng, M = self.rng, self.M
        kind = rng.choice(["list", "tuple", "set", "set", "dict", "dict"])
        if kind in ("list", "tuple"):
            items = []
            for _ in range(rng.choice([0, 1, 2, 3])):
                items.append(rng.choice(items) if items and rng.random() < 0.4 else
                             self.fresh(False) if rng.random() < 0.6 else self.member())
            return (M.List if kind == "list" else M.Tuple)(items)
        if kind == "set":
            return M.Set([self.member()] * rng.choice([0, 1, 2, 3, 3]))
        keys, items = [], []
        for _ in range(rng.choice([0, 1, 1, 2, 3])):
            k = rng.choice(keys) if keys and rng.random() < 0.3 else self.member()
            keys.append(k)
            items += [k, self.fresh(False) if rng.random() < 0.6 else self.member()]
        return M.Dict(items)

    def arg(self, splice):
        """the form inside an unquote: mostly a call of g, sometimes a literal form of the modelled fragment"""
        rng, M = self.rng, self.M
        r = rng.random()
        if r < 0.58:
            return self.fresh(splice)
        if r < 0.72:
            return self.display()
        if r < 0.80:
            return M.List([self.fresh(False) if rng.random() < 0.6 else self.g.integer() for _ in range(rng.choice([0, 1, 2, 3]))])
        if r < 0.85:
            return M.Expression([M.Symbol("or"), self.fresh(splice), M.List([self.g.integer()])])
        if r < 0.90:
            return rng.choice([M.Integer(5), M.String("lit"), M.Keyword("k"), M.Symbol("None"), M.Symbol("True"),
                               M.Symbol("False"), M.Float(1.5), M.Bytes(b"xy"), M.String(""), M.Integer(0), M.List()])
        if r < 0.95:
            return M.Expression([M.Expression([M.Symbol("."), M.Symbol("hy"), M.Symbol("models"), M.Symbol("Symbol")]),
                                 M.String("made"), M.Keyword("from_parser"), M.Symbol("True")])
        return M.Expression([M.Expression([M.Symbol("."), M.Symbol("hy"), M.Symbol("models"), M.Symbol("List")]),
                             M.List([self.fresh(False)])])

    def leaf(self, depth):
        rng, M = self.rng, self.M
        r = rng.random()
        if r < 0.16:
            return M.Expression([M.Symbol(rng.choice(HEADS_UNQ)), self.arg(False)])
        if r < 0.28:
            return M.Expression([M.Symbol(rng.choice(HEADS_SPL)), self.arg(True)])
        if r < 0.33 and depth > 0:
            # a nested quasiquote; inside it, doubly unquoted forms are active again
            return M.Expression([M.Symbol("quasiquote"), self.g.tree(depth - 1, self.leaf_nested)])
        if r < 0.345:
            return M.Expression([M.Symbol(rng.choice(["unquote", "unquote-splice"]))] +
                                [self.fresh(False) for _ in range(rng.choice([0, 2, 3]))])      # wrong arity
        if r < 0.355:
            return M.Expression([M.Symbol("unquote-splice"), M.Expression([M.Symbol("unpack-iterable"), self.fresh(True)])])
        if r < 0.36:
            return M.Expression([M.Symbol("unquote"), M.Expression([M.Symbol(rng.choice(["unpack-iterable", "unpack-mapping"])),
                                                                    self.fresh(True)])])
        if r < 0.41:
            return self.headed_non_expression(depth)
        return None

    def headed_non_expression(self, depth):
        """a list / tuple / set / dict / FComponent / FString whose first element is the symbol unquote, unquote-splice or
        quasiquote: NOT an operator form (only expressions are), so it stays literal -- and unquotes inside it are active"""
        rng, M = self.rng, self.M
        head = M.Symbol(rng.choice(HEADS_UNQ + HEADS_SPL + ["quasiquote", "quasiquote"]))
        rest = []
        for _ in range(rng.choice([1, 1, 2, 3])):
            c = rng.random()
            if c < 0.35:
                rest.append(self.fresh(False))                                            # literal (g i): never evaluated
            elif c < 0.6:
                rest.append(M.Expression([M.Symbol("unquote"), self.arg(False)]))          # active
            elif c < 0.75:
                rest.append(M.Expression([M.Symbol("unquote-splice"), self.arg(True)]))    # active
            else:
                rest.append(self.g.tree(max(depth - 1, 0), self.leaf))
        cls = rng.choice([M.List, M.List, M.Tuple, M.Set, M.Dict, M.FComponent, M.FString])
        return cls([head] + rest)

    def leaf_nested(self, depth):
        rng, M = self.rng, self.M
        r = rng.random()
        if r < 0.15:
            return M.Expression([M.Symbol("unquote"), self.arg(False)])           # literal: one level down
        if r < 0.25:
            inner = M.Expression([M.Symbol(rng.choice(["unquote", "unquote-splice"])), self.arg(rng.random() < 0.5)])
            return M.Expression([M.Symbol(rng.choice(["unquote", "unquote-splice"])), inner])   # active again
        if r < 0.30 and depth > 0:
            return M.Expression([M.Symbol("quasiquote"), self.g.tree(depth - 1, self.leaf_nested)])
        return None


CORPUS = [
    # (text, table)
    ("(+ 1 (unquote (g 0)))", {0: 2}),
    ("[a b ~(g 0) c d ~@(g 0) e f]", {0: [1, 2, 3]}),
    ("(a ~@(g 0) ~@(g 1) ~@(g 2))", {0: None, 1: 0, 2: ""}),
    ("(a `(b ~(g 0) ~~(g 1) #{~@~@(g 2)}))", {0: 1, 1: 2, 2: [3, 4]}),
    ("```(a ~~~(g 0) ~~(g 1))", {0: 1, 1: 2}),
    ("(a (unquote))", {}),
    ("(a (unquote (g 0) (g 1)))", {0: 1, 1: 2}),
    ("[a ~@#* (g 0)]", {0: [1]}),
    ("f\"a{~(g 0)}b\"", {0: "mid"}),
    ("#[q[a{~(g 0) :>{~(g 1)}}]q]", {0: 1, 1: 2}),
    ("(a ~@(g 0))", {0: 5}),
    ("(a ~(g 0) ~(g 1) ~(g 2))", {0: 1, 1: qc.UserErr(3), 2: 4}),
    ("{~(g 0) ~@(g 1)}", {0: "k", 1: ("v", "w", "x")}),
    ("#(1-0j ~(g 0))", {0: complex(1, -0.0)}),
    ("(a ~[(g 0) 2] ~(or (g 1) [9]) ~5 ~\"s\" ~:k ~None ~True)", {0: 1, 1: 0}),
    ("(defn f [unquote (g 0)] (g 1))", {0: 5, 1: 6}),
    ("(a #{unquote-splice (g 0)} [quasiquote ~(g 1)] #(unquote (g 0)) {unquote-splice (g 0)})", {0: [1, 2], 1: 7}),
    ("[unquote (g 0)]", {0: 5}),
    ("(a `[unquote ~(g 0) ~~(g 1)])", {0: 1, 1: 2}),
    ("(a ~@{\"k\" (g 0)} b)", {0: 5}),
    ("[a ~@#{(g 0) (g 0) (g 0)} b]", {0: 5}),
    ("(a `(b ~~@{\"k\" (g 0)}))", {0: 5}),
    ("(a ~@(g 0) ~@(g 1) b)", {0: {"k": 9}, 1: {7}}),
    ("(a ~@{\"k\" 1 \"k\" 2 \"p\" (g 0)} ~@#(1 1 (g 0)) ~{\"k\" (g 0)} ~#{2 2})", {0: 5}),
]


def negzero_matcher(rec, params):
    """the recorded defect (C30's, seen through a template): the only difference is literal Complex
    imaginary parts -0.0 that came back +0.0"""
    if rec["key"] != "quasiquote-not-reference" or rec["observed"][0][0] != "Ok" or rec["expected"][0][0] != "Ok":
        return False
    if rec["observed"][1] != rec["expected"][1]:
        return False
    exp, obs = rec["expected"][0][1], rec["observed"][0][1]
    hit = [False]

    # only literal parts are affected: inserted values keep their -0.0, so fix only where it makes both sides agree
    def same(e, o):
        if e == o:
            return True
        if e[0] == "VCpx" and o[0] == "VCpx" and e[1] == o[1] and e[2] == 1 << 63 and o[2] == 0:
            hit[0] = True
            return True
        if e[0] == o[0] == "VSeq" and e[1] == o[1] and len(e[2]) == len(o[2]):
            return all(same(a, b) for a, b in zip(e[2], o[2]))
        if e[0] == o[0] and e[0] in ("PList", "PTuple", "PSet", "PDict") and len(e[1]) == len(o[1]):
            return all(same(a, b) for a, b in zip(e[1], o[1]))
        return False
    return same(exp, obs) and hit[0]


def run(chk):
    chk.trusted = TRUSTED
    chk.assumptions = [
        "'the promoted value' is judged where Hy promotes: the quasiquote form itself inserts the value of the unquoted "
        "form as it is (checked exactly: same dump, so same class and payload), and hy.as_model of the result -- what "
        "Hy applies when the result is used as code or returned from a macro -- must equal the reference with every "
        "inserted value promoted (checked whenever as_model accepts the result)",
        "templates are judged when the documentation gives them a meaning (qq_valid: every active unquote has one "
        "argument which is an expression) -- then result, order and number of evaluations must match the reference; "
        "templates with a wrong-arity active unquote or a splice of an unpack-iterable form (qq_rejected) must raise a "
        "user-facing Hy error before any user code runs; an active unquote of an unpack-iterable / unpack-mapping form "
        "and a top-level unquote-splice are outside the property (counted)",
        "equality as in C30: node by node, floats by bits",
        "the environment does not rebind `hy`, `or`, `unpack-iterable` and defines no macros",
    ]
    chk.matchers["complex_negzero_imag_in_template"] = negzero_matcher
    chk.prove("Props/C31.v", ["Props/C31.vo", "Quote/Extract.vo"], [])
    thorough = chk.tier == "thorough"
    hy = vlib.use_repo_in_process()
    rng = chk.rng
    g = qc.Gen(rng, chk, template_mode=True)
    vg = qc.Gen(rng, chk)
    cases = []   # (origin, text, template model, table dump, objects)
    for text, tbl in CORPUS:
        objs = dict(tbl)
        table = {i: (("R", v.n) if isinstance(v, qc.UserErr) else ("V", qc.dump(v))) for i, v in objs.items()}
        cases.append(("corpus", text, hy.read(text), table, objs))
    n = 30000 if thorough else 2500
    gen_errors = []
    for _ in range(n):
      try:
        tg = TemplateGen(rng, g, vg)
        t = g.tree(rng.choice([1, 2, 2, 3, 3, 4]), tg.leaf)
        if not tg.table and rng.random() < 0.8:
            # make sure most templates substitute something
            M = g.M
            t = rng.choice([M.Expression, M.List, M.Tuple, M.Set, M.Dict])(
                [t, M.Expression([M.Symbol("unquote"), tg.arg(False)]),
                 M.Expression([M.Symbol("unquote-splice"), tg.arg(True)])])
        cases.append(("generated", None, t, tg.table, tg.objs))
      except Exception as e:  # noqa  -- a constructor of the code under test refused a generated input: note it, go on
        gen_errors.append("%s: %s" % (type(e).__name__, str(e)[:100]))
    chk.obligation("the generator built its templates without a hy.models constructor raising", not gen_errors,
                   "%d times, e.g. %s" % (len(gen_errors), "; ".join(gen_errors[:3])))
    chk.rule = ("templates: random model trees (all classes/attributes as in C30) with unquote / unquote-splice forms "
                "(also spelled unquote_splice and with a full-width letter) placed at random depths in every sequence kind "
                "incl. FString/FComponent, nested quasiquotes up to 3 levels with singly (literal) and doubly (active) "
                "unquoted forms, malformed unquotes, non-expression sequences (list/tuple/set/dict/FComponent/FString) whose first element is the symbol "
                "unquote / unquote-splice / quasiquote (literal, not operator forms); unquoted forms are calls (g i) of a logging function or literal "
                "forms; values: models, ints, bools, None, floats by bits, complex, str, bytes, nested lists/tuples, "
                "opaque objects, sets and dicts, falsy values and non-iterables for splices, raising calls; unquote operands also "
                "literal list / tuple / set / dict displays with repeated members, repeated keys and calls inside; non-trivial = distinct "
                "template with >= 1 active unquote")
    try:
        binary = qc.build_driver()
        chk.obligation("extracted model builds (Quote/Extract.v, extract/quote_driver.ml)", True)
    except Exception as e:  # noqa
        chk.obligation("extracted model builds (Quote/Extract.v, extract/quote_driver.ml)", False, str(e)[-1500:])
        binary = None
    lines, reals, renders, promos, dumps = [], [], [], [], []
    for origin, text, t, table, objs in cases:
        d = qc.dump(t)
        dumps.append(d)
        symbols = set()
        qc.collect_symbols(d, symbols)
        for k, v in table.values():
            if k == "V":
                qc.collect_symbols(v, symbols)
        lines.append(qc.encode_case("qq", qc.norm_table(symbols), table, d))
        res, trace, raw, exc = qc.run_quote_impl("quasiquote", t, objs)
        reals.append((res, trace, exc))
        renders.append(qc.real_render(t, 0))
        if res[0] == "Ok":
            try:
                promos.append(("Ok", qc.dump(hy.as_model(raw))))
            except Exception as e:  # noqa
                promos.append(qc.classify_exc(e))
        else:
            promos.append(None)
    try:
        outs = qc.run_model(binary, lines) if binary else [None] * len(cases)
    except Exception as e:  # noqa  -- a broken model must not stop the oracle
        chk.obligation("extracted model ran on the generated cases", False, str(e)[-1000:])
        outs = [None] * len(cases)
    bad_instances = []
    for (origin, text, t, table, objs), d, (res, trace, exc), rr, promo, out in zip(cases, dumps, reals, renders, promos, outs):
        mo = qc.decode_qq(out) if out is not None else None
        inp = {"origin": origin, "text": text, "template": repr(t), "g": {str(i): repr(v) for i, v in objs.items()}}
        how = ("PYTHONPATH=%s /venv/bin/python: import hy; t = %s; g = lambda i: TABLE[i]  # TABLE = the 'g' field; "
               "hy.eval(hy.models.Expression([hy.models.Symbol('quasiquote'), t]), {'g': g})"
               % (vlib.REPO, ("hy.read(%r)" % text) if text is not None else "<the 'template' field>"))
        n_active = len(trace)
        chk.count("origin:" + origin)
        chk.count("outcome:" + (res[0] if res[0] == "Ok" else res[1]))
        for c in qc.classes_in(d):
            if c.startswith("K"):
                chk.count("kind:" + c)
        if mo is None:
            continue
        cls = ("valid" if mo["valid"] and not mo["top_splice"] else "top-level-splice(outside)" if mo["valid"] else
               "rejected" if mo["rejected"] else "unquote-of-unpack-form(outside)")
        chk.count("template:" + cls)
        chk.count("evaluated-unquotes:" + (str(n_active) if n_active < 4 else "4+"))
        if not mo["wf_ctor"]:
            chk.disagree("wf_ctor of Quote/Model.v rejects a template built by the constructors / the reader", inp,
                         "wf_ctor = false", "constructed")
        chk.case(repr((d, sorted(table.items()))), nontrivial=n_active >= 1,
                 sample={"template": text if text is not None else repr(t)[:300], "class": cls, "result": str(res)[:200]}
                 if len(chk.samples) < 12 and n_active >= 2 else None)
        # ---- tie T3: rendered form, value + trace, as_model
        if mo["render"] != rr:
            chk.disagree("Quote.Model.render (LNat 0) vs render_quoted_form(level=0)", inp, mo["render"], rr)
        uncovered = (cls == "unquote-of-unpack-form(outside)"
                     or (mo["run"][0] == ("Err", "EUnmodelled") and cls.endswith("(outside)")))
        if uncovered:
            # an unpack-iterable / unpack-mapping form as the operand of an unquote: no meaning as an expression,
            # compile-time behaviour of such forms is not modelled (the rendered form is still compared)
            chk.count("outside-and-not-modelled")
        else:
            if mo["run"] != (res, trace):
                chk.disagree("Quote.Model.run_quote vs hy.eval of (quasiquote t)", inp, mo["run"], (res, trace))
            if promo is not None and mo["as_model"] != promo:
                chk.disagree("Quote.Model.as_model vs hy.as_model on the quasiquote result", inp, mo["as_model"], promo)
        # ---- the theorems' instances, evaluated by the extracted model
        if mo["wf"] and mo["valid"]:
            if mo["run"] != mo["ref"]:
                bad_instances.append("C31_quasiquote_correct_partial: " + repr(inp)[:300])
            if mo["run"][0][0] == "Ok" and mo["as_model"][0] == "Ok" and mo["ref_p"] != (mo["as_model"], mo["run"][1]):
                bad_instances.append("C31_quasiquote_promoted_partial: " + repr(inp)[:300])
        if mo["rejected"] and not (mo["run"][0][0] == "Err" and mo["run"][0][1] in ("EArity", "ESyntaxUnpack") and mo["run"][1] == []):
            bad_instances.append("C31_rejected_is_static_error: " + repr(inp)[:300])
        # ---- the property, on the real code, against the reference
        if mo["valid"] and not mo["top_splice"]:
            if (res, trace) != mo["ref"]:
                chk.fail("quasiquote-not-reference", inp, (res, trace), mo["ref"], how)
            elif res[0] == "Ok" and promo[0] == "Ok" and (promo, trace) != mo["ref_p"]:
                chk.fail("quasiquote-promoted-not-reference", inp, (promo, trace), mo["ref_p"], how)
        elif mo["rejected"]:
            if exc is None or not qc.user_facing(exc) or trace:
                chk.fail("malformed-unquote-not-a-user-facing-error", inp, (res, trace),
                         "a hy.errors.HyLanguageError before any user code runs", how)
    chk.obligation("every evaluated instance of C31_quasiquote_correct / _promoted / _rejected_is_static_error holds "
                   "on the extracted model", not bad_instances, "; ".join(bad_instances[:3]))


def setup():
    qc.build_driver()
