"""Generated programs for C06 / C07 (and extra input for C13): an abstract syntax of binding
constructs, its rendering as Hy source, and the *lexical reference interpreter* that says which
value every logged reference must see.

Abstract syntax (Python tuples):
  ("lit", n) | ("ref", k, x)            reference to x wrapped in the logging call (lg k x)
  ("setv", x, e) | ("setx", x, e)
  ("let", [(x, e) ...], [body ...])
  ("fn", params, [body ...])            a closure value; a parameter is a name or ("opt", name, default)
  ("defn", f, params, [body ...])
  ("call", e, [args ...]) | ("callm", C, m)   (.m (C))
  ("class", C, [(attr, n) ...], [defn ...])
  ("nonlocal", [x ...]) | ("global", [x ...])
  ("lfor", kind, [clause ...], e)       clause = ("for", x, n | ("rng", e))  (range n) / (range (min 2 e)) | ("setv", x, e) | ("if", e) | ("do", e)
  ("do", [forms])
  ("callall", name)                     (for [hfn name] (hfn)): call every closure of a list
  ("or", [e ...]) | ("and", [e ...]) | ("if", c, a, b)   Python's short-circuit / conditional values
  inside a comprehension: clause ("do", ("nonlocal", [x ...])) declares for the form's own (generator) scope

Reference semantics (docs/api.rst `let`, `nonlocal`, `global`, comprehension forms + Python's
scoping for functions and classes):
  * a let binding is a fresh variable visible in the later bindings and the body (sequential);
    inner bindings shadow; setv/setx to a let-bound name updates that variable;
  * a function's locals are its parameters and the names assigned directly in its body where no
    let of the same function binds them, unless declared nonlocal/global; free names resolve
    outward through enclosing lets and functions (class bodies are not enclosing scopes of
    their methods) to the module, at call time;
  * (nonlocal x) makes x in that function mean the nearest binding outside it (let, function
    local, module); a name bound by an enclosing let of the same function already means that
    binding; (global x) makes it the module's variable;
  * iteration and :setv variables of lfor are the form's own; setx inside it assigns as it
    would at the form's position.
"""
import itertools

POOL = ("x", "y", "z")


# ------------------------------------------------------------------ rendering

def pname(p):
    return p if isinstance(p, str) else p[1]


def rparams(params):
    return " ".join(p if isinstance(p, str) else "[%s %s]" % (p[1], render(p[2])) for p in params)


def render(f):
    k = f[0]
    if k == "lit":
        return str(f[1])
    if k == "ref":
        return '(lg "%s" %s)' % (f[1], f[2])
    if k == "setv":
        return "(setv %s %s)" % (f[1], render(f[2]))
    if k == "setx":
        return "(setx %s %s)" % (f[1], render(f[2]))
    if k == "let":
        return "(let [%s] %s)" % (" ".join("%s %s" % (x, render(e)) for x, e in f[1]), " ".join(map(render, f[2])))
    if k == "fn":
        return "(fn [%s] %s)" % (rparams(f[1]), " ".join(map(render, f[2])))
    if k == "defn":
        return "(defn %s [%s] %s)" % (f[1], rparams(f[2]), " ".join(map(render, f[3])))
    if k == "call":
        return "(%s%s)" % (render(f[1]), "".join(" " + render(a) for a in f[2]))
    if k == "callm":
        return "(.%s (%s))" % (f[2], f[1])
    if k == "class":
        return "(defclass %s [] %s %s)" % (f[1], " ".join("(setv %s %d)" % a for a in f[2]), " ".join(map(render, f[3])))
    if k in ("nonlocal", "global"):
        return "(%s %s)" % (k, " ".join(f[1]))
    if k == "lfor":
        cl = []
        for c in f[2]:
            if c[0] == "for" and isinstance(c[2], tuple):
                cl.append("%s (range (min 2 %s))" % (c[1], render(c[2][1])))
            elif c[0] == "for":
                cl.append("%s (range %d)" % (c[1], c[2]))
            elif c[0] == "setv":
                cl.append(":setv %s %s" % (c[1], render(c[2])))
            else:
                cl.append(":%s %s" % (c[0], render(c[1])))
        return "(%s %s %s)" % (f[1], " ".join(cl), render(f[3]))
    if k == "do":
        return "(do %s)" % " ".join(map(render, f[1]))
    if k == "sym":
        return f[1]
    if k in ("or", "and"):
        return "(%s %s)" % (k, " ".join(map(render, f[1])))
    if k == "if":
        return "(if %s %s %s)" % (render(f[1]), render(f[2]), render(f[3]))
    if k == "callall":
        return "(for [hfn %s] (hfn))" % f[1]
    raise ValueError(f)


def render_program(forms):
    return "\n".join(render(f) for f in forms)


# ------------------------------------------------------------------ reference interpreter

class Unbound(Exception):
    """a read of a variable that has no value: NameError / UnboundLocalError in Python"""


class CompileError(Exception):
    """the reference says the program must be rejected at compile time"""

    def __init__(self, kind, name):
        Exception.__init__(self, "%s:%s" % (kind, name))
        self.kind, self.name = kind, name


class Ambiguous(Exception):
    """the property makes no claim about this program (filtered, counted)"""


class Info:
    def __init__(self):
        self.locals, self.nonlocals, self.globals = set(), set(), set()


class LetEnv:
    def __init__(self, parent, x, cell):
        self.parent, self.x, self.cell = parent, x, cell
        self.neutral = False   # set by a later (global x) / (defn x ..) of the same Python scope


class FrameEnv:
    def __init__(self, parent, kind, info=None):
        self.parent, self.kind, self.info, self.vars = parent, kind, info, {}


class CompEnv:
    """own scope of a comprehension form: its iteration and :setv variables are local to the
    whole form (like the locals of a function)"""

    def __init__(self, parent, own):
        self.parent, self.vars, self.own = parent, {}, own


class Closure:
    def __init__(self, params, body, env, info, name, defaults=None):
        self.params, self.body, self.env, self.info, self.name = params, body, env, info, name
        self.defaults = defaults or {}


class ClassVal:
    def __init__(self, name, attrs, methods):
        self.name, self.attrs, self.methods = name, attrs, methods


def direct_forms(forms):
    """sub-forms evaluated in the same Python scope (not bodies of nested functions/classes)"""
    for f in forms:
        yield f
        k = f[0]
        if k in ("setv", "setx"):
            yield from direct_forms([f[2]])
        elif k == "let":
            yield from direct_forms([e for _, e in f[1]])
            yield from direct_forms(f[2])
        elif k == "call":
            yield from direct_forms([f[1]] + list(f[2]))
        elif k == "do":
            yield from direct_forms(f[1])
        elif k in ("or", "and"):
            yield from direct_forms(f[1])
        elif k == "if":
            yield from direct_forms(list(f[1:]))
        elif k == "lfor":
            for c in f[2]:
                if c[0] == "setv":
                    yield from direct_forms([c[2]])
                elif c[0] in ("if", "do"):
                    yield from direct_forms([c[1]])
            yield from direct_forms([f[3]])


def analyse_function(params, body, module_defined, static_chain, is_module=False):
    """static information for one function body.
    static_chain: the enclosing static scopes, innermost first: ("let", x) | ("fn", Info) | ("class",) | ("module",)
    Raises CompileError / Ambiguous."""
    info = Info()
    params = [pname(p) for p in params]
    info.locals |= set(params)
    used_direct = []   # names read or assigned so far at function level (not through one of its lets)
    used_nested = set()  # names mentioned inside functions/classes nested in this one, so far

    def mentioned(f, acc):
        if isinstance(f, tuple) and f and isinstance(f[0], str):
            if f[0] in ("ref", "setv", "setx"):
                acc.add(f[2] if f[0] == "ref" else f[1])
            if f[0] in ("nonlocal", "global"):
                acc.update(f[1])
            for a in f[1:]:
                mentioned(a, acc)
        elif isinstance(f, (list, tuple)):
            for a in f:
                mentioned(a, acc)

    def walk(forms, letbound, comp_own, innermost=frozenset()):
        for f in forms:
            k = f[0]
            if k == "ref":
                if f[2] not in letbound and f[2] not in comp_own:
                    used_direct.append(f[2])
            elif k in ("setv", "setx"):
                walk([f[2]], letbound, comp_own)
                x = f[1]
                if f[2][0] in ("or", "and", "if"):
                    acc = set()
                    mentioned(f[2], acc)
                    if x in acc:
                        # the compiler stores intermediate values in the target itself (recorded finding
                        # C01-result-rename): no claim here where the value reads or assigns its own target
                        raise Ambiguous("a short-circuit / conditional value that mentions the target of its assignment")
                if k == "setv" and x in comp_own:
                    raise Ambiguous("setv to a comprehension's own variable")
                if ("declared", x) in comp_own:
                    continue          # assigns the variable the form's (nonlocal x) names
                if k == "setv" and comp_own:
                    raise Ambiguous("setv inside a comprehension (a local of the form)")
                if x not in letbound:
                    if k == "setx" and x in comp_own:
                        raise Ambiguous("setx to an iteration variable")
                    info.locals.add(x)
                    used_direct.append(x)
            elif k == "let":
                lb = set(letbound)
                for x, e in f[1]:
                    walk([e], lb, comp_own)
                    lb = lb | {x}
                walk(f[2], lb, comp_own, frozenset(x for x, _ in f[1]))
            elif k == "defn":
                # hoisted: assigns in the Python scope even if a let binds the name; later references
                # mean the function (tests/native_tests/let.hy, test-let-defn-...)
                if f[1] in used_nested:
                    raise Ambiguous("defn of a name that a function defined earlier mentions")
                info.locals.add(f[1])
                walk([p[2] for p in f[2] if not isinstance(p, str)], letbound, comp_own)
                mentioned(f[3], used_nested)
            elif k == "fn":
                walk([p[2] for p in f[1] if not isinstance(p, str)], letbound, comp_own)
                mentioned(f[2], used_nested)
            elif k == "class":
                info.locals.add(f[1])
                mentioned(f[3], used_nested)
            elif k == "call":
                walk([f[1]] + list(f[2]), letbound, comp_own)
            elif k == "do":
                walk(f[1], letbound, comp_own)
            elif k in ("or", "and"):
                walk(f[1], letbound, comp_own)
            elif k == "if":
                walk(list(f[1:]), letbound, comp_own)
            elif k == "lfor":
                own = set(comp_own) | {c[1] for c in f[2] if c[0] in ("for", "setv")}
                declared = {x for c in f[2] if c[0] == "do" and c[1][0] == "nonlocal" for x in c[1][1]}
                if declared:
                    # (nonlocal x) in the form's own scope: x means the nearest binding outside the form.  Claimed
                    # only where that is a variable the containing scope assigns directly (or the module's).
                    if comp_own or declared & (own | set(letbound)):
                        raise Ambiguous("nonlocal inside a nested comprehension / of its own or a let-bound name")
                    comp_declared.update(declared)
                    own = own | {("declared", x) for x in declared}
                if f[2] and f[2][0][0] == "for" and isinstance(f[2][0][2], tuple):
                    walk([f[2][0][2][1]], letbound, comp_own)     # the first iterable: enclosing scope
                for c in f[2]:
                    if c[0] == "setv":
                        walk([c[2]], letbound - own, own)
                    elif c[0] in ("if", "do"):
                        walk([c[1]], letbound - own, own)
                walk([f[3]], letbound - own, own)
            elif k == "callall":
                info.locals.add("hfn")
            elif k == "nonlocal" and comp_own and all(("declared", x) in comp_own for x in f[1]):
                pass
            elif k in ("nonlocal", "global"):
                if is_module or comp_own:
                    raise Ambiguous("declaration outside a function")
                for x in f[1]:
                    if k == "nonlocal" and x in innermost:
                        raise Ambiguous("nonlocal of a name bound by the very let it is written in")
                    if k == "nonlocal" and x in letbound:
                        continue  # already means the let binding of this function
                    if x in params:
                        raise Ambiguous("declaration of a parameter")
                    if x in info.globals or x in info.nonlocals:
                        raise Ambiguous("a name declared twice in one function")
                    if x in used_direct:
                        raise CompileError("decl-after-use", x)
                    if x in used_nested:
                        # Python accepts a declaration after a use inside a nested function; the
                        # property speaks of uses "in the same scope" only
                        raise Ambiguous("declaration after a use inside a nested function")
                    (info.nonlocals if k == "nonlocal" else info.globals).add(x)
    comp_declared = set()
    walk(body, frozenset(), frozenset())
    for x in comp_declared:
        if x in info.nonlocals or x in info.globals or x in params:
            raise Ambiguous("nonlocal inside a comprehension of a name the function declares / takes as parameter")
        if not is_module and x not in info.locals:
            raise Ambiguous("nonlocal inside a comprehension of a name the containing function does not assign")
        if is_module and x not in info.locals:
            raise CompileError("no-binding", x)
    if info.nonlocals & info.globals:
        raise Ambiguous("nonlocal and global of one name")
    info.locals -= info.nonlocals | info.globals
    # every nonlocal name needs a binding outside
    for x in sorted(info.nonlocals):
        found = False
        for sc in static_chain:
            if sc[0] == "let" and sc[1] == x:
                found = True
            elif sc[0] == "fn" and x in sc[1].locals:
                found = True
            elif sc[0] == "fn" and x in sc[1].globals:
                raise Ambiguous("nonlocal of a name an enclosing function declares global")
            elif sc[0] == "module" and x in module_defined:
                found = True
            if found:
                break
        if not found:
            raise CompileError("no-binding", x)
    return info


def module_defined_names(forms):
    s = set()
    for f in direct_forms(forms):
        if f[0] in ("setv", "setx"):
            s.add(f[1])
        elif f[0] in ("defn", "class"):
            s.add(f[1])
    return s


class Interp:
    def __init__(self, forms):
        self.forms = forms
        self.log = []
        self.module = FrameEnv(None, "module")
        # names assigned at module level (not through a let binding of that name)
        self.module_defined = analyse_function([], forms, set(), [], is_module=True).locals
        self.infos = {}
        self.steps = 0
        self.static_check(forms, [("module",)], frozenset())

    # static pass: analyse every function where it is defined (compile-time errors come first)
    def static_check(self, forms, chain, letbound_here):
        for f in forms:
            k = f[0]
            if k in ("fn", "defn"):
                params, body = (f[1], f[2]) if k == "fn" else (f[2], f[3])
                self.static_check([p[2] for p in params if not isinstance(p, str)], chain, letbound_here)
                info = analyse_function(params, body, self.module_defined, chain)
                self.infos[id(f)] = info
                self.static_check(body, [("fn", info)] + chain, frozenset())
            elif k == "class":
                for m in f[3]:
                    self.static_check([m], [("class",)] + chain, frozenset())
            elif k == "let":
                ch = chain
                for x, e in f[1]:
                    self.static_check([e], ch, letbound_here)
                    ch = [("let", x)] + ch
                self.static_check(f[2], ch, letbound_here)
            elif k in ("setv", "setx"):
                self.static_check([f[2]], chain, letbound_here)
            elif k == "call":
                self.static_check([f[1]] + list(f[2]), chain, letbound_here)
            elif k == "do":
                self.static_check(f[1], chain, letbound_here)
            elif k in ("or", "and"):
                self.static_check(f[1], chain, letbound_here)
            elif k == "if":
                self.static_check(list(f[1:]), chain, letbound_here)
            elif k == "lfor":
                for c in f[2]:
                    if c[0] == "setv":
                        self.static_check([c[2]], chain, letbound_here)
                    elif c[0] == "do" and c[1][0] == "nonlocal":
                        pass
                    elif c[0] in ("if", "do"):
                        self.static_check([c[1]], chain, letbound_here)
                self.static_check([f[3]], chain, letbound_here)
            elif k in ("nonlocal", "global"):
                owner = [c for c in chain if c[0] != "let"][0]
                if owner[0] != "fn":
                    raise Ambiguous("declaration outside a function")

    # variable resolution: returns (dict, key)
    def slot(self, env, x, assigning):
        e = env
        crossed_fn = False
        direct = True
        while e is not None:
            if isinstance(e, LetEnv):
                if e.x == x and not e.neutral:
                    return e.cell, 0
            elif isinstance(e, CompEnv):
                if x in e.own:
                    return e.vars, x
            elif e.kind == "fn":
                if x in e.info.globals:
                    return self.module.vars, x
                if x in e.info.nonlocals:
                    pass
                elif x in e.info.locals:
                    return e.vars, x
                crossed_fn = True
            elif e.kind == "class":
                if not crossed_fn:
                    if assigning or x in e.vars:
                        return e.vars, x
            else:
                return e.vars, x
            e = e.parent
        raise AssertionError("no module frame")

    def neutralise(self, env, names):
        """(global x) / (defn x ..): from here on, the lets of this Python scope no longer stand for x"""
        e = env
        while e is not None and not isinstance(e, FrameEnv):
            if isinstance(e, LetEnv) and e.x in names:
                e.neutral = True
            e = e.parent

    def read(self, env, x):
        d, k = self.slot(env, x, False)
        if isinstance(d, list):
            return d[0]
        if k not in d:
            raise Unbound(x)
        return d[k]

    def write(self, env, x, v):
        d, k = self.slot(env, x, True)
        d[k] = v

    def show(self, v):
        if isinstance(v, Closure):
            return "<function>"
        if isinstance(v, ClassVal):
            return "<class>"
        if isinstance(v, list):
            return [self.show(a) for a in v]
        return v

    def body(self, forms, env):
        v = None
        for f in forms:
            v = self.ev(f, env)
        return v

    def ev(self, f, env):
        self.steps += 1
        if self.steps > 20000:
            raise Ambiguous("too many steps")
        k = f[0]
        if k == "lit":
            return f[1]
        if k == "sym":
            return self.read(env, f[1])
        if k == "ref":
            v = self.read(env, f[2])
            self.log.append([f[1], self.show(v)])
            return v
        if k == "setv":
            self.write(env, f[1], self.ev(f[2], env))
            return None
        if k == "setx":
            v = self.ev(f[2], env)
            self.write(env, f[1], v)
            return v
        if k == "let":
            e2 = env
            for x, e in f[1]:
                v = self.ev(e, e2)
                e2 = LetEnv(e2, x, [v])
            return self.body(f[2], e2)
        if k == "fn":
            dfl = {p[1]: self.ev(p[2], env) for p in f[1] if not isinstance(p, str)}
            return Closure([pname(p) for p in f[1]], f[2], env, self.infos[id(f)], "fn", dfl)
        if k == "defn":
            dfl = {p[1]: self.ev(p[2], env) for p in f[2] if not isinstance(p, str)}
            self.neutralise(env, [f[1]])
            self.write(env, f[1], Closure([pname(p) for p in f[2]], f[3], env, self.infos[id(f)], f[1], dfl))
            return None
        if k == "call":
            fn = self.ev(f[1], env)
            args = [self.ev(a, env) for a in f[2]]
            return self.apply(fn, args)
        if k == "callm":
            c = self.read(env, f[1])
            return self.apply(c.methods[f[2]], [0])
        if k == "class":
            cenv = FrameEnv(env, "class")
            for a, n in f[2]:
                cenv.vars[a] = n
            methods = {}
            for m in f[3]:
                methods[m[1]] = Closure(m[2], m[3], cenv, self.infos[id(m)], m[1])
            self.write(env, f[1], ClassVal(f[1], dict(cenv.vars), methods))
            return None
        if k == "global":
            self.neutralise(env, f[1])
            return None
        if k == "nonlocal":
            return None
        if k == "callall":
            fns = self.read(env, f[1])
            if not isinstance(fns, list):
                raise Ambiguous("callall of a non-list")
            for fn in fns:
                self.write(env, "hfn", fn)
                self.apply(fn, [])
            return None
        if k == "do":
            return self.body(f[1], env)
        if k in ("or", "and"):
            v = None
            for e in f[1]:
                v = self.ev(e, env)
                if isinstance(v, (Closure, ClassVal)):
                    raise Ambiguous("truth value of a function")
                if bool(v) == (k == "or"):
                    return v
            return v
        if k == "if":
            c = self.ev(f[1], env)
            if isinstance(c, (Closure, ClassVal)):
                raise Ambiguous("truth value of a function")
            return self.ev(f[2] if c else f[3], env)
        if k == "lfor":
            out = []
            cenv = CompEnv(env, {c[1] for c in f[2] if c[0] in ("for", "setv")})
            self.loop(f[2], f[3], cenv, out, first=True)
            return out
        raise ValueError(f)

    def loop(self, clauses, final, cenv, out, first=False):
        if not clauses:
            out.append(self.ev(final, cenv))
            return
        c, rest = clauses[0], clauses[1:]
        if c[0] == "for":
            n = c[2]
            if isinstance(n, tuple):
                # the first iterable belongs to the enclosing scope (as in a Python comprehension)
                n = self.ev(n[1], cenv.parent if first else cenv)
                if not isinstance(n, int) or isinstance(n, bool):
                    raise Ambiguous("range of a non-integer")
                n = min(2, n)
            for i in range(n):
                cenv.vars[c[1]] = i
                self.loop(rest, final, cenv, out)
        elif c[0] == "setv":
            cenv.vars[c[1]] = self.ev(c[2], cenv)
            self.loop(rest, final, cenv, out)
        elif c[0] == "if":
            if self.ev(c[1], cenv):
                self.loop(rest, final, cenv, out)
        else:
            self.ev(c[1], cenv)
            self.loop(rest, final, cenv, out)

    def apply(self, fn, args):
        if not isinstance(fn, Closure):
            raise Ambiguous("call of a non-function")
        if len(args) > len(fn.params) or any(p not in fn.defaults for p in fn.params[len(args):]):
            raise Ambiguous("arity")
        fe = FrameEnv(fn.env, "fn", fn.info)
        for p, a in zip(fn.params, args):
            fe.vars[p] = a
        for p in fn.params[len(args):]:
            fe.vars[p] = fn.defaults[p]
        return self.body(fn.body, fe)

    def run(self):
        """returns dict(log=[...], exc=None|'unbound', globals={pool name: value})"""
        exc = None
        try:
            self.body(self.forms, self.module)
        except Unbound:
            exc = "unbound"
        g = {x: self.show(v) for x, v in self.module.vars.items() if x in POOL}
        return {"log": self.log, "exc": exc, "globals": g}


def reference(forms):
    """('ok', result) | ('compile-error', kind, name) | ('ambiguous', why)"""
    try:
        it = Interp(forms)
    except CompileError as e:
        return ("compile-error", e.kind, e.name)
    except Ambiguous as e:
        return ("ambiguous", str(e))
    try:
        return ("ok", it.run())
    except Ambiguous as e:
        return ("ambiguous", str(e))
    except RecursionError:
        return ("ambiguous", "recursion")


# ------------------------------------------------------------------ generators

class Gen:
    """programs of nested binding constructs over the 3-name pool; every reference is logged"""

    def __init__(self, rng, flavour):
        self.rng, self.flavour = rng, flavour
        self.reset()

    def reset(self):
        self.k = itertools.count(1)
        self.lits = itertools.count(1)
        self.fns = itertools.count(1)

    def lit(self):
        return ("lit", next(self.lits))

    def ref(self, x):
        return ("ref", "r%d" % next(self.k), x)

    def name(self):
        return self.rng.choice(POOL)

    def simple_expr(self):
        r = self.rng.random()
        if r < 0.5:
            return self.lit()
        if r < 0.9:
            return self.ref(self.name())
        return ("setx", self.name(), self.lit())

    def statements(self, depth, budget, in_fn, callable_fns):
        """a list of forms; budget = remaining nesting of binding constructs"""
        r = self.rng
        out = []
        n = r.randint(2, 3) if depth else r.randint(2, 4)
        local_fns = list(callable_fns)
        nconstructs = 0
        for _ in range(n):
            c = r.random()
            if nconstructs >= (2 if depth < 2 else 1) and 0.50 <= c < 0.80:
                c = 0.3
            if c < 0.22:
                if self.flavour == "c06" and r.random() < 0.12:
                    out.append((r.choice(["setv", "setx"]), self.name(), self.stmt_value(self.name(), self.name(), self.name())))
                    continue
                out.append(("setv", self.name(), self.simple_expr()))
            elif c < 0.42:
                out.append(self.ref(self.name()))
            elif c < 0.50 and self.flavour == "c06":
                out.append(("setx", self.name(), self.lit()))
            elif c < 0.56 and budget > 0:
                # defn of a name from the pool: hoisted to the Python scope even where a let binds the name
                x = self.name()
                params = []
                if self.flavour == "c06" and r.random() < 0.3:
                    params = [("opt", "a%d" % next(self.fns), self.ref(x))]
                out.append(("defn", x, params, [self.ref(self.name())]))
                out.append(self.ref(x))
            elif c < 0.80 and budget > 0:
                form, fname = self.construct(depth, budget, in_fn, local_fns)
                nconstructs += 1
                out.append(form)
                if fname:
                    local_fns.append(fname)
                    if r.random() < 0.85:
                        out.append(("call", ("sym", fname[0]), [self.lit() for _ in range(fname[1])])
                                   if fname[2] == "fn" else ("callm", fname[0], "m"))
            elif local_fns and c < 0.92:
                fname = r.choice(local_fns)
                out.append(("call", ("sym", fname[0]), [self.lit() for _ in range(fname[1])])
                           if fname[2] == "fn" else ("callm", fname[0], "m"))
            else:
                out.append(self.ref(self.name()))
        return out

    def decls(self, in_fn):
        """declarations at the start of a function body (valid position), sometimes none"""
        r = self.rng
        out = []
        if not in_fn:
            return out
        p = 0.55 if self.flavour == "c07" else 0.0
        if r.random() < p:
            names = r.sample(POOL, r.randint(1, 3))
            out.append(("nonlocal" if r.random() < 0.7 else "global", names))
            rest = [x for x in POOL if x not in names]
            if rest and out[0][0] == "nonlocal" and r.random() < 0.35:
                # a second, separate declaration for other names (each is resolved on its own)
                out.append(("nonlocal", r.sample(rest, r.randint(1, len(rest)))))
                return out
            if r.random() < 0.15:
                rest = [x for x in POOL if x not in names]
                if rest:
                    out.append(("global" if out[0][0] == "nonlocal" else "nonlocal", [r.choice(rest)]))
        return out

    def construct(self, depth, budget, in_fn, callable_fns):
        r = self.rng
        c = r.random()
        if self.flavour == "c07":
            kinds = [("defn", 0.5), ("let", 0.3), ("class", 0.2)]
        else:
            kinds = [("let", 0.43), ("defn", 0.22), ("fn", 0.10), ("lfor", 0.20), ("class", 0.05)]
        acc = 0
        kind = kinds[-1][0]
        for kd, w in kinds:
            acc += w
            if c < acc:
                kind = kd
                break
        if kind == "let":
            nb = r.randint(1, 2)
            binds = [(self.name(), self.simple_expr()) for _ in range(nb)]
            body = self.statements(depth + 1, budget - 1, in_fn, callable_fns)
            if in_fn and self.flavour == "c07" and r.random() < 0.25:
                # a declaration inside a let (elision of names bound by outer lets of the same function)
                bound_here = {x for x, _ in binds} if r.random() < 0.8 else set()
                names = [x for x in r.sample(POOL, r.randint(1, 3)) if x not in bound_here]
                if names:
                    body = [("nonlocal" if r.random() < 0.75 else "global", names)] + body
            body.append(self.ref(self.name()))
            return ("let", binds, body), None
        if kind in ("defn", "fn"):
            params = [self.name()] if r.random() < 0.25 else []
            nreq = len(params)
            if r.random() < 0.15:
                x = self.name()
                params = params + [("opt", "g%d" % next(self.fns), ("fn", [x], [self.ref(x)]))]
            body = self.decls(True)
            body += self.statements(depth + 1, budget - 1, True, callable_fns)
            if self.flavour == "c07" and r.random() < 0.08:
                # a late declaration: after a use in the same scope -> must be rejected
                x = self.name()
                body += [self.ref(x), ("nonlocal" if r.random() < 0.6 else "global", [x])]
            body.append(self.ref(self.name()))
            fname = "f%d" % next(self.fns)
            if kind == "fn":
                return ("setv", fname, ("fn", params, body)), (fname, nreq, "fn")
            return ("defn", fname, params, body), (fname, nreq, "fn")
        if kind == "class":
            cname = "C%d" % next(self.fns)
            attrs = [(self.name(), next(self.lits))] if r.random() < 0.7 else []
            body = self.decls(True) + self.statements(depth + 2, budget - 2, True, callable_fns)
            body.append(self.ref(self.name()))
            return ("class", cname, attrs, [("defn", "m", ["self"], body)]), (cname, 0, "class")
        # lfor
        cl = [("for", self.name(), r.randint(1, 2))]
        if self.flavour == "c06" and r.random() < 0.2:
            cl = [("for", self.name(), ("rng", self.ref(self.name())))]
        for _ in range(r.randint(0, 2)):
            cc = r.random()
            if cc < 0.35:
                cl.append(("for", self.name(), r.randint(1, 2)))
            elif cc < 0.7:
                cl.append(("setv", self.name(), self.lit() if r.random() < 0.5 else self.ref(self.name())))
            elif cc < 0.85:
                cl.append(("if", self.ref(self.name())))
            else:
                cl.append(("do", self.ref(self.name())))
        own = [c[1] for c in cl if c[0] in ("for", "setv")]
        c2 = r.random()
        res = "res%d" % next(self.fns)
        if c2 < 0.40:
            final = self.ref(self.name())
        elif c2 < 0.55:
            final = ("do", [("setx", self.name(), self.lit()), self.ref(self.name())])
        elif c2 < 0.72:
            # a closure created and called inside the form, referring to the form's own variable
            final = ("call", ("fn", [], [self.ref(r.choice(own))]), [])
        elif c2 < 0.86:
            # a nested comprehension as direct child, referring to the outer form's variable
            inner_var = r.choice([n for n in POOL if n not in own] or list(POOL))
            final = ("lfor", "lfor", [("for", inner_var, r.randint(1, 2))], self.ref(r.choice(own)))
        else:
            # closures that escape the form and are called later
            final = ("fn", [], [self.ref(r.choice(own + [self.name()]))])
            return ("do", [("setv", res, ("lfor", "lfor", cl, final)), ("callall", res),
                           ("setv", self.name(), self.lit()), ("callall", res)]), None
        return ("setv", res, ("lfor", "lfor", cl, final)), None

    # ---- scenarios: small programs around one interplay of constructs, randomly filled and wrapped
    def _wrap(self, pre, core, post):
        """at module level, or inside a function (function level)"""
        r = self.rng
        if r.random() < 0.5:
            return pre + core + post
        return pre + [("defn", "main", [], core + [self.ref(self.name())]), ("call", ("sym", "main"), [])] + post

    def scenario(self, kind):
        self.reset()
        r = self.rng
        names = list(POOL)
        r.shuffle(names)
        n, m, o = names
        pre = [("setv", x, self.lit()) for x in POOL if r.random() < 0.8]
        post = [self.ref(x) for x in POOL if r.random() < 0.6]
        if kind == "hoist":
            # defn of a name that an OUTER let of the same Python scope binds, written inside an inner let
            inner_binds = r.choice([m, m, n])
            inner = ("let", [(inner_binds, self.lit())],
                     [self.ref(n), ("defn", n, [], [self.ref(m)]), self.ref(n)] +
                     ([("call", ("sym", n), [])] if r.random() < 0.6 else []))
            outer_binds = [(n, self.lit())] + ([(o, self.lit())] if r.random() < 0.4 else [])
            r.shuffle(outer_binds)
            core = [("let", outer_binds, [self.ref(n), inner, self.ref(n)] +
                     ([("call", ("sym", n), [])] if r.random() < 0.5 else []))]
            return self._wrap(pre, core, post)
        if kind == "default-lambda":
            # a parameter default that is a lambda whose parameter is spelled like a let-bound name
            f = "f%d" % next(self.fns)
            g = "g%d" % next(self.fns)
            body = [self.ref(n), self.ref(r.choice(names))]
            fn = ("defn", f, [("opt", g, ("fn", [n], [self.ref(n)]))], body)
            core = [("let", [(n, self.lit())] + ([(m, self.lit())] if r.random() < 0.5 else []),
                     [fn, ("call", ("sym", f), []), ("setv", n, self.lit()), ("call", ("sym", f), []), self.ref(n)])]
            return self._wrap(pre, core, post)
        if kind == "global-in-lets":
            # the same name bound by two nested lets of one function, (global name) in the inner one
            f = "f%d" % next(self.fns)
            inner = ("let", [(r.choice([n, n, m]), self.lit())],
                     [self.ref(n), ("global", [n]), ("setv", n, self.lit()), self.ref(n)])
            body = [("let", [(n, self.lit())], [self.ref(n), inner, ("setv", n, self.lit()), self.ref(n)]),
                    self.ref(n)]
            core = [("defn", f, [], body), ("call", ("sym", f), []), self.ref(n)]
            return pre + core + post
        if kind == "two-nonlocals":
            # two separate nonlocal declarations that resolve through the same enclosing function
            f, a, b = ("f%d" % next(self.fns) for _ in range(3))
            fa = ("defn", a, [], [("nonlocal", [n]), ("setv", n, self.lit()), self.ref(n)])
            if r.random() < 0.5:
                fb = ("defn", b, [], [("nonlocal", [m]), ("setv", m, self.lit()), self.ref(m)])
                inner = [fa, fb, ("call", ("sym", a), []), ("call", ("sym", b), [])]
            else:
                fa = ("defn", a, [], [("nonlocal", [n]), ("nonlocal", [m]), ("setv", n, self.lit()),
                                      ("setv", m, self.lit()), self.ref(n), self.ref(m)])
                inner = [fa, ("call", ("sym", a), [])]
            body = [("setv", n, self.lit()), ("setv", m, self.lit())] + inner + [self.ref(n), self.ref(m)]
            core = [("defn", f, [], body), ("call", ("sym", f), [])]
            return pre + core + post
        if kind == "defn-own-default":
            # defn of a let-bound name whose parameter default reads that name: the default is evaluated
            # before the function is bound, so it sees the let variable
            a = "a%d" % next(self.fns)
            fn = ("defn", n, [("opt", a, r.choice([self.ref(n), ("fn", [], [self.ref(n)])]))],
                  [self.ref(a)] + ([self.ref(m)] if r.random() < 0.5 else []))
            binds = [(n, self.lit())] + ([(m, self.lit())] if r.random() < 0.4 else [])
            r.shuffle(binds)
            body = [fn, self.ref(n), ("call", ("sym", n), [])]
            if r.random() < 0.4:
                body = [("let", [(r.choice([m, o]), self.lit())], body)]
            core = [("let", binds, [self.ref(n)] + body + [self.ref(n)])]
            return self._wrap(pre, core, post)
        if kind == "shortcircuit":
            # setv/setx of a let-bound name whose value needs statements (a temporary that is renamed to the target)
            val = self.stmt_value(n, m, o)
            op = r.choice(["setv", "setv", "setx"])
            first = r.choice([("lit", 0), ("lit", 0), self.lit()])
            if r.random() < 0.5:
                # through a closure
                f = "f%d" % next(self.fns)
                inner = [("defn", f, [], [("nonlocal", [n]), (op, n, val), self.ref(n)]), ("call", ("sym", f), [])]
            else:
                inner = [(op, n, val)]
            if r.random() < 0.3:
                inner = [("let", [(m, self.lit())], inner)]
            core = [("let", [(n, first)], [self.ref(n)] + inner + [self.ref(n)])]
            return self._wrap(pre, core, post)
        if kind == "comp-nonlocal":
            # (nonlocal x) in a comprehension body: x is the variable of the scope directly containing the form
            res = "res%d" % next(self.fns)
            cl = [("for", o, r.randint(1, 2)), ("do", ("nonlocal", [n]))]
            if r.random() < 0.3:
                cl.insert(1, ("if", self.lit()))
            final = ("do", [("setv", n, self.lit()), self.ref(n)] + ([self.ref(m)] if r.random() < 0.4 else []))
            form = ("setv", res, ("lfor", "lfor", cl, final))
            if r.random() < 0.75:
                f = "f%d" % next(self.fns)
                body = [("setv", n, self.lit()), self.ref(n), form, self.ref(n)]
                core = [("defn", f, [], body), ("call", ("sym", f), []), self.ref(n)]
                if r.random() < 0.4:
                    g = "f%d" % next(self.fns)
                    core = [("defn", g, [], [("setv", n, self.lit())] + core), ("call", ("sym", g), [])]
            else:
                core = [form, self.ref(n)]
            return pre + core + post
        raise ValueError(kind)

    def stmt_value(self, n, m, o):
        """a value whose compilation leaves statements: short-circuit forms with a statement-bearing operand, if"""
        r = self.rng
        tail = ("do", [("setv", m, self.lit()), r.choice([self.lit(), self.ref(o)])])
        c = r.random()
        if c < 0.4:
            return ("or", [r.choice([("lit", 0), ("lit", 0), self.ref(o)]), tail])
        if c < 0.7:
            return ("and", [r.choice([self.lit(), self.ref(o)]), tail])
        if c < 0.85:
            return ("or", [("lit", 0), ("and", [self.lit(), tail])])
        return ("if", r.choice([("lit", 0), self.lit(), self.ref(o)]), tail, self.lit())

    def program(self):
        self.reset()
        r = self.rng
        forms = []
        init = [x for x in POOL if r.random() < 0.8]
        for x in init:
            forms.append(("setv", x, self.lit()))
        budget = r.randint(1, 4)
        if r.random() < 0.5:
            # the whole program inside a function (function level)
            budget = max(1, budget - 1)
            body = self.statements(1, budget, True, [])
            body.append(self.ref(self.name()))
            forms.append(("defn", "main", [], body))
            forms.append(("call", ("sym", "main"), []))
        else:
            forms += self.statements(0, budget, False, [])
        for x in POOL:
            if r.random() < 0.5:
                forms.append(self.ref(x))
        return forms


def nesting_depth(forms):
    """max nesting of binding constructs"""
    def d(f):
        k = f[0]
        if k == "let":
            return 1 + max([d(e) for _, e in f[1]] + [d(b) for b in f[2]] + [0])
        if k == "fn":
            return 1 + max([d(b) for b in f[2]] + [0])
        if k == "defn":
            return 1 + max([d(b) for b in f[3]] + [0])
        if k == "class":
            return 1 + max([d(m) for m in f[3]] + [0])
        if k == "lfor":
            return 1 + max([d(c[2]) for c in f[2] if c[0] == "setv"] + [d(c[1]) for c in f[2] if c[0] in ("if", "do")]
                           + [d(f[3])])
        if k in ("setv", "setx"):
            return d(f[2])
        if k == "call":
            return max([d(f[1])] + [d(a) for a in f[2]])
        if k == "do":
            return max([d(b) for b in f[1]] + [0])
        return 0
    return max([d(f) for f in forms] + [0])


def constructs_used(forms):
    s = set()

    def w(f):
        if isinstance(f, tuple) and f and isinstance(f[0], str):
            if f[0] in ("let", "fn", "defn", "class", "lfor", "nonlocal", "global", "setx"):
                s.add(f[0])
            for a in f[1:]:
                w(a)
        elif isinstance(f, (list, tuple)):
            for a in f:
                w(a)
    w(forms)
    return s


def c13_extra_programs(rng, n):
    """C06/C07-style programs as additional input for the C13 oracle"""
    out = []
    for flavour in ("c07", "c06"):
        g = Gen(rng, flavour)
        for i in range(n // 2):
            out.append(("%s:%d" % (flavour, i), render_program(g.program())))
    return out
