"""C40 -- the REPL evaluates incremental input like a script and tracks *1 *2 *3 *e."""
import contextlib
import io
import json
import re
import sys

from lib import vlib
from props import state_common as sc
from translator import state_repl

META = {
    "technique": "REPL.runsource/runcode/showsyntaxerror/showtraceback/_error_wrap/set_last_exc and the interpreter's "
                 "InteractiveInterpreter.runsource regenerated as terms of a deep-embedded Python fragment (tie T2); Coq "
                 "proofs over an abstract REPL machine for all histories; the generated code is tied to the machine by "
                 "computation on tables and to the real REPL by differential runs on scripted sessions; oracle on the real "
                 "REPL fed line by line",
    "level_text": "coq/Props/C40.v: C40_generated_code_implements_machine -- for every REPL state (all values, all other "
                  "variables and heap objects), every input (any value / exception object), every output script and every "
                  "sane class matcher (the generated class table is one), running the generated runsource returns and "
                  "leaves exactly what the abstract machine `step` computes, and so do sessions of any length; on the "
                  "machine, for ALL histories: more-input iff incomplete, *1 *2 *3 = the latest three evaluated results, *e = "
                  "the latest visible failure, a failed or incomplete input leaves *1 *2 *3 unchanged, no result occupies two "
                  "slots (C40_history_vars, C40_no_repeat). No bound on values, heap, session length.",
    "level_note": "Trusted: Coq kernel (vm_compute for the tables and the witness); translator/state_py.py + state_repl.py; "
                  "the fragment semantics (validated against CPython by the scripted-session correspondence of this check); "
                  "the scripting of the opaque parts (compile/eval/output_fn) by `input`s. Printing of results and "
                  "`push` buffering are judged by the oracle only.",
}

TRUSTED = [
    "Coq 8.16.1 kernel (coqc, full .vo); vm_compute inside the lift proof (whole-run evaluation on symbolic states), the "
    "cross-check table and the regression sessions",
    "axioms: none (Print Assumptions: Closed under the global context for every C40 theorem)",
    "translator/state_py.py, translator/state_repl.py: method bodies of hy/repl.py, set_last_exc, the running interpreter's "
    "code.InteractiveInterpreter.runsource, the class linearisations of hy/errors.py + hy/reader/exceptions.py + builtins, and "
    "the exact shape of HyCommandCompiler.__call__ -> Gen/StateReplTerm.v on every run",
    "State/EvalRestoreSem.v: fragment semantics (hand-written, modelled-not-verified); tie = scripted-session correspondence "
    "with the real REPL object (compile / code objects / output_fn replaced by scripts) in this check",
    "State/Repl.v: abstract machine `step`, the scripting of the opaque parts by `input`s (one_pure), and the modelling choice "
    "that *e / _hy_exc_info / got_value exist from the start with value None/False (the code only writes them or reads them "
    "with .get)",
    "harness: session generators, reference evaluation, canonicalisation",
]

CLASSES = ["LexException", "PrematureEndOfInput", "HySyntaxError", "HyMacroExpansionError", "HyRequireError",
           "HyTypeError", "HyEvalError", "HyCompileError", "HyLanguageError", "ValueError", "OverflowError",
           "SyntaxError", "ZeroDivisionError", "NameError", "TypeError", "RecursionError",
           "SystemExit", "KeyboardInterrupt", "GeneratorExit", "UserDefinedError"]


class UserDefinedError(Exception):
    pass


def exc_class(name):
    import builtins
    import hy.errors
    import hy.reader.exceptions
    if name == "UserDefinedError":
        return UserDefinedError
    for mod in (hy.errors, hy.reader.exceptions, builtins):
        if hasattr(mod, name):
            return getattr(mod, name)
    raise KeyError(name)


# ------------------------------------------------------------------ scripted sessions (correspondence)

def gen_session(rng, n):
    """list of inputs; an input is ("inc",), ("val", code), ("cerr", cls, id), ("rerr", cls, id, first)"""
    out = []
    fresh = [30]
    for _ in range(n):
        k = rng.choice(["inc", "val", "val", "val", "none", "cerr", "rerr", "rerr", "tv"])
        if k == "inc":
            out.append(("inc",))
        elif k == "none":
            out.append(("val", 0))
        elif k == "tv":
            out.append(("val", 1020))
        elif k == "val":
            fresh[0] += 1
            out.append(("val", 1000 + fresh[0]))
        elif k == "cerr":
            out.append(("cerr", rng.choice(CLASSES), rng.randint(1, 9)))
        else:
            out.append(("rerr", rng.choice(CLASSES), rng.randint(1, 9), rng.random() < 0.5))
    return out


def coq_val(code):
    return "VNone" if code == 0 else "(VRef %d)" % (code - 1000)


def coq_input(i):
    if i[0] == "inc":
        return "IIncomplete"
    if i[0] == "val":
        return "(IValue %s)" % coq_val(i[1])
    if i[0] == "cerr":
        return '(ICompileError (VExc "%s" %d))' % (i[1], i[2])
    return '(IRunError (VExc "%s" %d) %s)' % (i[1], i[2], "true" if i[3] else "false")


def coq_out(outfail):
    if outfail is None:
        return "(fun _ => None)"
    return '(fun v => if val_eqb v (VRef 20) then Some (VExc "%s" %d) else None)' % outfail


class Tok:
    def __init__(self, code):
        self.code = code

    def __repr__(self):
        return "Tok(%d)" % self.code


_repl_counter = [0]


def fresh_repl():
    """hy.REPL() reuses the module named by locals['__name__'] (default `__console__`) of earlier instances in the same
    process; a session of this check must start like a new process, so every session gets a module of its own"""
    from hy.repl import REPL
    _repl_counter[0] += 1
    name = "__c40_console_%d__" % _repl_counter[0]
    repl = REPL(locals={"__name__": name})
    sys.modules.pop(name, None)
    return repl


def real_session(session, outfail):
    """run the scripted session on a real hy.REPL object whose compiler, code objects and output_fn are scripts"""
    import hy
    from hy.repl import REPL
    toks = {}

    def tok(code):
        if code == 0:
            return None
        return toks.setdefault(code, Tok(code))

    def mkexc(cls, ident):
        e = exc_class(cls)("scripted %s %d" % (cls, ident))
        e._c40_id = ident
        return e

    repl = fresh_repl()
    L = repl.locals
    excs = {}

    def _c40_value(i):
        return tok(session[i][1])

    def _c40_raise(i):
        raise excs[i]
    L["_c40_value"], L["_c40_raise"] = _c40_value, _c40_raise

    def fake_compile(source, filename="<input>", symbol="single"):
        i = int(source)
        inp = session[i]
        if inp[0] == "inc":
            return None
        if inp[0] == "val":
            return (compile("pass", "<c40>", "exec"), compile("_c40_value(%d)" % i, "<c40>", "eval"))
        if inp[0] == "cerr":
            x = mkexc(inp[1], inp[2])
            L["_hy_exc_info"] = (type(x), x, None)
            raise x
        excs[i] = mkexc(inp[1], inp[2])
        if inp[3]:
            return (compile("_c40_raise(%d)" % i, "<c40>", "exec"), compile("None", "<c40>", "eval"))
        return (compile("pass", "<c40>", "exec"), compile("_c40_raise(%d)" % i, "<c40>", "eval"))
    repl.compile = fake_compile

    def fake_out(v):
        if outfail is not None and isinstance(v, Tok) and v.code == 1020:
            raise mkexc(*outfail)
        return "<text>"
    repl.output_fn = fake_out

    def vcode(v):
        if v is None:
            return 0
        if v is True:
            return 3
        if v is False:
            return 4
        if isinstance(v, Tok):
            return v.code
        return -1

    def obs():
        e = L.get(hy.mangle("*e"))
        return (vcode(repl.last_value), bool(repl.print_last_value),
                vcode(L[hy.mangle("*1")]), vcode(L[hy.mangle("*2")]), vcode(L[hy.mangle("*3")]),
                (type(e).__name__, getattr(e, "_c40_id", 0)) if e is not None else ("", 0))
    trace = []
    saved = sys.excepthook
    sys.excepthook = lambda *a: None
    try:
        for i in range(len(session)):
            with contextlib.redirect_stdout(io.StringIO()), contextlib.redirect_stderr(io.StringIO()):
                try:
                    r = repl.runsource(str(i))
                    step = ("ok", vcode(r), "")
                except BaseException as e:  # noqa: BLE001  SystemExit / KeyboardInterrupt leave runsource
                    step = ("exc", 0, type(e).__name__)
            trace.append(step + (obs(),))
    finally:
        sys.excepthook = saved
    return trace


def canon_model_trace(t):
    out = []
    for status, val, cls, ob in t:
        lv, pf, a, b, c, e = ob
        out.append((status, val, cls, (lv, pf, a, b, c, tuple(e))))
    return out


def correspondence(chk, n_sessions):
    rng = chk.rng
    sessions = []
    for k in range(n_sessions):
        s = gen_session(rng, rng.randint(1, 8))
        outfail = (rng.choice(CLASSES), 5) if rng.random() < 0.3 else None
        sessions.append((s, outfail))
    # always include the witness of the refutation
    sessions.append(([("val", 1031), ("rerr", "ZeroDivisionError", 1, False)], None))
    exprs = ["trace_of [%s] %s" % ("; ".join(coq_input(i) for i in s), coq_out(of)) for s, of in sessions]
    try:
        res = vlib.coq_eval(["HyV.State.Repl", "HyV.State.ReplSweep"], "", exprs, tag="c40")
    except Exception as e:
        chk.obligation("model runs on the scripted sessions", False, str(e)[-1500:])
        return
    for (s, of), r in zip(sessions, res):
        m = canon_model_trace(sc.coq_to_py(r))
        i = [(a, b, c, (o[0], o[1], o[2], o[3], o[4], tuple(o[5]))) for a, b, c, o in real_session(s, of)]
        chk.count("correspondence:sessions")
        chk.count("correspondence:inputs", len(s))
        if m != i:
            k = next((j for j in range(min(len(m), len(i))) if m[j] != i[j]), min(len(m), len(i)))
            chk.disagree("generated REPL methods under State/EvalRestoreSem vs the real hy.REPL, scripted compile/eval/output_fn",
                         {"session": s, "output_fn_fails": of, "first_difference_at_input": k},
                         repr(m[k:k + 1]), repr(i[k:k + 1]))


# ------------------------------------------------------------------ property oracle on the real REPL

INPUT_KINDS = ["value", "value", "value", "multiline", "none", "two-forms", "runtime-error", "name-error",
               "compile-error", "lex-error", "string-newline", "use-reader", "use-reader", "broken-repr"]


def gen_input(rng, st):
    """returns dict(lines=[...], kind, expect) for ONE complete input; expect = ("value", v) / ("none",) / ("error", cls)"""
    st["n"] += 1
    v = 1000 + st["n"]          # every result is a different integer
    k = rng.choice(INPUT_KINDS)
    if k == "use-reader":
        # a reader macro defined earlier in the session must keep working after multi-line and failing inputs
        if not st.get("reader"):
            st["reader"] = "plus%d" % st["n"]
            return dict(lines=["(defreader %s (setv n (.parse-one-form &reader)) `(+ ~n 5))" % st["reader"]],
                        kind="defreader", expect=("none",))
        form = rng.choice(["#%s %d", "(+ 0\n   #%s %d)"])
        return dict(lines=(form % (st["reader"], v - 5)).split("\n"), kind=k, expect=("value", v))
    if k == "broken-repr":
        # an input that evaluates fine to an object whose hy.repr raises
        if not st.get("cls"):
            st["cls"] = "BrokenRepr%d" % st["n"]
            return dict(lines=["(defclass %s []" % st["cls"], '  (defn __repr__ [self] (raise (ValueError "broken repr"))))'],
                        kind="defclass", expect=("none",))
        return dict(lines=["(%s)" % st["cls"]], kind=k, expect=("unprintable", st["cls"], "ValueError"))
    if k == "value":
        a = rng.randint(1, v - 1)
        return dict(lines=["(+ %d %d)" % (a, v - a)], kind=k, expect=("value", v))
    if k == "multiline":
        a = rng.randint(1, v - 1)
        form = rng.choice(["(+ %d\n   %d)", "(do\n  (setv t %d)\n  (+ t %d))", "(get [%d\n %d] 1)"])
        if "get" in form:
            return dict(lines=(form % (a, v)).split("\n"), kind=k, expect=("value", v))
        return dict(lines=(form % (a, v - a)).split("\n"), kind=k, expect=("value", v))
    if k == "none":
        return dict(lines=[rng.choice(["(setv q%d %d)" % (st["n"], v), "None", "(do)"])], kind=k, expect=("none",))
    if k == "two-forms":
        return dict(lines=["%d %d" % (v + 500000, v)], kind=k, expect=("value", v))
    if k == "runtime-error":
        return dict(lines=[rng.choice(["(/ 1 0)", "(do\n (setv z 1)\n (/ z 0))"])][0].split("\n"), kind=k,
                    expect=("error", "ZeroDivisionError"))
    if k == "name-error":
        return dict(lines=["(no-such-name-c40 %d)" % v], kind=k, expect=("error", "NameError"))
    if k == "compile-error":
        return dict(lines=[rng.choice(["(setv 1 2)", "(fn)", "(if)"])], kind=k, expect=("error", "HySyntaxError"))
    if k == "lex-error":
        return dict(lines=[rng.choice([")", "]", "(foo))"])], kind=k, expect=("error", "LexException"))
    return dict(lines=['(+ %d (len "ab' % (v - 4), 'x"))'], kind="string-newline", expect=("value", v))


def corpus_sessions():
    """regression sessions (corpus/C40/sessions.json); the expectation of an input is computed by evaluating it
    with hy.eval in a namespace that has seen the earlier inputs"""
    import os
    import hy
    path = os.path.join(vlib.VERIF, "corpus", "C40", "sessions.json")
    out = []
    for sess in json.load(open(path))["sessions"]:
        ns = {}
        inputs = []
        for lines in sess:
            text = "\n".join(lines)
            try:
                v = hy.eval(hy.read_many(text), ns)
                exp = ("none",) if v is None else ("value", v)
                kind = "corpus-value"
            except Exception as e:  # noqa: BLE001
                exp = ("error", type(e).__name__)
                kind = "corpus-error"
            inputs.append(dict(lines=lines, kind=kind, expect=exp))
        out.append(inputs)
    return out


def scenario(rng, st):
    """inputs whose meaning depends on compiler state kept across inputs (what a script keeps within one module)"""
    st["n"] += 3
    n = st["n"]
    k = rng.choice(["future-annotations", "nonlocal-global", "both"])
    out = []
    if k in ("future-annotations", "both"):
        out += [dict(lines=["(import __future__ [annotations])"], kind="future-import", expect=("none",)),
                dict(lines=["(defn area%d [#^ UndefinedShape%d s]" % (n, n), "  %d)" % (1000 + n)], kind="annotated-defn",
                     expect=("none",)),
                dict(lines=["(area%d 0)" % n], kind="value", expect=("value", 1000 + n))]
    if k in ("nonlocal-global", "both"):
        out += [dict(lines=["(setv counter%d %d)" % (n, 2000 + n)], kind="none", expect=("none",)),
                dict(lines=["(defn bump%d [by]" % n, "  (nonlocal counter%d)" % n,
                            "  (setv counter%d (+ counter%d by))" % (n, n), "  counter%d)" % n],
                     kind="nonlocal-defn", expect=("none",)),
                dict(lines=["(bump%d 7)" % n], kind="value", expect=("value", 2007 + n))]
    return out


def script_globals(history):
    """run the inputs of a session as ONE script (a module compiled at once) and return its int-valued globals"""
    import types
    import hy
    from hy.compiler import hy_compile
    _repl_counter[0] += 1
    name = "__c40_script_%d__" % _repl_counter[0]
    m = types.ModuleType(name)
    sys.modules[name] = m
    try:
        code = compile(hy_compile(hy.read_many("\n".join(history)), m), "<c40-script>", "exec")
        with contextlib.redirect_stdout(io.StringIO()), contextlib.redirect_stderr(io.StringIO()):
            exec(code, m.__dict__)
    finally:
        sys.modules.pop(name, None)
    return {k: v for k, v in m.__dict__.items() if isinstance(v, int) and not isinstance(v, bool) and not k.startswith("_")}


def scenario_order(steps):
    """definitions before uses: future import, defn area, (area), setv counter, defn bump, (bump)"""
    rank = {"future-import": 0, "annotated-defn": 1, "nonlocal-defn": 4}

    def key(i):
        l0 = i["lines"][0]
        if i["kind"] in rank:
            return rank[i["kind"]]
        return 2 if l0.startswith("(area") else 3 if l0.startswith("(setv counter") else 5
    return sorted(steps, key=key)


def weave(rng, ordered, others):
    out = list(others)
    pos = 0
    for step in ordered:
        # a script accepts __future__ imports only at its beginning; keep the comparison meaningful
        pos = 0 if step["kind"] == "future-import" else rng.randint(pos, len(out))
        out.insert(pos, step)
        pos += 1
    return out


def show(xs):
    """values of a session as text; objects whose repr may raise are shown by class"""
    return repr([x if isinstance(x, (int, str, type(None))) else "<%s>" % type(x).__name__ for x in xs])


def oracle(chk, n_sessions):
    hy = vlib.use_repo_in_process()
    from hy.repl import REPL
    from hy.reader.exceptions import PrematureEndOfInput
    rng = chk.rng
    M = {k: hy.mangle(k) for k in ("*1", "*2", "*3", "*e")}

    def complete(text):
        try:
            list(hy.read_many(text))
            return True
        except PrematureEndOfInput:
            return False
        except Exception:
            return True

    saved = sys.excepthook
    sys.excepthook = lambda *a: None
    try:
        corpus = corpus_sessions()
        for s in range(-len(corpus), n_sessions):
            repl = fresh_repl()
            L = repl.locals
            st = {"n": (s + len(corpus)) * 100}
            if s < 0:
                inputs = corpus[s + len(corpus)]
                chk.count("corpus-session")
            else:
                inputs = [gen_input(rng, st) for _ in range(rng.randint(1, 7))]
                if rng.random() < 0.35:
                    # weave a scenario into the session, keeping definitions before uses
                    inputs = weave(rng, scenario(rng, st), inputs)
            results = []       # results of evaluated inputs, latest first
            history = []
            session_failed = False
            for inp in inputs:
                buf = []
                before_slots = [L[M["*1"]], L[M["*2"]], L[M["*3"]]]
                out, err = io.StringIO(), io.StringIO()
                for li, line in enumerate(inp["lines"]):
                    buf.append(line)
                    with contextlib.redirect_stdout(out), contextlib.redirect_stderr(err):
                        try:
                            more = repl.push(line)
                        except Exception as ex:  # noqa: BLE001  nothing but SystemExit may leave push()
                            more = False
                            repl.resetbuffer()
                            chk.fail("exception-escaped-push", {"lines_so_far": buf + [], "earlier_inputs": history[-4:]},
                                     "%s: %s" % (type(ex).__name__, ex), "push() returns",
                                     "PYTHONPATH=%s python -c \"import hy; r=hy.REPL(); print([r.push(l) for l in %r])\""
                                     % (vlib.REPO, [l for h in history for l in h.split("\n")] + buf))
                    want_more = not complete("\n".join(buf))
                    desc = {"lines_so_far": list(buf), "earlier_inputs": history[-4:]}
                    how = "PYTHONPATH=%s python -c \"import hy; r=hy.REPL(); print([r.push(l) for l in %r])\"" % (vlib.REPO, buf)
                    if bool(more) != want_more:
                        chk.fail("more-input-iff-incomplete", desc, bool(more), want_more, how)
                    if more and li == len(inp["lines"]) - 1:
                        # generator error: should not happen
                        repl.resetbuffer()
                kind, exp = inp["kind"], inp["expect"]
                printed = out.getvalue()
                desc = {"input": "\n".join(inp["lines"]), "kind": kind, "earlier_inputs": history[-4:]}
                how = ("PYTHONPATH=%s python -c \"import hy; r=hy.REPL(); [r.push(l) for l in %r]; "
                       "print([r.locals[hy.mangle(k)] for k in ('*1','*2','*3')])\""
                       % (vlib.REPO, [l for h in history for l in h.split("\n")] + inp["lines"]))
                slots = [L[M["*1"]], L[M["*2"]], L[M["*3"]]]
                if exp[0] == "error" and slots != before_slots:
                    chk.fail("failed-input-changed-the-slots", dict(desc, failed_input_kind=kind), show(slots),
                             show(before_slots), how)
                if exp[0] == "value":
                    results.insert(0, exp[1])
                    if printed != hy.repr(exp[1]) + "\n":
                        chk.fail("printed-result", desc, printed, hy.repr(exp[1]) + "\n", how)
                    if slots[0] != exp[1]:
                        chk.fail("star1-is-not-the-result", desc, show(slots), exp[1], how)
                elif exp[0] == "unprintable":
                    # evaluated fine (so it is a result and enters *1), but printing it failed (so *e is set)
                    e = L.get(M["*e"])
                    if printed != "":
                        chk.fail("printed-something-for-unprintable-value", desc, printed, "", how)
                    if type(slots[0]).__name__ != exp[1]:
                        chk.fail("star1-is-not-the-result", dict(desc, note="the value evaluated fine; only its repr raises"),
                                 [type(x).__name__ for x in slots], exp[1], how)
                    if e is None or type(e).__name__ != exp[2]:
                        chk.fail("star-e-is-not-the-latest-exception", desc, type(e).__name__, exp[2], how)
                    results.insert(0, slots[0] if type(slots[0]).__name__ == exp[1] else object())
                elif exp[0] == "none":
                    results.insert(0, None)
                    if printed != "":
                        chk.fail("printed-something-for-None", desc, printed, "", how)
                    if slots[0] is not None:
                        chk.fail("star1-is-not-the-result", desc, show(slots), None, how)
                else:
                    e = L.get(M["*e"])
                    if printed != "":
                        chk.fail("printed-a-value-for-a-failed-input", desc, printed, "", how)
                    if e is None or type(e).__name__ != exp[1]:
                        chk.fail("star-e-is-not-the-latest-exception", dict(desc, lines=len(inp["lines"])),
                                 type(e).__name__, exp[1], how)
                    last = getattr(sys, "last_exc", None)
                    if last is not e:
                        chk.fail("sys-last-exc-is-not-star-e", desc, repr(last)[:80], repr(e)[:80], how)
                    # "a failed input never makes two of them repeat one input's result": all results are
                    # pairwise different integers, so any two equal non-None slots repeat one input's result
                    nn = [x for x in slots if x is not None]
                    if len(set(nn)) != len(nn):
                        rep = [x for x in nn if nn.count(x) > 1][0]
                        d2 = dict(desc, failed_input_kind=kind, slots=show(slots),
                                  repeated_is_previous_last_value=(len(results) > 0 and results[0] == rep))
                        chk.fail("slot-repeats-one-result-after-failed-input", d2, show(slots),
                                 "no result in two slots", how)
                # in any case the slots must hold results of evaluated inputs, latest first (ignoring repeats)
                seen = [x for k, x in enumerate(slots) if x is not None and x not in slots[:k]]
                evald = [x for x in results if x is not None]
                it = iter(evald)
                if not all(any(y == x for y in it) for x in seen):
                    chk.fail("slots-are-not-recent-results-in-order", desc, show(slots), show(results[:4]), how)
                history.append("\n".join(inp["lines"]))
                session_failed = session_failed or exp[0] == "error"
                chk.count("input:" + kind)
                chk.count("lines:%d" % len(inp["lines"]))
                chk.case((tuple(history[-3:]),), nontrivial=(exp[0] == "error" or len(inp["lines"]) > 1 or len(history) > 1),
                         sample={"session": history[-3:], "slots": [x if isinstance(x, (int, type(None))) else type(x).__name__ for x in slots]}
                         if (s * 13 + len(history)) % 211 == 5 else None)
            if not session_failed and history:
                # "like the same forms evaluated in order": the same inputs as one script must leave the same globals
                try:
                    want = script_globals(history)
                    got = {k: L.get(k, "<unbound>") for k in want}
                    if got != want:
                        chk.fail("session-differs-from-script", {"inputs": history}, got, want,
                                 "run the inputs line by line with hy.REPL().push and as one file with hy")
                    chk.count("script-equivalence-sessions")
                except Exception as ex:  # noqa: BLE001  the script fails although every REPL input succeeded
                    chk.fail("session-differs-from-script", {"inputs": history}, "every input succeeded at the REPL",
                             "script run raises %s: %s" % (type(ex).__name__, str(ex)[:100]),
                             "run the inputs as one file with hy")
    finally:
        sys.excepthook = saved


def run(chk):
    chk.trusted = TRUSTED
    chk.assumptions = [
        "results of the generated inputs are pairwise different integers, so 'two of *1 *2 *3 repeat one input's result' is "
        "'two slots hold equal non-None values'",
        "'incomplete' is judged with hy.read_many raising PrematureEndOfInput on the accumulated text",
        "an input whose evaluation fails is expected to leave *e = that exception and print nothing to stdout",
    ]
    chk.prove("Props/C40.v", ["Props/C40.vo"], [state_repl.translate])
    vlib.use_repo_in_process()
    thorough = chk.tier == "thorough"
    chk.rule = ("(a) scripted sessions of 1..8 inputs (incomplete / value / None / compile error or run-time error of 20 "
                "exception classes in either evaluation step / output_fn failing) replayed on a real hy.REPL whose compiler, "
                "code objects and output_fn are scripts, compared input by input with the generated code's run; "
                "(b) real sessions of 1..7 generated inputs (single-line, multi-line, two forms, None-valued, run-time, "
                "name, compile and lexer errors, strings with newlines) pushed line by line. non-trivial = a session prefix "
                "that contains a failing or multi-line input or more than one input")
    try:
        correspondence(chk, 1500 if thorough else 250)
    except Exception:  # noqa: BLE001  a broken model / tie must not stop the search for a failing input
        import traceback
        chk.obligation("correspondence machinery ran", False, traceback.format_exc()[-1500:])
    oracle(chk, 3000 if thorough else 400)
