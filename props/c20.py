"""C20 -- whitespace, ; comments, #_ discards and the reader sugar are transparent;
reading a concatenation of whole-form texts concatenates the model lists."""
from lib import vlib
from props import reader_common as rc
from translator import reader_tables

META = {
    "technique": "Coq proof: locality (extension) lemma for the whole reader model by induction on fuel over all modes; "
                 "concatenation theorem for arbitrary texts; round trip over a concrete-syntax-tree type with arbitrary "
                 "separators at every boundary by mutual induction; sugar = long form; dispatch table and sugar names "
                 "regenerated from the source; model-vs-implementation differential run; property oracle on hy.read_many",
    "level_text": "Theorems C20_read_print_seps, C20_seps_transparent, C20_read_concat (arbitrary texts), C20_extension, "
                  "C20_sugar_eq_long, C20_annotate_eq_long (coq/Props/C20.v) hold for all trees / texts / separators with no "
                  "size bound over the reader model of C18, whose tables are regenerated and whose behaviour is compared "
                  "with hy.read_many on every run; the property itself is evaluated on the real reader for generated "
                  "programs (random vs minimal separators, sugar vs long form, boundary-safe concatenations).",
    "level_note": "Trusted: as C18, plus the oracle hypotheses orc_ok (str.strip does not blank the tag characters) and "
                  "numeric(root)=false for the seven long-form names -- validated on every run.  The printed-tree theorems "
                  "do not have f-strings as tree nodes (the oracle and the correspondence do cover them); read_concat's "
                  "boundary condition is the conservative, decidable one (every ';' of t1 is followed by a newline).",
}

TRUSTED = [
    "Coq 8.16.1 kernel; axioms: none (Closed under the global context for every C20 theorem)",
    "oracle hypotheses: orc_ok (reader run without position annotations; str.strip() does not blank * ^ _ { ( [) and "
    "numeric(name)=false for quote quasiquote unquote unquote-splice unpack-iterable unpack-mapping annotate -- validated "
    "against the interpreter / the implementation's as_identifier on every run",
    "translator/reader_tables.py (dispatch table incl. sugar root names and annotate's argument order, NON_IDENT, whitespace)",
    "hand-written model Reader/Model.v tied by differential execution (extraction + extract/reader_driver.ml + harness)",
    "leaves of the printed trees are opaque: 'reads on its own as one form' (token-level syntax belongs to C22-C26)",
]

LONG = {"'": "quote", "`": "quasiquote", "~": "unquote", "~@": "unquote-splice", "#*": "unpack-iterable",
        "#**": "unpack-mapping", "#^": "annotate"}


def values(ires):
    return [rc.value_only(rc.canon_impl(m)) for m in ires[1]]


def run(chk):
    chk.trusted = TRUSTED
    chk.assumptions = [
        "models are compared by type and value, recursively; positions and the source text an f-string field records "
        "(FComponent.expression, the text of a debugging '=' field) are not values, so fields with '=' are not generated here",
        "concatenation is judged for pairs where no token can fuse and no line comment is open at the seam: t1 ends with a "
        "newline, or every ';' of t1 is followed by a newline and t2 starts with whitespace or a NON_IDENT character other "
        "than the double quote (DESIGN section 9); other pairs are counted, not judged",
        "a generated program whose minimal-separator printing does not read (a token the generator made is not a form) is "
        "counted as generator-invalid and not judged",
    ]
    chk.prove("Props/C20.v", ["Props/C20.vo", "Reader/Extract.vo"], [reader_tables.translate])
    thorough = chk.tier == "thorough"
    oracles = rc.Oracles()
    bad = [c for c in "*^_{([" if c.strip() == ""]
    chk.obligation("orc_ok: str.strip() does not blank any of * ^ _ { ( [", not bad, repr(bad))
    badn = [n for n in LONG.values() if oracles.numeric(n)[0]]
    chk.obligation("numeric(name) = false for the seven long-form head symbols", not badn, repr(badn))
    try:
        binary = rc.build_driver()
    except Exception as e:
        chk.obligation("extracted reader model builds", False, str(e))
        binary = None
    impl = rc.Impl()
    model = rc.Model(binary, oracles) if binary else None
    rng = chk.rng
    gen = rc.Gen(rng, debug=False)
    chk.rule = ("programs from a grammar over all form kinds (symbols, numbers, dotted names, keywords, plain/raw/bytes strings, "
                "bracket strings, f-strings with fields/conversions/nested specs, the five sequences, the seven sugar prefixes) "
                "with, at every boundary, a random separator of whitespace (all six characters), ';' comments and '#_' "
                "discards of whole forms; each is read as printed, with minimal separators, and with the sugar expanded to long "
                "forms; pairs of programs are concatenated; non-trivial = distinct program with at least one separator item or "
                "sugar prefix")

    def how(t):
        return "PYTHONPATH=%s python -c 'import hy; print(list(hy.read_many(%r)))'" % (vlib.REPO, t)

    def correspond(text, ires):
        if model is None or rc.hit_recursion_limit(ires) or ires[0] in ("Other", "Timeout"):
            return
        mres = model.read_many(text)
        d = rc.compare(text, mres, ires, oracles)
        if d:
            chk.disagree("Reader.Model.read_many vs hy.read_many", text, d, ires[0])

    n_prog = 20000 if thorough else 3000
    prev = None
    for i in range(n_prog):
        p = gen.program()
        t_rand, r = rc.render(p)
        t_min, _ = rc.render(p, "min")
        t_long, _ = rc.render(p, "long")
        i_min = impl.read_many(t_min)
        if i_min[0] != "Ok":
            chk.count("generator-invalid:" + i_min[0])
            rc.rejected_program(chk, model, t_min, i_min, oracles)
            continue
        t_flat, _ = rc.render(p, "flat")   # the discarded forms printed as ordinary items: they must be forms too
        if t_flat != t_min and impl.read_many(t_flat)[0] != "Ok":
            chk.count("generator-invalid:discarded-form")
            continue
        v_min = values(i_min)
        nontrivial = t_rand != t_min or t_long != t_min
        chk.case(t_rand, nontrivial=nontrivial,
                 sample={"printed": t_rand[:70], "minimal": t_min[:50]} if i % 400 == 3 else None)
        chk.count("forms:%d" % min(len(v_min), 5))
        # separators
        i_rand = impl.read_many(t_rand)
        if i_rand[0] != "Ok" or values(i_rand) != v_min:
            chk.fail("separators-not-transparent", {"printed": t_rand, "minimal": t_min},
                     i_rand[0] if i_rand[0] != "Ok" else values(i_rand), v_min, how(t_rand))
        correspond(t_rand, i_rand)
        correspond(t_min, i_min)
        # files (skip_shebang=True): the same forms, also after one leading whitespace character and after a shebang line
        for ft, fwhat in ((t_rand, "as printed"), (rng.choice(rc.WS) + t_min, "one leading whitespace character"),
                          ("#!/usr/bin/env hy\n" + t_rand, "after a shebang line")):
            i_f = impl.read_many(ft, skip_shebang=True)
            chk.count("file-read")
            if i_f[0] != "Ok" or values(i_f) != v_min:
                chk.fail("file-read-not-transparent", {"text": ft, "what": fwhat, "minimal": t_min},
                         i_f[0] if i_f[0] != "Ok" else values(i_f), v_min,
                         "list(hy.read_many(%r, skip_shebang=True))" % ft)
        # sugar
        if t_long != t_min:
            chk.count("with-sugar")
            i_long = impl.read_many(t_long)
            if i_long[0] != "Ok" or values(i_long) != v_min:
                chk.fail("sugar-differs-from-long-form", {"sugar": t_min, "long": t_long},
                         i_long[0] if i_long[0] != "Ok" else values(i_long), v_min, how(t_long))
            correspond(t_long, i_long)
        # concatenation with the previous program, with a few seams
        if prev is not None:
            for seam in ("", "\n", " ", ";c\n"):
                t1, v1 = prev
                t1 = t1 + seam
                i1 = impl.read_many(t1)
                if i1[0] != "Ok":
                    continue
                t2 = t_rand
                safe = t1 == "" or t2 == "" or t1.endswith("\n") or rc.boundary_safe(t1, t2)
                chk.count("concat:" + ("judged" if safe else "not-boundary-safe"))
                if not safe:
                    continue
                i12 = impl.read_many(t1 + t2)
                want = values(i1) + v_min
                chk.case(("concat", t1, t2), nontrivial=True)
                if i12[0] != "Ok" or values(i12) != want:
                    chk.fail("concatenation", {"t1": t1, "t2": t2}, i12[0] if i12[0] != "Ok" else values(i12), want, how(t1 + t2))
                if seam == "":
                    correspond(t1 + t2, i12)
        prev = (t_rand, v_min)
    # user-defined reader macros (props/reader_common.macro_reader; oracle only): separators and concatenation stay
    # transparent in a reader that has run such macros -- including ones that use end_identifier
    mgen = rc.Gen(rng, fstrings=False, depth=3, debug=False, rmacros=True)
    mprev = None
    for i in range(8000 if thorough else 700):
        p = mgen.program()
        t_rand, _ = rc.render(p)
        t_min, _ = rc.render(p, "min")
        if not any(("#" + t) in t_min for t in "RT|KPED"):
            continue
        i_min = impl.read_many(t_min, reader=rc.macro_reader())
        t_flat, _ = rc.render(p, "flat")
        if i_min[0] != "Ok" or impl.read_many(t_flat, reader=rc.macro_reader())[0] != "Ok":
            chk.count("macro:generator-invalid")
            continue
        v_min = values(i_min)
        chk.case(("macro", t_rand), nontrivial=True)
        chk.count("macro-program")
        mh = "R = props.reader_common.macro_reader(); list(hy.read_many(%r, reader=R))"
        i_rand = impl.read_many(t_rand, reader=rc.macro_reader())
        if i_rand[0] != "Ok" or values(i_rand) != v_min:
            chk.fail("separators-not-transparent", {"printed": t_rand, "minimal": t_min, "reader": "macro_reader"},
                     i_rand[0] if i_rand[0] != "Ok" else values(i_rand), v_min, mh % t_rand)
        if mprev is not None:
            for seam in ("\n", " "):
                t1 = mprev[0] + seam
                i12 = impl.read_many(t1 + t_rand, reader=rc.macro_reader())
                want = mprev[1] + v_min
                chk.count("macro-concat")
                if i12[0] != "Ok" or values(i12) != want:
                    chk.fail("concatenation", {"t1": t1, "t2": t_rand, "reader": "macro_reader"},
                             i12[0] if i12[0] != "Ok" else values(i12), want, mh % (t1 + t_rand))
        mprev = (t_rand, v_min)
    if model:
        model.close()


def setup():
    rc.build_driver()
