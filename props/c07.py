"""C07 -- nonlocal and global reach the binding scoping prescribes."""
import json
import time

from lib import vlib
from props import scope_common as sc
from props import scope_oracle as so
from props import scope_progs as sp
from props import scope_trace as tr
from translator import scope_sets

META = {
    "technique": "Coq proofs over a line-by-line model of ResolveOuterVars.visit_OuterVar and a state-machine model of the "
                 "four scope classes (unbounded nesting / name lists / event sequences), two refutations with witnesses; "
                 "model-vs-implementation correspondence on the scope-event traces recorded from real compilations; "
                 "generated programs judged against a lexical reference interpreter",
    "level_text": "C07_outer_resolution, C07_module_names_become_global, C07_global_always_module, C07_global_not_propagated, "
                  "C07_decl_after_use_is_error, C07_use_then_declare_rejected hold for every scope chain, name list and "
                  "machine state; C07_let_elision (all and only the names an outer let of the same function binds are elided); "
                  "C07_nonlocal_names_have_function_binding_refuted shows where the faithful model breaks the property "
                  "(replayed on the implementation). The machine is compared with "
                  "hy/scoping.py on every recorded trace of every run; the dynamic statement (assignments after a "
                  "declaration change exactly the chosen binding) is checked by execution against the reference interpreter.",
    "level_note": "assign_after_decl_hits_binding is not proved in Coq (it needs Python's closure semantics); it is the oracle's "
                  "job. The compile walk that produces the events (compile_global_or_nonlocal, compile_function_*) is "
                  "covered by the recorded traces, not by a Gallina walk.",
}

TRUSTED = [
    "Coq 8.16.1 kernel (coqc, full .vo); vm_compute for the refutation witnesses",
    "axioms: none (Print Assumptions: Closed under the global context for every C07 theorem)",
    "hand-written models Scope/OuterVars.v and Scope/Machine.v of hy/scoping.py, tied by differential execution on "
    "recorded scope-event traces (props/scope_trace.py patches the scope classes in the harness process to log the "
    "calls the compiler makes; vlib.coq_eval runs the Gallina machine on the same events)",
    "translator/scope_sets.py for the two set-to-list conversions the model mirrors (Gen/SetUses.v)",
    "the lexical reference interpreter props/scope_progs.py (written from docs/api.rst and Python's scoping rules), "
    "the generator and the harness; CPython as executor of the compiled programs",
    sc.DEVIATION_TRUST,
]

WITNESSES = [
    ("regression:let-elision (fixed 87cbe18; Coq: C07_let_elision)",
     [("defn", "f1", [], [("let", [("x", ("lit", 1)), ("y", ("lit", 2))],
                           [("let", [("z", ("lit", 3))],
                             [("nonlocal", ["x", "y"]), ("setv", "y", ("lit", 5)), ("ref", "r1", "y")]),
                            ("ref", "r2", "y")])]),
      ("call", ("sym", "f1"), [])]),
    ("witness:class-attribute (Coq: C07_nonlocal_names_have_function_binding_refuted)",
     [("setv", "x", ("lit", 1)),
      ("class", "C1", [("x", 2)], [("defn", "m", ["self"], [("nonlocal", ["x"]), ("setv", "x", ("lit", 3)),
                                                            ("ref", "r1", "x")])]),
      ("callm", "C1", "m"), ("ref", "r2", "x")]),
    ("witness:defn of a name declared nonlocal that an enclosing let binds",
     [("let", [("x", ("lit", 6))],
       [("defn", "f1", [], [("nonlocal", ["x"]), ("defn", "x", [], [("lit", 1)]), ("ref", "r1", "x")]),
        ("call", ("sym", "f1"), []), ("ref", "r2", "x")])]),
]


def run(chk):
    chk.trusted = TRUSTED
    chk.assumptions = [
        "programs about which the property makes no claim are filtered by the generator and counted: declarations at "
        "module level or of a parameter, (nonlocal x) directly in the body of the let that binds x, global of a name "
        "let-bound in the same function, a declaration after a use that sits in a nested function (Python accepts, Hy "
        "rejects), defn of a let-bound name, (nonlocal x) in a comprehension body unless the scope directly containing "
        "the form assigns x (function) / at module level x is assigned at module level, setv inside a comprehension",
        "an expected 'no binding' program may be rejected with any SyntaxError; an expected 'declared after use' program "
        "must be rejected with a HySyntaxError saying so",
    ]
    so.register_matchers(chk, "C07")
    t0 = time.time()
    chk.prove("Props/C07.v", ["Props/C07.vo", "Gen/SetUses.vo"], [scope_sets.translate])
    sc.coqchk(chk, "HyV.Props.C07")
    phases = chk.extra.setdefault("phase_seconds", {})
    phases["proof"] = round(time.time() - t0, 1)
    thorough = chk.tier == "thorough"

    # programs: witnesses first, then generated (c07 flavour; some c06 flavour for the trace correspondence only)
    labelled = list(WITNESSES)
    g7 = sp.Gen(chk.rng, "c07")
    for i in range(15000 if thorough else 700):
        labelled.append(("c07:%d" % i, g7.program()))
    for i in range(400 if thorough else 25):
        labelled.append(("scenario-global-in-lets:%d" % i, g7.scenario("global-in-lets")))
        labelled.append(("scenario-two-nonlocals:%d" % i, g7.scenario("two-nonlocals")))
        labelled.append(("scenario-comp-nonlocal:%d" % i, g7.scenario("comp-nonlocal")))
    g6 = sp.Gen(chk.rng, "c06")
    for i in range(4000 if thorough else 100):
        labelled.append(("c06:%d" % i, g6.program()))
    chk.rule = ("programs = the former let-elision witness (regression) and the Coq class-attribute witness rendered as Hy + seeded random programs nesting defn / let / "
                "defclass up to depth 4 over the names x y z, with (nonlocal ..)/(global ..) of 1-3 names at function start, "
                "inside lets, inside a comprehension body (scenario), and (8%) after a use; module level and function level; every reference logged. Each is "
                "(a) compiled with the scope classes instrumented: recorded events -> Gallina machine, outputs compared; "
                "(b) executed, log / exception / module globals compared with the lexical reference interpreter. "
                "non-trivial = distinct program with a nonlocal/global declaration on which the reference makes a claim")
    t1 = time.time()
    so.correspondence(chk, labelled, limit=(6000 if thorough else 450))
    phases["trace correspondence"] = round(time.time() - t1, 1)
    t2 = time.time()
    so.oracle(chk, "C07", [x for x in labelled if not x[0].startswith("c06:")], need=("nonlocal", "global"))
    phases["oracle"] = round(time.time() - t2, 1)


def replay(path):
    return so.replay(path)
