"""Tie T3 for hy/scoping.py: record, in the harness process and without touching /repo, every
call the compiler makes on the scope objects (the scope *events* of coq/Scope/Machine.v) while it
compiles a program, together with what the scope classes did (final names of all nodes, errors,
ScopeGen.finalize results, ResolveOuterVars results); then run the Gallina machine on the recorded
event sequence and compare.  Calls that the scope classes make on each other are not events."""
import ast
import contextlib
import re
import types
import warnings

from lib import vlib


class Trace:
    def __init__(self):
        self.events = []          # tuples
        self.nodes = []           # label -> node object (kept alive)
        self.labels = {}          # id(node) -> label
        self.sids = {}            # id(scope) -> sid
        self.scopes = []          # keep alive
        self.fin = []             # finalize observations
        self.outer = []           # (label, [(kind, names)])
        self.error = None
        self.error_at = None      # number of events recorded when the scope error was raised
        self.unmodelled = []
        self.depth = 0
        self.global_scope = None

    def sid(self, scope):
        k = id(scope)
        if k not in self.sids:
            self.sids[k] = len(self.sids)
            self.scopes.append(scope)
        return self.sids[k]

    def label(self, node):
        k = id(node)
        if k in self.labels:
            return self.labels[k], False
        self.labels[k] = len(self.nodes)
        self.nodes.append(node)
        return self.labels[k], True

    def final_names(self, S):
        out = []
        for n in self.nodes:
            v = getattr(n, S.NodeRef.ACCESSOR[type(n)])
            out.append(list(v) if isinstance(v, list) else [v])
        return out


def node_names(S, node):
    v = getattr(node, S.NodeRef.ACCESSOR[type(node)])
    return list(v) if isinstance(v, list) else [v]


@contextlib.contextmanager
def recording(hy):
    """patch hy.scoping for the duration; yields a function new_trace() -> Trace to start one compile"""
    import hy.scoping as S
    cur = {"t": None}
    saved = []

    def patch(cls, attr, fn):
        saved.append((cls, attr, cls.__dict__[attr]))
        setattr(cls, attr, fn)

    def external(t):
        return t is not None and t.depth == 0

    def kind_of(scope):
        if isinstance(scope, S.ScopeGen):
            return "KGen"
        if isinstance(scope, S.ScopeFn):
            return "KFn" if scope.is_fn else "KClass"
        if isinstance(scope, S.ScopeLet):
            return "KLet"
        return "KGlobal"

    def wrap_enter(cls):
        orig = cls.__dict__["__enter__"]

        def f(self):
            t = cur["t"]
            if external(t):
                if isinstance(self, S.ScopeGlobal):
                    t.global_scope = self
                    t.sid(self)
                else:
                    args = sorted(self.defined) if isinstance(self, S.ScopeFn) else []
                    t.events.append(("enter", kind_of(self), t.sid(self), args))
            if t:
                t.depth += 1
            try:
                return orig(self)
            finally:
                if t:
                    t.depth -= 1
        patch(cls, "__enter__", f)

    def wrap_exit(cls):
        orig = cls.__dict__["__exit__"]

        def f(self, *a):
            t = cur["t"]
            ext = external(t)
            if ext:
                t.events.append(("exit",))
            if t:
                t.depth += 1
            try:
                return orig(self, *a)
            except SyntaxError as e:
                if ext and t.error is None:
                    t.error = e.msg
                    t.error_at = len(t.events)
                raise
            finally:
                if t:
                    t.depth -= 1
        patch(cls, "__exit__", f)

    def wrap_node_method(cls, attr, evname):
        orig = cls.__dict__[attr]

        def f(self, node, index=None):
            t = cur["t"]
            if external(t):
                if isinstance(node, S.NodeRef):
                    t.unmodelled.append("%s called with a NodeRef from outside" % attr)
                elif type(node) not in S.NodeRef.ACCESSOR:
                    t.unmodelled.append("%s on %s" % (attr, type(node).__name__))
                else:
                    l, new = t.label(node)
                    names = node_names(S, node)
                    if new and len(names) == 1 and index in (None, 0):
                        t.events.append((evname, names[0]))
                    elif not new and evname == "assign" and len(names) == 1:
                        t.events.append(("assign_node", l, names[0]))
                    else:
                        t.unmodelled.append("%s of %s node (new=%s, index=%r)" % (attr, type(node).__name__, new, index))
            if t:
                t.depth += 1
            try:
                return orig(self, node, index)
            finally:
                if t:
                    t.depth -= 1
        patch(cls, attr, f)

    def wrap_define(cls):
        orig = cls.__dict__["define"]

        def f(self, name):
            t = cur["t"]
            # ScopeFn.__init__ defines the parameters on the not-yet-entered scope: those reach the
            # machine as the `args` of the enter event, not as define events of the current scope
            if external(t) and self.compiler.scope is self:
                t.events.append(("define", str(name)))
            if t:
                t.depth += 1
            try:
                return orig(self, name)
            finally:
                if t:
                    t.depth -= 1
        patch(cls, "define", f)

    def wrap_define_nonlocal(cls):
        orig = cls.__dict__["define_nonlocal"]

        def f(self, node, root):
            t = cur["t"]
            ext = external(t)
            if ext:
                l, new = t.label(node)
                if not new:
                    t.unmodelled.append("define_nonlocal of a known node")
                t.events.append(("decl", "RNonlocal" if root == "nonlocal" else "RGlobal", list(node.names)))
            if t:
                t.depth += 1
            try:
                return orig(self, node, root)
            except SyntaxError as e:
                if ext and t.error is None:
                    t.error = e.msg
                    t.error_at = len(t.events)
                raise
            finally:
                if t:
                    t.depth -= 1
        patch(cls, "define_nonlocal", f)

    orig_add = S.ScopeLet.__dict__["add"]

    def add(self, target, new_name=None):
        t = cur["t"]
        res = orig_add(self, target, new_name)
        if t is not None and isinstance(target, (str, hy.models.Symbol)):
            t.events.append(("let_add", t.sid(self), hy.mangle(target), str(res)))
        return res
    patch(S.ScopeLet, "add", add)

    orig_iter = S.ScopeGen.__dict__["iterator"]

    def iterator(self, target):
        t = cur["t"]
        if external(t):
            t.events.append(("iterator", [n.id for n in ast.walk(target) if isinstance(n, ast.Name)]))
        return orig_iter(self, target)
    patch(S.ScopeGen, "iterator", iterator)

    orig_fin = S.ScopeGen.__dict__["finalize"]

    def finalize(self):
        t = cur["t"]
        ext = external(t)
        if ext:
            t.events.append(("finalize",))
        if t:
            t.depth += 1
        try:
            res = orig_fin(self)
        finally:
            if t:
                t.depth -= 1
        if ext:
            t.fin.append({"names": list(res), "exposing": bool(self.exposing_assignments),
                          "nonlocal_stmt": bool(S.is_inside_function_scope(self.parent)),
                          "gen_nonlocals": sorted(self.nonlocal_vars)})
        return res
    patch(S.ScopeGen, "finalize", finalize)

    orig_visit = S.ResolveOuterVars.__dict__["visit_OuterVar"]

    def visit_OuterVar(self, node):
        t = cur["t"]
        res = orig_visit(self, node)
        if t is not None and id(node) in t.labels:
            t.outer.append((t.labels[id(node)], [(type(x).__name__, list(x.names)) for x in res]))
        return res
    patch(S.ResolveOuterVars, "visit_OuterVar", visit_OuterVar)

    wrap_enter(S.ScopeBase)
    wrap_enter(S.ScopeGen)
    wrap_exit(S.ScopeBase)
    wrap_exit(S.ScopeGlobal)
    wrap_exit(S.ScopeFn)
    for cls in (S.ScopeGlobal, S.ScopeLet, S.ScopeFn, S.ScopeGen):
        if "access" in cls.__dict__:
            wrap_node_method(cls, "access", "access")
        if "assign" in cls.__dict__:
            wrap_node_method(cls, "assign", "assign")
    for cls in (S.ScopeGlobal, S.ScopeLet, S.ScopeFn):
        wrap_define(cls)
        wrap_define_nonlocal(cls)

    def start():
        cur["t"] = Trace()
        return cur["t"]

    def stop():
        cur["t"] = None
    try:
        yield start, stop
    finally:
        cur["t"] = None
        for cls, attr, val in reversed(saved):
            setattr(cls, attr, val)


def compile_traced(hy, start, stop, src, idx=0):
    """compile src with recording; returns (Trace, observation dict)"""
    import hy.scoping as S
    from hy.compiler import hy_compile
    t = start()
    mod = types.ModuleType("tracemod_%d" % idx)
    obs = {}
    try:
        with warnings.catch_warnings():
            warnings.simplefilter("ignore")
            tree = hy_compile(hy.read_many(src), mod)
        obs["py"] = ast.unparse(tree)
    except BaseException as e:  # noqa
        obs["compile_err"] = "%s: %s" % (type(e).__name__, (getattr(e, "msg", None) or str(e))[:160])
    finally:
        stop()
    obs["final_names"] = t.final_names(S)
    obs["error"] = t.error
    obs["fin"] = t.fin
    obs["outer"] = t.outer
    obs["unmodelled"] = t.unmodelled
    return t, obs


# ------------------------------------------------------------------ Gallina rendering / parsing

def qn(s):
    return vlib.coq_text(s)


def render_event(e):
    k = e[0]
    if k == "enter":
        return "EEnter %s %d [%s]" % (e[1], e[2], "; ".join(qn(a) for a in e[3]))
    if k == "exit":
        return "EExit"
    if k == "access":
        return "EAccess %s" % qn(e[1])
    if k == "assign":
        return "EAssign %s" % qn(e[1])
    if k == "assign_node":
        return "EAssignNode %d %s" % (e[1], qn(e[2]))
    if k == "define":
        return "EDefine %s" % qn(e[1])
    if k == "decl":
        return "EDecl %s [%s]" % (e[1], "; ".join(qn(a) for a in e[2]))
    if k == "let_add":
        return "ELetAdd %d %s %s" % (e[1], qn(e[2]), qn(e[3]))
    if k == "iterator":
        return "EIterator [%s]" % "; ".join(qn(a) for a in e[1])
    if k == "finalize":
        return "EFinalize"
    raise ValueError(e)


MODEL_DEFS = """
Definition err_code (e : option error) : list (list N) :=
  match e with
  | None => []
  | Some (ErrDeclAfterUse x RGlobal) => [[1]%N; x]
  | Some (ErrDeclAfterUse x RNonlocal) => [[2]%N; x]
  | Some (ErrNoBinding x) => [[3]%N; x]
  | Some ErrStuck => [[4]%N]
  end.
Definition fin_code (f : fin_out) := (fo_names f, fo_exposing f, fo_nonlocal_stmt f, fo_gen_nonlocals f).
Definition ostmt_code (o : ostmt) := match o with OGlobal l => (0%N, l) | ONonlocal l => (1%N, l) end.
Definition observe (evs : list event) :=
  let st := run (fun l => l) finalize_order evs init_state in
  (st_cells st, err_code (st_err st), map fin_code (st_fin st),
   map (fun p => (fst p, map ostmt_code (snd p))) (resolve_outervars (fun l => l) outervar_nonlocal_order st)).
"""
MODEL_IMPORTS = ["HyV.Base.Text", "HyV.Scope.SetDecl", "HyV.Scope.OuterVars", "HyV.Scope.Machine", "HyV.Gen.SetUses"]


def model_expr(events):
    return "observe [%s]" % "; ".join(render_event(e) for e in events)


class _P:
    """parser for the printed normal forms: nested pairs, lists, N numerals, bools"""

    def __init__(self, s):
        self.s = s
        self.i = 0

    def ws(self):
        while self.i < len(self.s) and self.s[self.i].isspace():
            self.i += 1

    def val(self):
        self.ws()
        c = self.s[self.i]
        if c == "(":
            self.i += 1
            items = [self.val()]
            self.ws()
            while self.s[self.i] == ",":
                self.i += 1
                items.append(self.val())
                self.ws()
            assert self.s[self.i] == ")", self.s[self.i:self.i + 30]
            self.i += 1
            self.suffix()
            return items[0] if len(items) == 1 else tuple(items)
        if c == "[":
            self.i += 1
            items = []
            self.ws()
            if self.s[self.i] == "]":
                self.i += 1
                self.suffix()
                return items
            while True:
                items.append(self.val())
                self.ws()
                if self.s[self.i] == ";":
                    self.i += 1
                    continue
                assert self.s[self.i] == "]", self.s[self.i:self.i + 30]
                self.i += 1
                self.suffix()
                return items
        m = re.compile(r"true|false|\d+").match(self.s, self.i)
        assert m, self.s[self.i:self.i + 30]
        self.i = m.end()
        self.suffix()
        t = m.group(0)
        return True if t == "true" else False if t == "false" else int(t)

    def suffix(self):
        m = re.compile(r"%\w+").match(self.s, self.i)
        if m:
            self.i = m.end()


def parse_model(out):
    return _P(out).val()


def txt(codes):
    return "".join(chr(c) for c in codes)


def decode_model(v):
    cells, err, fin, outer = v
    res = {"final_names": [[txt(n) for n in cell] for cell in cells]}
    if not err:
        res["error"] = None
    else:
        code = err[0][0]
        x = txt(err[1]) if len(err) > 1 else ""
        res["error"] = {1: "name '%s' is declared global after being used" % x,
                        2: "name '%s' is declared nonlocal after being used" % x,
                        3: "no binding for nonlocal '%s'" % x, 4: "<machine stuck>"}[code]
    res["fin"] = [{"names": [txt(n) for n in f[0]], "exposing": f[1], "nonlocal_stmt": f[2],
                   "gen_nonlocals": [txt(n) for n in f[3]]} for f in fin]
    res["outer"] = [(l, [("Global" if k == 0 else "Nonlocal", [txt(n) for n in names]) for k, names in stmts])
                    for l, stmts in outer]
    return res


def compare(model, obs, outervar_sorted):
    """list of differences between the decoded model output and the implementation's observation"""
    diffs = []
    if model["error"] is None and obs["error"] is None and model["final_names"] != obs["final_names"]:
        for l, (a, b) in enumerate(zip(model["final_names"], obs["final_names"])):
            if a != b:
                diffs.append("node %d: model %r impl %r" % (l, a, b))
                break
        if len(model["final_names"]) != len(obs["final_names"]):
            diffs.append("node count: model %d impl %d" % (len(model["final_names"]), len(obs["final_names"])))
    if model["error"] != obs["error"]:
        diffs.append("error: model %r impl %r" % (model["error"], obs["error"]))
    if obs["error"] is None and "compile_err" not in obs:
        if model["fin"] != obs["fin"]:
            diffs.append("finalize: model %r impl %r" % (model["fin"], obs["fin"]))

        def canon(o):
            return [(l, [(k, ns if (k == "Global" or outervar_sorted) else sorted(ns)) for k, ns in st]) for l, st in o]
        if canon(model["outer"]) != canon([(l, st) for l, st in obs["outer"]]):
            diffs.append("ResolveOuterVars: model %r impl %r" % (model["outer"], obs["outer"]))
    return diffs


# ------------------------------------------------------------------ the walk model (Scope/Walk.v) and the lexical resolver

WALK_IMPORTS = MODEL_IMPORTS + ["HyV.Scope.Walk", "HyV.Scope.Lexical"]
WALK_DEFS = MODEL_DEFS + """
Local Open Scope nat_scope.
Definition kind_code (k : skind) : nat := match k with KGlobal => 0 | KLet => 1 | KFn => 2 | KClass => 3 | KGen => 4 end.
Definition enc_event (e : event) : nat * nat * nat * list name :=
  match e with
  | EEnter k sid args => (0, kind_code k, sid, args)
  | EExit => (1, 0, 0, [])
  | EAccess x => (2, 0, 0, [x])
  | EAssign x => (3, 0, 0, [x])
  | EAssignSame => (10, 0, 0, [])
  | EAssignNode l x => (4, l, 0, [x])
  | EDefine x => (5, 0, 0, [x])
  | EDecl RGlobal names => (6, 0, 0, names)
  | EDecl RNonlocal names => (6, 1, 0, names)
  | ELetAdd sid x new => (7, sid, 0, [x; new])
  | EIterator xs => (8, 0, 0, xs)
  | EFinalize => (9, 0, 0, [])
  end.
(* the walk's events with each EAssignSame resolved to the name the machine gives it *)
Fixpoint expand (evs : list event) (st : state) : list event :=
  match evs with
  | [] => []
  | e :: r =>
      let e' := match e with
                | EAssignSame => EAssign (name_of (st_cells st) (NR (length (st_cells st) - 1) 0))
                | _ => e
                end in
      e' :: expand r (step (fun l => l) finalize_order st e)
  end.
Definition walk_events (fs : list form) := map enc_event (expand (module_events hy_let_name fs) init_state).
Definition machine_vs_lex (fs : list form) :=
  let st := run (fun l => l) finalize_order (module_events hy_let_name fs) init_state in
  let lx := lex_module hy_let_name fs in
  (l_ok lx, st_cells st, l_cells lx).
"""


def form_to_coq(f):
    """program AST (props/scope_progs.py) -> Gallina [form]; None if outside the walk model"""
    k = f[0]
    if k == "lit":
        return "FLit"
    if k == "sym":
        return "(FRef %s)" % qn(f[1])
    if k == "ref":
        return "(FCall (FRef %s) [FLit; FRef %s])" % (qn("lg"), qn(f[2]))
    if k in ("setv", "setx"):
        e = form_to_coq(f[2])
        return None if e is None else "(FSetv %s %s)" % (qn(f[1]), e)
    if k == "do":
        es = [form_to_coq(x) for x in f[1]]
        return None if None in es else "(FDo [%s])" % "; ".join(es)
    if k == "let":
        bs = [(x, form_to_coq(e)) for x, e in f[1]]
        body = [form_to_coq(x) for x in f[2]]
        if None in body or any(e is None for _, e in bs):
            return None
        return "(FLet [%s] [%s])" % ("; ".join("(%s, %s)" % (qn(x), e) for x, e in bs), "; ".join(body))
    if k in ("fn", "defn") and any(not isinstance(p, str) for p in (f[1] if k == "fn" else f[2])):
        return None      # parameter defaults are compiled in the enclosing scope: outside the walk model
    if k == "fn":
        body = [form_to_coq(x) for x in f[2]]
        return None if None in body else "(FFn [%s] [%s])" % ("; ".join(qn(p) for p in f[1]), "; ".join(body))
    if k == "defn":
        body = [form_to_coq(x) for x in f[3]]
        return None if None in body else "(FDefn %s [%s] [%s])" % (qn(f[1]), "; ".join(qn(p) for p in f[2]), "; ".join(body))
    if k == "class":
        if f[2]:
            attrs = ["(FSetv %s FLit)" % qn(a) for a, _ in f[2]]
        else:
            attrs = []
        ms = [form_to_coq(m) for m in f[3]]
        return None if None in ms else "(FClass %s [%s])" % (qn(f[1]), "; ".join(attrs + ms))
    if k in ("nonlocal", "global"):
        return "(FDecl %s [%s])" % ("RNonlocal" if k == "nonlocal" else "RGlobal", "; ".join(qn(x) for x in f[1]))
    if k == "call":
        g = form_to_coq(f[1])
        args = [form_to_coq(a) for a in f[2]]
        return None if g is None or None in args else "(FCall %s [%s])" % (g, "; ".join(args))
    if k == "callm":
        return "(FCall (FRef %s) [])" % qn(f[1])
    return None


def program_to_coq(forms):
    fs = [form_to_coq(f) for f in forms]
    return None if None in fs else "[%s]" % "; ".join(fs)


def canon_recorded(events):
    """recorded events in the encoding of WALK_DEFS.enc_event, with the let variables renumbered
    1, 2, ... in order of creation and parameter sets sorted"""
    ren = {}
    out = []
    kinds = {"KGlobal": 0, "KLet": 1, "KFn": 2, "KClass": 3, "KGen": 4}

    def r(n):
        return ren.get(n, n)
    for e in events:
        k = e[0]
        if k == "let_add":
            m = re.match(r"(_hy_let_.*_)(\d+)$", e[3])
            if m and e[3] not in ren:
                ren[e[3]] = "%s%d" % (m.group(1), len(ren) + 1)
    for e in events:
        k = e[0]
        if k == "enter":
            out.append((0, kinds[e[1]], e[2], sorted(e[3])))
        elif k == "exit":
            out.append((1, 0, 0, []))
        elif k == "access":
            out.append((2, 0, 0, [r(e[1])]))
        elif k == "assign":
            out.append((3, 0, 0, [r(e[1])]))
        elif k == "assign_node":
            out.append((4, e[1], 0, [r(e[2])]))
        elif k == "define":
            out.append((5, 0, 0, [e[1]]))
        elif k == "decl":
            out.append((6, 1 if e[1] == "RNonlocal" else 0, 0, [r(x) for x in e[2]]))
        elif k == "let_add":
            out.append((7, e[1], 0, [e[2], r(e[3])]))
        elif k == "iterator":
            out.append((8, 0, 0, list(e[1])))
        elif k == "finalize":
            out.append((9, 0, 0, []))
    return out


def decode_walk(v):
    out = []
    for tag, a, b, names in v:
        ns = [txt(n) for n in names]
        out.append((tag, a, b, sorted(ns) if tag == 0 else ns))
    return out
