"""Shared by C32/C33: the interpreter's Unicode oracle, its validation against
the hypotheses of coq/Mangle/Facts.v, the extracted model runner, name generators."""
import os
import subprocess
import sys
import unicodedata

from lib import vlib
from translator import mangle_tables

MAXCP = 0x110000
T0, T1 = 1114112, 1114113


def nfkc(s):
    return unicodedata.normalize("NFKC", s)


def flags(c):
    xs = c != "_" and c.isidentifier()
    xc = ("a" + c).isidentifier()
    return (1 if xs else 0) | (2 if xc else 0)


def table_for(chars, lookups=()):
    """the oracle table handed to the model: code point, XID flags and unicodedata.name of every character, plus
    (flags -1) one lookup-only entry per name in `lookups` that unicodedata.lookup resolves to a single character
    under another name than unicodedata.name gives (aliases such as FF, LF, NUL)"""
    ents = []
    for c in sorted(set(chars) | {"S", "_"}):
        nm = unicodedata.name(c, "")
        ents.append("%d:%d:%s" % (ord(c), flags(c), ",".join(str(ord(x)) for x in nm)))
    for nm in sorted(set(lookups)):
        try:
            c = unicodedata.lookup(nm)
        except (KeyError, ValueError):
            continue
        if len(c) == 1 and unicodedata.name(c, "") != nm:
            ents.append("%d:-1:%s" % (ord(c), ",".join(str(ord(x)) for x in nm)))
    return ";".join(ents)


def cps(s):
    return ",".join(str(ord(c)) for c in s)


def build_driver():
    ok, log = vlib.coq_build(["Mangle/Extract.vo"])
    if not ok:
        raise RuntimeError("extraction failed: " + log[-2000:])
    ex = os.path.join(vlib.VERIF, "extract")
    return vlib.build_ocaml("mangle", [os.path.join(ex, "mangle_model.mli"), os.path.join(ex, "mangle_model.ml"),
                                       os.path.join(ex, "mangle_driver.ml")], "hymodel_mangle")


def untag(nums):
    """apply the interpreter's NFKC to every tagged region of the model's output"""
    out, stack = [], []
    for n in nums:
        if n == T0:
            stack.append(len(out))
        elif n == T1:
            i = stack.pop()
            seg = "".join(out[i:])
            del out[i:]
            out.extend(nfkc(seg))
        else:
            out.append(chr(n))
    return "".join(out)


def run_model(binary, cmd, names, extra_chars=""):
    """names: list of str.  Returns list of ('OK', str) / ('ERR', cls)."""
    lines = []
    for s in names:
        lines.append("%s\t%s\t%s\n" % (cmd, cps(s), table_for(s + extra_chars)))
    p = subprocess.run([binary], input="".join(lines), capture_output=True, text=True, timeout=3600)
    if p.returncode != 0:
        raise RuntimeError("model driver failed: " + p.stderr[-1000:])
    res = []
    for l in p.stdout.splitlines():
        kind, _, rest = l.partition(" ")
        if kind == "OK":
            nums = [int(x) for x in rest.split(",")] if rest else []
            res.append(("OK", untag(nums)))
        else:
            res.append(("ERR", rest))
    if len(res) != len(names):
        raise RuntimeError("model driver: %d results for %d inputs" % (len(res), len(names)))
    return res


def us_class(repo=None):
    import ast
    tree = ast.parse(open(os.path.join(vlib.REPO, "hy/reader/mangling.py"), encoding="utf-8").read())
    for n in tree.body:
        if isinstance(n, ast.Assign) and getattr(n.targets[0], "id", None) == "normalizes_to_underscore":
            return n.value.value
    return "_"


def validate_unicode_facts(chk, rng, nstrings=20000):
    """Each hypothesis of Facts.unicode_facts against this interpreter: per code
    point exhaustively, string-level ones on generated strings."""
    cls = set(us_class())
    bad = {}

    def note(k, c):
        bad.setdefault(k, []).append(c)
    word = set("abcdefghijklmnopqrstuvwxyzABCDEFGHIJKLMNOPQRSTUVWXYZ0123456789_")
    namechars = set("ABCDEFGHIJKLMNOPQRSTUVWXYZ0123456789 -")
    xc_chars = []
    for cp in range(MAXCP):
        c = chr(cp)
        f = flags(c)
        xs, xc = f & 1, f & 2
        if xc and cp > 127 and len(xc_chars) < 200000:
            xc_chars.append(c)
        if xs and not xc:
            note("xs_xc", cp)
        if cp < 128:
            if (c in word) != bool(xc):
                note("xc_word/xc_ascii_only_word", cp)
            if (c.isalpha()) and not xs:
                note("xs_letter", cp)
        nm = unicodedata.name(c, "")
        if nm:
            if not set(nm) <= namechars:
                note("names_alphabet", cp)
            try:
                if unicodedata.lookup(nm) != c:
                    note("name_lookup_inverse", cp)
            except KeyError:
                note("name_lookup_inverse", cp)
        if 0xD800 <= cp <= 0xDFFF:
            continue
        n = nfkc(c)
        if (c in cls) != n.startswith("_"):
            note("nfkc_head/underscore_class", cp)
        if c in cls and n != "_":
            note("nfkc_us_prefix(single)", cp)
        if xc and not ("a" + n).isidentifier():
            note("nfkc_id_closed(single,continue)", cp)
        if xs and not n.isidentifier():
            note("nfkc_id_closed(single,start)", cp)
        if nfkc(n) != n:
            note("nfkc_idem(single)", cp)
        if cp < 128 and n != c:
            note("nfkc_ascii_id(single)", cp)
    if nfkc("") != "":
        note("nfkc_nil", 0)
    # string level
    clsl = sorted(cls)
    pool = xc_chars
    for i in range(nstrings):
        k = rng.randrange(1, 8)
        t = "".join(rng.choice(pool) if rng.random() < 0.6 else rng.choice("abXz_09") for _ in range(k))
        idt = ("a" + t)
        if idt.isidentifier() and not nfkc(idt).isidentifier():
            note("nfkc_id_closed(string)", idt)
        n = nfkc(t)
        if nfkc(n) != n:
            note("nfkc_idem(string)", t)
        u = "".join(rng.choice(clsl) for _ in range(rng.randrange(0, 4)))
        if nfkc(u + t) != "_" * len(u) + nfkc(t):
            note("nfkc_us_prefix(string)", u + t)
        if t[0] not in cls and nfkc(t).startswith("_"):
            note("nfkc_head(string)", t)
        a = "".join(rng.choice("abXz_09-!. ") for _ in range(k))
        if nfkc(a) != a:
            note("nfkc_ascii_id(string)", a)
    chk.obligation("unicode_facts hypotheses hold on this interpreter (all %d code points; %d generated strings)"
                   % (MAXCP, nstrings), not bad, repr({k: v[:5] for k, v in bad.items()}))
    chk.extra["unicode_facts_validation"] = {"code_points": MAXCP, "strings": nstrings,
                                             "unicodedata": unicodedata.unidata_version, "violated": sorted(bad)}


SPECIAL = "_-.XHU!?*+<>=/&%$#@^~|\\:;'\" \t\n0aZéß𝔥ＸⅩ̇́︳＿ｈ·٣  \U0001F991"


def contexts(c):
    return [c, c + "a", "a" + c + "b", "a" + c, "__" + c, "-" + c + "-x", "a!" + c]


def gen_names(chk, rng, n_cp, n_random, exhaustive=False):
    """yield names: code points in positional contexts, then random mixes"""
    cls = us_class()
    if exhaustive:
        cpl = range(MAXCP)
    else:
        cpl = sorted(set(range(0, 0x300)) | {ord(x) for x in SPECIAL + cls}
                     | {rng.randrange(MAXCP) for _ in range(n_cp)}
                     | set(range(0xFE30, 0xFE50)) | set(range(0xFF00, 0xFF60)) | set(range(0x2160, 0x2180)))
    for cp in cpl:
        c = chr(cp)
        for s in contexts(c):
            yield ("cp", s)
    alphabet = list(SPECIAL + cls) + ["hyx_", "hyx-", "X", "XaX", "U", "H", "_", "-", ".", "a", "b1", "squid"]
    for _ in range(n_random):
        k = rng.randrange(1, 9)
        parts = []
        for _ in range(k):
            r = rng.random()
            if r < 0.7:
                parts.append(rng.choice(alphabet))
            elif r < 0.85:
                parts.append(chr(rng.randrange(0x20, 0x3000)))
            else:
                parts.append(chr(rng.randrange(MAXCP)))
        yield ("random", "".join(parts))
    # long names with many escaped characters: the unescaper must decode EVERY escape of a name, however many there are
    # (a regex `count` argument, a bounded loop or a recursion limit would show only here)
    punct = "!?*+<>=/&%$@^~|"
    for n in (15, 16, 17, 18, 31, 32, 33, 64, 100, 257):
        yield ("long-escapes", "!" * n)
        yield ("long-escapes", "a" + "!?" * n)
        yield ("long-escapes", "".join(rng.choice(punct) for _ in range(n)))
        yield ("long-escapes", "".join(rng.choice(punct + "ab-_") for _ in range(2 * n)))
        yield ("long-escapes", "".join(chr(rng.randrange(0x2190, 0x2200)) for _ in range(n)))
    for _ in range(max(20, n_random // 200)):
        yield ("long-escapes", "".join(rng.choice(punct + "abz-_.") for _ in range(rng.randrange(20, 80))))
