"""C08 -- match selects, binds and returns like Python's match statement."""
import ast
import types

from lib import vlib
from props import ops_common as oc
from translator import ops_match

META = {
    "technique": "Coq proofs over a model of compile_pattern / compile_match_expression and a combinator model of PEP 634 "
                 "pattern semantics over an abstract value domain; handler functions and the _pattern grammar pinned by "
                 "fail-closed templates; model-vs-implementation runs (emitted pattern AST; pmatch against CPython's match "
                 "statement; the reference semantics against the rendered Python pattern); differential oracle: each "
                 "generated Hy match against the rendered Python match statement on matching-biased subjects",
    "level_text": "Theorems in coq/Props/C08.v hold for every pattern of Hy's match sublanguage of any depth and every "
                  "subject of any value domain: the emitted pattern matches exactly the subjects the reference says, with "
                  "the same bindings (names mangled), and is one compile() accepts when the Hy pattern is well formed; a "
                  "match form evaluates to the result of the first case whose pattern matches and whose guard holds -- "
                  "guards compiling to statements are lifted into functions that the right case calls -- and to None "
                  "otherwise; a pattern compile_pattern rejects (`p :as n` for any spelling n of _, (| ...) with fewer than two alternatives, "
                  "(. ...) without an attribute) is exactly one whose emitted node compile() would reject. "
                  "Three defects the first version refuted (class-pattern keywords not mangled, the string "
                  "literals \"None\"/\"True\"/\"False\", #* _) were repaired in /repo (7ce654c, 05b9a7b, 24b6ab7); their "
                  "reproducers run first from corpus/C08.",
    "level_note": "Trusted: Coq kernel; translator/ops_match.py (templates); Ops/PyMatch.v, the hand-written combinator "
                  "model of PEP 634 (validated against CPython's match statement on every generated pattern x subject); "
                  "Python closure semantics for the lifted guard functions (they read the case's bindings at call time); "
                  "the result forms and guards are opaque functions of the bindings; statement-level details of result "
                  "forms (C01) and scope registration of captured names (C06) are outside this property.",
}

TRUSTED = [
    "Coq 8.16.1 kernel (coqc, full .vo); no native_compute",
    "axioms: none (Print Assumptions: Closed under the global context for every C08 theorem)",
    "translator/ops_match.py: the _pattern grammar, compile_pattern and compile_match_expression matched against templates; "
    "regenerated constants (singleton names, wildcard, heads, Keyword class path, whether kwd_attrs is mangled)",
    "Ops/PyMatch.v: hand-written model of PEP 634 (sequence/mapping/class/or/as/capture/value/singleton patterns, "
    "what compile() rejects) -- validated against CPython on every run, not proved",
    "Ops/Pattern.v: hand-written model of compile_pattern and compile_match_expression -- validated against hy_compile "
    "(emitted ast.pattern) on every run",
    "lifted guards: Python's closure semantics (a nested def reads the enclosing scope's variables at call time)",
]

IMPORTS = ["HyV.Ops.PyMatch", "HyV.Gen.MatchTables", "HyV.Ops.Pattern", "HyV.Ops.PatternVal"]
MANGLE = {"a-b": "a_b", "v-1": "v_1", "v-2": "v_2", "k-one": "k_one", "r-est": "r_est", "w-x": "w_x",
          "\uff3f": "_"}   # FULLWIDTH LOW LINE: another spelling of _ (d26852d)
DEFS = ("Open Scope string_scope.\nDefinition mg (s : string) : string := %s.\n"
        "Definition nm : list (list string * cval) := [([\"mm\"; \"K\"], CInt 5); ([\"mm\"; \"S\"], CStr \"s\"); "
        "([\"mm\"; \"k_one\"], CInt 1)].\n" % (
            "".join('if String.eqb s "%s" then "%s" else ' % kv for kv in MANGLE.items()) + "s"))


def mangle(s):
    return MANGLE.get(s, s)


# ------------------------------------------------------------------ Hy patterns (Python-side representation)
# ("lit", kind, payload)  ("sym", s)  ("or", [p])  ("value", [names])  ("seq", "list"|"tuple", [p])  ("star", name)
# ("map", [(lit, p)], rest)  ("class", [names], [p], [(kw, p)])  ("kw", name)  ("as", p, name)

def lit_py(l):
    k, x = l[1], l[2]
    if k == "int":
        return x
    if k == "str":
        return x
    if k == "bytes":
        return x.encode()
    if k == "float":
        return 0.5 + x
    return complex(0, 1 + x)


def lit_hy(l):
    k, x = l[1], l[2]
    if k == "str":
        return '"%s"' % x
    if k == "bytes":
        return 'b"%s"' % x
    return repr(lit_py(l))


def lit_coq(l):
    k, x = l[1], l[2]
    if k == "int":
        return "(LInt (%d)%%Z)" % x
    if k == "str":
        return "(LStr %s)" % oc.coq_string(x)
    if k == "bytes":
        return "(LBytes %s)" % oc.coq_string(x)
    if k == "float":
        return "(LFloat %d)" % x
    return "(LComplex %d)" % x


def pat_hy(p):
    t = p[0]
    if t == "lit":
        return lit_hy(p)
    if t == "sym":
        return p[1]
    if t == "or":
        return "(| %s)" % " ".join(pat_hy(q) for q in p[1])
    if t == "value":
        # a.b.c reads as (. a b c); fewer than two symbols can only be written in the long form
        return ".".join(p[1]) if len(p[1]) >= 2 else "(. %s)" % " ".join(p[1])
    if t == "seq":
        inner = " ".join(pat_hy(q) for q in p[2])
        return "[%s]" % inner if p[1] == "list" else "#(%s)" % inner
    if t == "star":
        return "#* " + p[1]
    if t == "map":
        inner = " ".join("%s %s" % (lit_hy(k), pat_hy(q)) for k, q in p[1])
        if p[2]:
            inner += " #** " + p[2]
        return "{%s}" % inner
    if t == "class":
        parts = [".".join(p[1])] + [pat_hy(q) for q in p[2]] + [":%s %s" % (k, pat_hy(q)) for k, q in p[3]]
        return "(%s)" % " ".join(parts)
    if t == "kw":
        return ":" + p[1]
    if t == "as":
        return "%s :as %s" % (pat_hy(p[1]), p[2])
    raise ValueError(p)


def pat_coq(p):
    t = p[0]
    L = lambda xs: oc.coq_list(list(xs))
    S = oc.coq_string
    if t == "lit":
        return "(HLit %s)" % lit_coq(p)
    if t == "sym":
        return "(HSym %s)" % S(p[1])
    if t == "or":
        return "(HOr %s)" % L(pat_coq(q) for q in p[1])
    if t == "value":
        return "(HValue %s)" % L(S(x) for x in p[1])
    if t == "seq":
        return "(HSeq %s)" % L(pat_coq(q) for q in p[2])
    if t == "star":
        return "(HStar %s)" % S(p[1])
    if t == "map":
        return "(HMap %s %s %s)" % (L(lit_coq(k) for k, _ in p[1]), L(pat_coq(q) for _, q in p[1]), oc.coq_option(p[2], S))
    if t == "class":
        return "(HClass %s %s %s %s)" % (L(S(x) for x in p[1]), L(pat_coq(q) for q in p[2]), L(S(k) for k, _ in p[3]),
                                        L(pat_coq(q) for _, q in p[3]))
    if t == "kw":
        return "(HKeyword %s)" % S(p[1])
    if t == "as":
        return "(HAs %s %s)" % (pat_coq(p[1]), S(p[2]))
    raise ValueError(p)


def pat_python(p):
    """the equivalent Python pattern, rendered from the Hy structure (names as Python sees them)"""
    t = p[0]
    if t == "lit":
        return repr(lit_py(p))
    if t == "sym":
        return p[1] if p[1] in ("None", "True", "False", "_") else mangle(p[1])
    if t == "or":
        return "(" + " | ".join(pat_python(q) for q in p[1]) + ")"
    if t == "value":
        return ".".join(mangle(x) for x in p[1])
    if t == "seq":
        inner = ", ".join(pat_python(q) for q in p[2])
        return "[%s]" % inner if p[1] == "list" else "(%s%s)" % (inner, "," if len(p[2]) == 1 else "")
    if t == "star":
        return "*" + (p[1] if p[1] == "_" else mangle(p[1]))
    if t == "map":
        items = ["%r: %s" % (lit_py(k), pat_python(q)) for k, q in p[1]]
        if p[2]:
            items.append("**" + mangle(p[2]))
        return "{%s}" % ", ".join(items)
    if t == "class":
        items = [pat_python(q) for q in p[2]] + ["%s=%s" % (mangle(k), pat_python(q)) for k, q in p[3]]
        return "%s(%s)" % (".".join(mangle(x) for x in p[1]), ", ".join(items))
    if t == "kw":
        return "hy.models.Keyword(%r)" % p[1]
    if t == "as":
        return "(%s as %s)" % (pat_python(p[1]), mangle(p[2]))
    raise ValueError(p)


def bound_names(p):
    """Python-level names the pattern binds, in order"""
    t = p[0]
    if t == "sym":
        return [] if p[1] in ("None", "True", "False", "_") else [mangle(p[1])]
    if t == "or":
        return bound_names(p[1][0]) if p[1] else []
    if t == "seq":
        return [n for q in p[2] for n in bound_names(q)]
    if t == "star":
        return [] if p[1] == "_" else [mangle(p[1])]
    if t == "map":
        return [n for _, q in p[1] for n in bound_names(q)] + ([mangle(p[2])] if p[2] else [])
    if t == "class":
        return [n for q in p[2] for n in bound_names(q)] + [n for _, q in p[3] for n in bound_names(q)]
    if t == "as":
        return bound_names(p[1]) + [mangle(p[2])]
    return []


def irrefutable(p):
    t = p[0]
    if t == "sym":
        return p[1] not in ("None", "True", "False")
    if t == "as":
        return irrefutable(p[1])
    if t == "or":
        return any(irrefutable(q) for q in p[1])
    return False


# ------------------------------------------------------------------ values

class Pt:
    __match_args__ = ("p", "q")

    def __init__(self, **kw):
        self.__dict__.update(kw)


class Other:
    def __init__(self, **kw):
        self.__dict__.update(kw)


def make_module(hy):
    mm = types.ModuleType("mm")
    mm.Pt, mm.K, mm.S, mm.k_one = Pt, 5, "s", 1
    env = types.ModuleType("c08_scratch")
    env.Pt, env.Other, env.mm, env.hy = Pt, Other, mm, hy
    return env


def val_coq(v, hy):
    S = oc.coq_string
    if v is None:
        return "CNone"
    if v is True:
        return "CTrue"
    if v is False:
        return "CFalse"
    if isinstance(v, hy.models.Keyword):
        return "(CKw %s)" % S(v.name)
    if isinstance(v, int):
        return "(CInt (%d)%%Z)" % v
    if isinstance(v, str):
        return "(CStr %s)" % S(v)
    if isinstance(v, bytes):
        return "(CBytes %s)" % S(v.decode())
    if isinstance(v, float):
        return "(CFloat %d)" % int(v - 0.5)
    if isinstance(v, complex):
        return "(CComplex %d)" % int(v.imag - 1)
    if isinstance(v, list):
        return "(CList %s)" % oc.coq_list([val_coq(x, hy) for x in v])
    if isinstance(v, tuple):
        return "(CTuple %s)" % oc.coq_list([val_coq(x, hy) for x in v])
    if isinstance(v, dict):
        return "(CDict %s)" % oc.coq_list(["(%s, %s)" % (val_coq(k, hy), val_coq(x, hy)) for k, x in v.items()])
    if isinstance(v, (Pt, Other)):
        return "(CObj [%s] %s)" % (S(type(v).__name__), oc.coq_list(
            ["(%s, %s)" % (S(k), val_coq(x, hy)) for k, x in v.__dict__.items()]))
    raise ValueError(repr(v))


def canon_val(v, hy):
    """comparable rendering of a Python value (same shape as canon_cval of the model's value)"""
    if v is None or v is True or v is False:
        return repr(v)
    if isinstance(v, hy.models.Keyword):
        return ("kw", v.name)
    if isinstance(v, (int, str, bytes)):
        return (type(v).__name__, v)
    if isinstance(v, float):
        return ("float", int(v - 0.5))
    if isinstance(v, complex):
        return ("complex", int(v.imag - 1))
    if isinstance(v, list):
        return ("list", [canon_val(x, hy) for x in v])
    if isinstance(v, tuple):
        return ("tuple", [canon_val(x, hy) for x in v])
    if isinstance(v, dict):
        return ("dict", [(canon_val(k, hy), canon_val(x, hy)) for k, x in v.items()])
    if isinstance(v, (Pt, Other)):
        return ("obj", type(v).__name__, sorted((k, canon_val(x, hy)) for k, x in v.__dict__.items()))
    return ("?", repr(v))


def canon_cval(c):
    """coq_parse of a cval -> the canon_val shape"""
    if c in ("CNone", "CTrue", "CFalse"):
        return {"CNone": "None", "CTrue": "True", "CFalse": "False"}[c]
    t = c[0]
    if t == "CInt":
        return ("int", c[1])
    if t == "CStr":
        return ("str", c[1][1])
    if t == "CBytes":
        return ("bytes", c[1][1].encode())
    if t == "CFloat":
        return ("float", c[1])
    if t == "CComplex":
        return ("complex", c[1])
    if t == "CKw":
        return ("kw", c[1][1])
    if t == "CList":
        return ("list", [canon_cval(x) for x in c[1]])
    if t == "CTuple":
        return ("tuple", [canon_cval(x) for x in c[1]])
    if t == "CDict":
        return ("dict", [(canon_cval(kv[1]), canon_cval(kv[2])) for kv in c[1]])
    if t == "CObj":
        return ("obj", c[1][0][1], sorted((kv[1][1], canon_cval(kv[2])) for kv in c[2]))
    raise ValueError(c)


def canon_mres(parsed):
    if parsed == "MNo":
        return "MNo"
    if parsed == "MErr":
        return "MErr"
    return ("MYes", sorted((b[1][1], canon_cval(b[2])) for b in parsed[1]))


# ------------------------------------------------------------------ the pattern AST hy_compile emits -> model's ppat

def canon_ppat(p):
    S = lambda s: ("str", s)

    def vexpr(e):
        if isinstance(e, ast.Constant):
            v = e.value
            if isinstance(v, bool) or v is None:
                raise ValueError("constant")
            if isinstance(v, int):
                return ("VEConst", ("LInt", v))
            if isinstance(v, str):
                return ("VEConst", ("LStr", S(v)))
            if isinstance(v, bytes):
                return ("VEConst", ("LBytes", S(v.decode())))
            if isinstance(v, float):
                return ("VEConst", ("LFloat", int(v - 0.5)))
            if isinstance(v, complex):
                return ("VEConst", ("LComplex", int(v.imag - 1)))
        path = []
        while isinstance(e, ast.Attribute):
            path.append(e.attr)
            e = e.value
        if isinstance(e, ast.Name):
            path.append(e.id)
            return ("VEDotted", [S(x) for x in reversed(path)])
        raise ValueError(ast.dump(e))

    def opt(x, f=lambda y: y):
        return "None" if x is None else ("Some", f(x))
    if isinstance(p, ast.MatchValue):
        return ("PMatchValue", vexpr(p.value))
    if isinstance(p, ast.MatchSingleton):
        v = p.value
        if v is None:
            return ("PMatchSingleton", ("SOk", "SNone"))
        if v is True:
            return ("PMatchSingleton", ("SOk", "STrue"))
        if v is False:
            return ("PMatchSingleton", ("SOk", "SFalse"))
        return ("PMatchSingleton", ("SBadStr", S(v)))
    if isinstance(p, ast.MatchSequence):
        return ("PMatchSequence", [canon_ppat(q) for q in p.patterns])
    if isinstance(p, ast.MatchStar):
        return ("PMatchStar", opt(p.name, S))
    if isinstance(p, ast.MatchMapping):
        return ("PMatchMapping", [vexpr(k) for k in p.keys], [canon_ppat(q) for q in p.patterns], opt(p.rest, S))
    if isinstance(p, ast.MatchClass):
        cls = vexpr(p.cls)
        return ("PMatchClass", cls[1], [canon_ppat(q) for q in p.patterns], [S(a) for a in p.kwd_attrs],
                [canon_ppat(q) for q in p.kwd_patterns])
    if isinstance(p, ast.MatchAs):
        return ("PMatchAs", opt(p.pattern, canon_ppat), opt(p.name, S))
    if isinstance(p, ast.MatchOr):
        return ("PMatchOr", [canon_ppat(q) for q in p.patterns])
    raise ValueError(type(p))


def run(chk):
    chk.trusted = TRUSTED
    chk.assumptions = [
        "the equivalent Python pattern of a Hy pattern: same kind, sub-patterns in order, names mangled (captures, :as, #*, "
        "#**, dotted value and class names, class keyword attributes); (| p q) is p | q; :name is hy.models.Keyword(\"name\")",
        "repeated captures and irrefutable non-final cases are rejected by Python in both renderings and are compared as "
        "errors of the same kind; (| ...) with fewer than two alternatives, (. ...) with fewer than two symbols and "
        "`p :as n` with n mangling to _ have no Python rendering: they must be HySyntaxError (commits 61b21a1, d2a83e6, 8cfcf87, d26852d), judged in a "
        "phase of their own",
        "subjects: ints, strings, bytes, floats, None/True/False, lists, tuples, dicts, Keyword objects, instances of a class "
        "with __match_args__ and of one without",
        "a Hy match and the Python match statement agree if both return the same value, or both raise the same exception type "
        "(SyntaxError/ValueError of compile() are one class: 'rejected')",
    ]
    chk.prove("Props/C08.v", ["Props/C08.vo", "Ops/PatternVal.vo"], [ops_match.translate])
    model_ok = all(o[1] for o in chk.obligations if o[0].startswith("coq cone"))
    hy = vlib.use_repo_in_process()
    from props import c08_runs
    c08_runs.run_all(chk, hy, model_ok, chk.tier == "thorough")


def replay(path):
    """re-run the check that produced the replay file (the failing input is regenerated from the same seed)"""
    import json
    rec = json.load(open(path))
    print("replaying", rec.get("kind"), rec.get("key"), json.dumps(rec.get("input"))[:300])
    chk = vlib.Check("C08", "quick", 0)
    run(chk)
    return chk.finish()
