"""C16 -- Compile-time staging: eval-and-compile, eval-when-compile, do-mac."""
import builtins
import json
import os
import types

from lib import vlib
from props import cmd_common as cc
from translator import cmd_staging, cmd_tables

META = {
    "technique": "Coq proof over a model of compile_eval_foo_compile (compile-time trace + residual code, any nesting, "
                 "function bodies executed n times); differential run of the model against hy_compile + exec on "
                 "generated programs; subprocess histories (import from source, then from bytecode) with a "
                 "file-backed effect log",
    "level_text": "C16_run_time: for every program, with staging forms nested to any depth, the compiled code has "
                  "exactly the prescribed run-time effects and value (eval-and-compile = its body, last value; "
                  "eval-when-compile = nothing, None; do-mac = the returned code; once per execution of the position). "
                  "C16_cached_run_is_runtime_only: a load from bytecode has the run-time effects only, a load from "
                  "source the compile-time effects first.  C16_compile_time_partial: every staging body runs once at "
                  "compile time, in source order, for every program with no staging form inside an eval-and-compile "
                  "body; C16_compile_time_refuted: the unrestricted claim is false for the faithful model (the body of "
                  "eval-and-compile is compiled twice) -- recorded as a known finding and reproduced on every run.",
    "level_note": "Trusted: Coq kernel; the hand-written model Cmd/StagingModel.v (tie = differential execution "
                  "against hy_compile/exec, traces and values); do-mac is modelled for bodies that return a literal "
                  "or quoted form; compiler.eval is modelled as compile-then-run of the body in the same module.",
}

TRUSTED = [
    "Coq 8.16.1 kernel (coqc, full .vo)",
    "axioms: none (Print Assumptions: Closed under the global context for every C16 theorem)",
    "translator/cmd_staging.py (names served, `value = compiler.eval(do body)` first, what each name leaves in the "
    "program; Cmd/StagingGen.v checks the regenerated dispatch against the model's constructors)",
    "hand-written model Cmd/StagingModel.v of compile_eval_foo_compile, tied by differential execution on generated "
    "programs: compile-time trace, run-time trace, value of the last form, for top-level and value-position renderings",
    "modelled, not verified: HyASTCompiler.eval = nested compile + run in the module namespace; function definitions "
    "are `(defn f [] body) (f)...(f)`; do-mac bodies end in a literal or a quoted form (computed code values are outside "
    "the model)",
    "the .pyc round trip itself is CPython's; exercised by the subprocess histories",
]

# ------------------------------------------------------------------ programs
# a form is a tuple: ("log", k) ("const", v|None) ("do", [..]) ("eac", [..]) ("ewc", [..]) ("domac", [..], result)
# ("fn", calls, [..])


class Gen:
    def __init__(self, rng):
        self.rng = rng
        self.k = 0
        self.fn = 0

    def label(self):
        self.k += 1
        return self.k

    def body(self, depth, allow_staging=True, n=None):
        n = self.rng.choice([0, 1, 1, 2, 2, 3]) if n is None else n
        return [self.form(depth, allow_staging) for _ in range(n)]

    def form(self, depth, allow_staging=True):
        r = self.rng.random()
        if depth <= 0 or r < 0.3:
            return ("log", self.label()) if self.rng.random() < 0.8 else ("const", self.rng.choice([None, 7, 0, 42]))
        kinds = ["do", "fn"] + (["eac", "eac", "ewc", "ewc", "domac", "domac"] if allow_staging else [])
        k = self.rng.choice(kinds)
        if k == "do":
            return ("do", self.body(depth - 1, allow_staging))
        if k == "fn":
            return ("fn", self.rng.choice([0, 1, 2, 3]), self.body(depth - 1, allow_staging))
        if k == "eac":
            # mostly staging-free bodies (where the property holds), sometimes nested staging
            return ("eac", self.body(depth - 1, allow_staging and self.rng.random() < 0.3))
        if k == "ewc":
            return ("ewc", self.body(depth - 1, allow_staging))
        return ("domac", self.body(depth - 1, allow_staging), self.form(depth - 1, allow_staging))


def to_coq(f):
    t = f[0]
    lst = lambda l: "[%s]" % "; ".join(to_coq(x) for x in l)
    if t == "log":
        return "FLog %d" % f[1]
    if t == "const":
        return "FConst VNone" if f[1] is None else "FConst (VNum %d)" % f[1]
    if t == "do":
        return "FDo %s" % lst(f[1])
    if t == "eac":
        return "FEvalAndCompile %s" % lst(f[1])
    if t == "ewc":
        return "FEvalWhenCompile %s" % lst(f[1])
    if t == "domac":
        return "FDoMac %s (%s)" % (lst(f[1]), to_coq(f[2]))
    return "FFn %d %s" % (f[1], lst(f[2]))


class Render:
    """a program as Hy source; function names are numbered in rendering order.  `variants`: None = the plain
    spelling; a float = the probability of each alternative spelling (needs rng); 1.0 = always.
    Alternative spellings do not change the meaning: the mangled names eval_and_compile / eval_when_compile /
    do_mac are the same core macros, and (do x y...) may be written as a `with` whose second context manager
    needs statements and contains x:  (with [_ (NULLCM) _ (do (setv w 0) x (NULLCM))] y...)"""
    NAMES = {"eac": ("eval-and-compile", "eval_and_compile"), "ewc": ("eval-when-compile", "eval_when_compile"),
             "domac": ("do-mac", "do_mac")}

    def __init__(self, log="LOG", rng=None, variants=None):
        self.n = 0
        self.log = log
        self.rng, self.variants = rng, variants

    def alt(self):
        if not self.variants:
            return False
        return self.variants >= 1.0 or self.rng.random() < self.variants

    def name(self, t):
        return self.NAMES[t][1 if self.alt() else 0]

    def form(self, f):
        t = f[0]
        seq = lambda l: " ".join(self.form(x) for x in l)
        if t == "log":
            return "(%s %d)" % (self.log, f[1])
        if t == "const":
            return "None" if f[1] is None else str(f[1])
        if t == "do":
            if len(f[1]) >= 2 and self.alt():
                self.n += 1
                if self.n % 2:
                    return "(with [_ (NULLCM) _ (do (setv with-tmp-%d 0) %s (NULLCM))] %s)" % (
                        self.n, self.form(f[1][0]), seq(f[1][1:]))
                # a let around the forms; its variable is used after the first form (a staging form must not disturb
                # the enclosing scope)
                v = "stage-lv-%d" % self.n
                return "(let [%s 7] %s (when (!= %s 7) (%s 999)) %s)" % (v, self.form(f[1][0]), v, self.log, seq(f[1][1:]))
            return "(do %s)" % seq(f[1])
        if t == "ewc" and self.alt():
            # eval-when-compile in a branch that never runs: it still has to run while compiling, and the form is None
            # and effect-free at run time either way
            inner = "(%s %s)" % (self.name(t), seq(f[1]))
            self.n += 1
            return ["(when False %s)", "(if True None %s)", "(cond False %s)", "(if None %s None)"][self.n % 4] % inner
        if t in ("eac", "ewc"):
            return "(%s %s)" % (self.name(t), seq(f[1]))
        if t == "domac":
            b = seq(f[1])
            return "(%s %s '%s)" % (self.name(t), b, self.form(f[2]))
        self.n += 1
        name = "stage-fn-%d" % self.n
        b = seq(f[2])
        return "(do (defn %s [] %s) %s None)" % (name, b, " ".join("(%s)" % name for _ in range(f[1])))


def has_staging(f):
    t = f[0]
    if t in ("eac", "ewc", "domac"):
        return True
    if t == "do":
        return any(has_staging(x) for x in f[1])
    if t == "fn":
        return any(has_staging(x) for x in f[2])
    return False


def eac_clean(f):
    t = f[0]
    if t in ("log", "const"):
        return True
    if t == "do":
        return all(eac_clean(x) for x in f[1])
    if t == "fn":
        return all(eac_clean(x) for x in f[2])
    if t == "eac":
        return not any(has_staging(x) for x in f[1])
    if t == "ewc":
        return all(eac_clean(x) for x in f[1])
    return all(eac_clean(x) for x in f[1]) and eac_clean(f[2])


def kinds_in(f, acc):
    acc.add(f[0])
    for part in f[1:]:
        if isinstance(part, list):
            for x in part:
                kinds_in(x, acc)
        elif isinstance(part, tuple):
            kinds_in(part, acc)
    return acc


# the property's prescription, computed here independently of the Coq text
def spec_rt(f):
    t = f[0]
    if t == "log":
        return [f[1]], f[1]
    if t == "const":
        return [], f[1]
    if t in ("do", "eac"):
        return spec_rt_body(f[1])
    if t == "ewc":
        return [], None
    if t == "domac":
        return spec_rt(f[2])
    tr, _ = spec_rt_body(f[2])
    return tr * f[1], None


def spec_rt_body(l):
    tr, v = [], None
    for x in l:
        t1, v = spec_rt(x)
        tr += t1
    return tr, v


def spec_ct(f):
    t = f[0]
    if t in ("log", "const"):
        return []
    if t == "do":
        return spec_ct_body(f[1])
    if t == "fn":
        return spec_ct_body(f[2])
    if t in ("eac", "ewc"):
        return spec_ct_body(f[1]) + spec_rt_body(f[1])[0]
    return spec_ct_body(f[1]) + spec_rt_body(f[1])[0] + spec_ct(f[2])


def spec_ct_body(l):
    out = []
    for x in l:
        out += spec_ct(x)
    return out


# ------------------------------------------------------------------ running the implementation in-process

def run_inprocess(hy, src, name="c16mod"):
    """compile `src` into a new module, then exec the result twice (second time in another new module)
    -> (compile-time trace, run-time trace, value of RESULT or '<unset>', second run-time trace)"""
    from hy.compiler import hy_compile
    log = []

    def LOG(k):
        log.append(k)
        return k
    import contextlib
    builtins.LOG = LOG
    builtins.NULLCM = contextlib.nullcontext
    try:
        m = types.ModuleType(name)
        tree = hy_compile(hy.read_many(src), m)
        ct = list(log)
        del log[:]
        code = compile(tree, "<c16>", "exec")
        exec(code, m.__dict__)
        rt = list(log)
        del log[:]
        m2 = types.ModuleType(name)
        exec(code, m2.__dict__)
        rt2 = list(log)
        return ct, rt, m.__dict__.get("RESULT", "<unset>"), rt2
    finally:
        del builtins.LOG
        del builtins.NULLCM


def decode_model(o):
    d = cc._Dec(cc._nums(o))

    def tr():
        n = d.num()
        return [d.num() for _ in range(n)]

    def val():
        return None if d.num() == 0 else d.num()
    r = {"ct": tr(), "rt": tr(), "val": val(), "spec_ct": tr(), "spec_rt": tr(), "spec_val": val(), "clean": bool(d.num())}
    assert d.i == len(d.n)
    return r


def m_nested(rec, params):
    """exactly: a staging form inside an eval-and-compile body, and the observed compile-time trace is the one
    the faithful model predicts (body compiled twice); everything else about the run was as prescribed"""
    o = rec["observed"]
    return (rec["key"] == "compile-time-trace" and rec["input"].get("staging_inside_eval_and_compile") is True
            and o.get("compile_time") == o.get("model_compile_time") and o.get("run_time_ok") is True)


LOGDEF = ('(eval-and-compile (import os contextlib) (setv NULLCM contextlib.nullcontext)\n'
          '  (defn LOG [k] (with [f (open (get os.environ "C16_LOG") "a")] (.write f (+ (str k) "\\n"))) k))\n')


def check_inprocess(chk, n_programs, depth):
    hy = vlib.use_repo_in_process()
    rng = chk.rng
    progs = [[("eac", [("ewc", [("log", 1)]), ("log", 2)])],           # the refutation witness of Props/C16.v
             [("eac", [("eac", [("log", 1)]), ("log", 2)])],
             [("eac", [("domac", [("log", 1)], ("log", 2))])],
             [("fn", 2, [("eac", [("log", 1), ("const", 5)])]), ("ewc", [("log", 2), ("const", 5)])],
             # rendered with every alternative spelling (see Render): mangled macro names, `with` managers
             [("eac", [("log", 1), ("const", 7)]), ("domac", [("log", 2)], ("log", 3)), ("ewc", [("log", 4)])],
             [("do", [("ewc", [("log", 1)]), ("log", 2)]), ("do", [("eac", [("log", 3)]), ("domac", [("log", 4)], ("log", 5)), ("log", 6)])],
             [("ewc", [("log", 1)]), ("ewc", [("log", 2)]), ("ewc", [("log", 3)]), ("ewc", [("log", 4)]),
              ("do", [("eac", [("log", 5)]), ("log", 6)]), ("do", [("ewc", [("log", 7)]), ("log", 8)])]]
    n_fixed = len(progs)
    while len(progs) < n_programs:
        g = Gen(rng)
        progs.append(g.body(rng.choice([1, 2, depth, depth]), n=rng.choice([1, 1, 2, 3])))
    exprs = ["render_module [%s]" % "; ".join(to_coq(f) for f in p) for p in progs]
    outs = vlib.coq_eval(["HyV.Cmd.StagingModel"], "", exprs, tag="c16", shard=150)
    chk.matchers["c16_staging_inside_eval_and_compile"] = m_nested
    for pi, (p, o) in enumerate(zip(progs, outs)):
        variants = 1.0 if 4 <= pi < n_fixed else (0.25 if pi >= n_fixed else None)
        m = decode_model(o)
        clean = all(eac_clean(f) for f in p)
        kinds = set()
        for f in p:
            kinds_in(f, kinds)
        for k in sorted(kinds):
            chk.count("form:" + k)
        chk.count("program:" + ("no-staging-inside-eval-and-compile" if clean else "staging-inside-eval-and-compile"))
        sct, (srt, sval) = spec_ct_body(p), spec_rt_body(p)
        if (m["spec_ct"], m["spec_rt"], m["spec_val"], m["clean"]) != (sct, srt, sval, clean):
            chk.disagree("spec_ct/spec_rt of Cmd/StagingModel.v vs the prescription computed in props/c16.py",
                         to_coq(("do", p)), repr(m), repr((sct, srt, sval, clean)))
        r1, r2 = Render(rng=rng, variants=variants), Render(rng=rng, variants=variants)
        r2.n = 1      # the alternative spellings rotate with the counter: start the second rendering elsewhere
        src_top = " ".join(r1.form(f) for f in p)
        src_val = "(setv RESULT (do %s))" % " ".join(r2.form(f) for f in p)
        for style, src in (("top-level", src_top), ("value-position", src_val)):
            how = ("hy_compile(hy.read_many(SRC), module) with a builtin LOG appending to a list, then exec twice; "
                   "SRC = " + src)
            try:
                ct, rt, val, rt2 = run_inprocess(hy, src)
            except Exception as e:
                chk.fail("program-raises", {"program": src}, "%s: %s" % (type(e).__name__, str(e)[:300]), "compiles and runs", how)
                continue
            chk.case(("p", src), nontrivial=bool(kinds & {"eac", "ewc", "domac"}),
                     sample={"program": src[:300], "compile_time": ct, "run_time": rt} if len(chk.samples) < 9 and len(src) < 200 and ct else None)
            if (ct, rt) != (m["ct"], m["rt"]) or (style == "value-position" and val != m["val"]):
                chk.disagree("Cmd.StagingModel.compile/run vs hy_compile + exec (%s)" % style, src,
                             repr((m["ct"], m["rt"], m["val"])), repr((ct, rt, val)))
            inp = {"program": src, "staging_inside_eval_and_compile": not clean}
            rt_ok = rt == srt and rt2 == srt and (style != "value-position" or val == sval)
            if rt != srt:
                chk.fail("run-time-trace", inp, rt, srt, how)
            if rt2 != srt:
                chk.fail("second-execution-trace", inp, rt2, srt, how)
            if style == "value-position" and val != sval:
                chk.fail("value", inp, val, sval, how)
            if ct != sct:
                chk.fail("compile-time-trace", inp, {"compile_time": ct, "model_compile_time": m["ct"], "run_time_ok": rt_ok},
                         sct, how)


def check_histories(chk, n_programs, depth):
    """modules logging to a file, imported from source and then from bytecode in fresh interpreters"""
    cc.sweep_stale("c16")
    root = cc.mktmp("c16")
    rng = chk.rng
    try:
        cache = cc.warm_cache(root)
        cases = []
        for i in range(n_programs):
            g = Gen(rng)
            p = g.body(rng.choice([2, depth]), n=rng.choice([1, 2, 3]))
            d = os.path.join(root, "h%d" % i)
            os.makedirs(d)
            name = "stagemod%d" % i
            rr = Render(rng=rng, variants=0.25)
            src = LOGDEF + "(LOG 0)\n" + "\n".join(rr.form(f) for f in p) + "\n"
            with open(os.path.join(d, name + ".hy"), "w") as f:
                f.write(src)
            cases.append((i, p, d, name, src))

        def one(c):
            i, p, d, name, src = c
            out = []
            for step in ("fresh", "cached", "cached-again"):
                logf = os.path.join(d, "log-" + step)
                env = cc.sub_env(write_bytecode=True, pycache_prefix=cache,
                                 extra={"C16_LOG": logf, "HY_MESSAGE_WHEN_COMPILING": "1"})
                r = cc.run_cmd([vlib.PY, "-c", "import hy, %s" % name], cwd=d, env=env)
                try:
                    lines = [int(x) for x in open(logf).read().split()]
                except FileNotFoundError:
                    lines = None
                out.append((step, r, lines, ("Compiling " in r["err"])))
            return out
        results = cc.map_pool(one, cases)
    finally:
        cc.rmtmp(root)
    chk.matchers["c16_staging_inside_eval_and_compile"] = m_nested
    n = 0
    for (i, p, d, name, src), out in zip(cases, results):
        clean = all(eac_clean(f) for f in p)
        sct, (srt, _) = spec_ct_body(p), spec_rt_body(p)
        how = "write the module; PYTHONPYCACHEPREFIX=<dir> C16_LOG=<file> python -c 'import hy, %s' twice" % name
        for step, r, lines, compiled in out:
            n += 1
            chk.count("history:" + step)
            chk.case(("hist", src, step), nontrivial=bool(sct),
                     sample={"step": step, "module": src[len(LOGDEF):][:200], "log": lines} if i % 11 == 2 else None)
            inp = {"module": src, "step": step, "staging_inside_eval_and_compile": not clean}
            if r["rc"] != 0 or lines is None:
                chk.fail("import-fails:" + step, inp, {"rc": r["rc"], "err": cc.last_line(r["err"])}, "imports", how)
                continue
            if compiled != (step == "fresh"):
                chk.fail("cache-history:" + step, inp, "compiled" if compiled else "not compiled",
                         "compiled only at the first import", how)
            if 0 not in lines:
                chk.fail("marker-missing:" + step, inp, lines, "0 marks the start of the run-time part", how)
                continue
            k = lines.index(0)
            ct, rt = lines[:k], lines[k + 1:]
            if rt != srt:
                chk.fail("history-run-time-trace:" + step, inp, rt, srt, how)
            if step == "fresh":
                if ct != sct:
                    # the faithful model's trace (mirrored in model_ct) lets the known-finding matcher tell the
                    # recorded double compilation from any other deviation
                    mexp = model_ct(p)
                    chk.fail("compile-time-trace", inp, {"compile_time": ct, "model_compile_time": mexp,
                                                         "run_time_ok": rt == srt}, sct, how)
            elif ct != []:
                chk.fail("compile-time-effects-on-cached-load:" + step, inp, ct, [], how)
    chk.extra["subprocesses"] = n


def model_ct(p):
    """the faithful model's compile-time trace, mirrored here (Cmd/StagingModel.v: compile) for the finding matcher"""
    def comp(f):
        t = f[0]
        if t in ("log", "const"):
            return []
        if t == "do":
            return comp_body(f[1])
        if t == "fn":
            return comp_body(f[2])
        if t == "eac":
            return comp_body(f[1]) + spec_rt_body(f[1])[0] + comp_body(f[1])
        if t == "ewc":
            return comp_body(f[1]) + spec_rt_body(f[1])[0]
        return comp_body(f[1]) + spec_rt_body(f[1])[0] + comp(f[2])

    def comp_body(l):
        out = []
        for x in l:
            out += comp(x)
        return out
    return comp_body(p)


def run(chk):
    chk.trusted = TRUSTED
    chk.assumptions = [
        "effects are calls of a logging function; `once at compile time` is read per staging body: its effects "
        "appear once in the compile-time trace, in source order; a function defined around a staging form is "
        "`(defn f [] ...)` called 0-3 times",
        "`run once at run time` for eval-and-compile is read as once per execution of its position (a function body "
        "executed n times logs n times), as the property's own theorem text in DESIGN.md says",
        "do-mac bodies end in a literal or a quoted form",
        "load from bytecode = the same code object executed in a new module (in-process) and a second interpreter "
        "importing the module with a warm private pycache (subprocess)",
    ]
    chk.rule = ("programs = 1-3 top-level forms drawn from (log k) / constants / do / eval-and-compile / "
                "eval-when-compile / do-mac with quoted result / functions called 0-3 times, nested to depth 3 "
                "(thorough 4); each run in top-level and in value position; non-trivial = contains a staging form")
    chk.prove("Props/C16.v", ["Props/C16.vo"], [cmd_tables.translate, cmd_staging.translate])
    thorough = chk.tier == "thorough"
    check_inprocess(chk, 4000 if thorough else 700, 4 if thorough else 3)
    check_histories(chk, 150 if thorough else 24, 3)
