"""C39 -- hy.eval returns the last value and restores the caller's `hy` binding."""
import itertools
import json

from lib import vlib
from props import state_common as sc
from translator import state_eval

META = {
    "technique": "Coq proof about the body of hy_eval_user / hy_eval regenerated from hy/compiler.py as a term of a "
                 "deep-embedded Python fragment (tie T2), for every behaviour of the opaque callees, every heap and "
                 "every call sequence; the fragment semantics is validated by running the real function with "
                 "scripted callees on a finite sweep; property oracle on hy.eval with generated programs",
    "level_text": "Theorems C39_one_call / C39_hy_binding_restored (coq/Props/C39.v): for every oracle within the frame "
                  "condition, every heap, all argument values and every sequence of calls, executing the generated body "
                  "ends, returns hy_eval's answer (or passes on the callee's exception), evaluates in the given "
                  "namespaces and leaves every dictionary's hy entry as it was. C39_returns_last_partial: hy_eval's "
                  "exec-then-eval in the same namespaces returns the eval step's value. No bound on heap size, values, "
                  "number of calls.",
    "level_note": "Trusted: Coq kernel; translator/state_py.py + state_eval.py (Python ast -> fragment term, fail-closed); "
                  "the fragment semantics State/EvalRestoreSem.v (hand-written; validated here against CPython on "
                  "~1000 scripted configurations of the real function, not verified); frame condition on callees "
                  "(a program that rebinds hy in a dictionary other than its locals is outside the property). That "
                  "`expr` is the last form's value is hy_compile's contract (C01), checked here only by the oracle.",
}

TRUSTED = [
    "Coq 8.16.1 kernel (coqc, full .vo); vm_compute only in the satisfiability example and the finite sweep",
    "axioms: none (Print Assumptions: Closed under the global context for every C39 theorem)",
    "translator/state_py.py, translator/state_eval.py: hy_eval_user and hy_eval bodies -> Gen/StateEvalTerm.v on every run",
    "State/EvalRestoreSem.v: semantics of the Python fragment, hand-written, modelled-not-verified; tie = the "
    "correspondence run of this check (real hy_eval_user with scripted hy_eval/get_compiler_module vs the generated term)",
    "hypothesis frame_ok on the opaque callees (non-reentrant; only the hy entry of hy_eval's locals dictionary may change); "
    "met by a concrete oracle in C39_hypotheses_satisfiable; nested hy.eval on the same dictionary is covered by the oracle only",
    "harness: generators, reference evaluator for the generated programs, canonicalisation",
]

ACTS = ["ANone", "ASet", "ADel", "ASetOther", "ASetDel"]
DVARIANTS = [[], ["x"], ["hy"], ["x", "hy"], ["hyNone"], ["x", "hyNone"]]


# ------------------------------------------------------------------ correspondence

def configs():
    for gi, li, mod, gcm, act, evr in itertools.product(
            [None, 0, 1, 2, 3, 4, 5], [None, "same", 0, 1, 2, 3, 4, 5], [False, True], [False, True], ACTS, [False, True]):
        if li == "same" and gi is None:
            continue
        yield dict(g=gi, l=li, module=mod, gcm_raises=gcm, act=act, eval_raises=evr)


def coq_dict(keys, old):
    items = []
    for k in keys:
        items.append('(VStr "hy", VRef %d)' % old if k == "hy" else
                     '(VStr "hy", VNone)' if k == "hyNone" else '(VStr "x", VInt 0)')
    return "[" + "; ".join(items) + "]"


def model_expr(c):
    dg = coq_dict(DVARIANTS[c["g"]] if c["g"] is not None else [], 7)
    dl = coq_dict(DVARIANTS[c["l"]] if isinstance(c["l"], int) else [], 8)
    vg = "VNone" if c["g"] is None else "(VRef 5)"
    vl = "VNone" if c["l"] is None else ("(VRef 5)" if c["l"] == "same" else "(VRef 6)")
    vm = "(VRef 400)" if c["module"] else "VNone"
    script = "{| s_chain_raises := false; s_gcm_raises := %s; s_act := %s; s_eval_raises := %s |}" % (
        str(c["gcm_raises"]).lower(), c["act"], str(c["eval_raises"]).lower())
    return ("summary (call_user (script_oracle %s) user_fuel (VStr \"model\") %s %s %s VNone "
            "( [(5%%N, ODict %s); (6%%N, ODict %s); (caller_locals, ODict [])], []))" % (script, vg, vl, vm, dg, dl))


def canon_model(t):
    status, val, cls, hg, hl, kg, kl, log = t
    log2 = []
    for name, args, kw in log:
        if name.startswith("inspect."):
            continue
        log2.append((name, list(args), [tuple(p) for p in kw]))
    return (status, val, cls, hg, hl, [k[1] for k in kg], [k[1] for k in kl], log2)


class Obj:
    def __init__(self, code):
        self.code = code


def impl_run(c, positional):
    import hy.compiler as C
    OLDG, OLDL, NEW, MOD, MODEL = Obj(1007), Obj(1008), Obj(1300), Obj(1400), Obj(-1)

    def mk(keys, old):
        return {("hy" if k == "hyNone" else k): (old if k == "hy" else None if k == "hyNone" else 0) for k in keys}
    G = None if c["g"] is None else mk(DVARIANTS[c["g"]], OLDG)
    L = None if c["l"] is None else (G if c["l"] == "same" else mk(DVARIANTS[c["l"]], OLDL))
    Lshadow = mk(DVARIANTS[c["l"]], OLDL) if isinstance(c["l"], int) else {}
    module = MOD if c["module"] else None
    log = []

    def code(v):
        if v is None:
            return 0
        if v is True:
            return 3
        if v is False:
            return 4
        if v is G:
            return 1005
        if v is L:
            return 1006
        if isinstance(v, Obj):
            return v.code
        if isinstance(v, dict) and "_c39_marker" in v:
            return 1200
        if isinstance(v, int):
            return 2000 + v
        return -1

    def fake_gcm(*args, **kw):
        log.append(("get_compiler_module", [code(a) for a in args], [(k, code(v)) for k, v in kw.items()]))
        if c["gcm_raises"]:
            raise TypeError("scripted")
        return MOD

    def fake_eval(*args, **kw):
        log.append(("hy_eval", [code(a) for a in args], [(k, code(v)) for k, v in kw.items()]))
        d = kw.get("locals")
        if isinstance(d, dict) and "_c39_marker" not in d:
            a = c["act"]
            if a in ("ASet", "ASetDel"):
                d["hy"] = NEW
            if a in ("ADel", "ASetDel"):
                d.pop("hy", None)
            if a == "ASetOther":
                d["y"] = 1
        if c["eval_raises"]:
            raise ZeroDivisionError("scripted")
        return 42

    saved = C.hy_eval, C.get_compiler_module
    C.hy_eval, C.get_compiler_module = fake_eval, fake_gcm
    try:
        def caller():
            _c39_marker = 1  # noqa: F841  (makes the caller's frame recognisable)
            if positional:
                return C.hy_eval_user(MODEL, G, L, module, None)
            kw = {}
            if G is not None:
                kw["globals"] = G
            if L is not None:
                kw["locals"] = L
            if module is not None:
                kw["module"] = module
            return C.hy_eval_user(MODEL, **kw)
        try:
            v = caller()
            status, val, cls = "ok", code(v), ""
        except Exception as e:
            status, val, cls = "exc", 0, type(e).__name__
    finally:
        C.hy_eval, C.get_compiler_module = saved

    def ecode(d):
        if d is None:
            return None
        return code(d["hy"]) if "hy" in d else -3
    # the model always has dictionaries 5 and 6 in its heap; an absent argument leaves them untouched
    hg = ecode(G) if G is not None else -3
    if L is None or L is G:
        hl_, kl = (code(Lshadow["hy"]) if "hy" in Lshadow else -3), list(Lshadow)
    else:
        hl_, kl = ecode(L), list(L)
    kg = list(G) if G is not None else []
    return (status, val, cls, hg, hl_, kg, kl, log)


def correspondence(chk):
    cfgs = list(configs())
    try:
        res = vlib.coq_eval(["HyV.State.EvalRestore", "HyV.State.EvalRestoreSweep"], "", [model_expr(c) for c in cfgs],
                            tag="c39")
    except Exception as e:
        chk.obligation("model runs on the sweep configurations", False, str(e)[-1500:])
        return
    n = 0
    model_bad = []
    for c, r in zip(cfgs, res):
        m = canon_model(sc.coq_to_py(r))
        for positional in (True, False):
            i = impl_run(c, positional)
            i = (i[0], i[1], i[2], i[3], i[4], i[5], i[6], [(a, b, [tuple(p) for p in kw]) for a, b, kw in i[7]])
            n += 1
            if m != i:
                chk.disagree("generated hy_eval_user term under State/EvalRestoreSem vs real hy_eval_user, scripted callees",
                             dict(c, positional=positional), repr(m), repr(i))
        # the property on the model's result (search source 2: names the failing configuration)
        given = c["g"] is not None or c["l"] is not None
        if given:
            def want(v, old):
                return old if "hy" in v else 0 if "hyNone" in v else -3
            want_g = want(DVARIANTS[c["g"]], 1007) if c["g"] is not None else -3
            want_l = want(DVARIANTS[c["l"]], 1008) if isinstance(c["l"], int) else -3
            if m[0] not in ("ok", "exc") or m[3] != want_g or m[4] != want_l:
                model_bad.append(c)
    chk.count("correspondence:configs", len(cfgs))
    chk.extra["correspondence_runs"] = n
    chk.extra["model_configs_violating_restore"] = model_bad[:5]
    chk.obligation("finite sweep: the generated body restores hy on all %d scripted configurations" % len(cfgs),
                   not model_bad, json.dumps(model_bad[:3]))


# ------------------------------------------------------------------ property oracle on the real hy.eval

class Raises:
    def __init__(self, cls):
        self.cls = cls


def gen_expr(rng, depth, env_names, st):
    """returns (hy source, python closure env -> value)"""
    k = rng.choice(["int", "str", "var", "add", "mul", "sub", "if", "list", "len", "get", "let", "hyuse", "quote"]
                   if depth > 0 else ["int", "str", "var", "hyuse"])
    if k == "int":
        n = rng.randint(-5, 40)
        return str(n), lambda e: n
    if k == "str":
        s = rng.choice(["a", "xy", "", "h y"])
        return json.dumps(s), lambda e: s
    if k == "var":
        v = rng.choice(env_names)
        return v, lambda e: e[v]
    if k in ("add", "mul", "sub"):
        a, fa = gen_int(rng, depth - 1, env_names, st)
        b, fb = gen_int(rng, depth - 1, env_names, st)
        op = {"add": "+", "mul": "*", "sub": "-"}[k]
        f = {"add": lambda x, y: x + y, "mul": lambda x, y: x * y, "sub": lambda x, y: x - y}[k]
        return "(%s %s %s)" % (op, a, b), lambda e: f(fa(e), fb(e))
    if k == "if":
        a, fa = gen_int(rng, depth - 1, env_names, st)
        b, fb = gen_int(rng, depth - 1, env_names, st)
        x, fx = gen_expr(rng, depth - 1, env_names, st)
        y, fy = gen_expr(rng, depth - 1, env_names, st)
        return "(if (< %s %s) %s %s)" % (a, b, x, y), lambda e: fx(e) if fa(e) < fb(e) else fy(e)
    if k == "list":
        parts = [gen_expr(rng, depth - 1, env_names, st) for _ in range(rng.randint(0, 3))]
        return "[" + " ".join(p[0] for p in parts) + "]", lambda e: [p[1](e) for p in parts]
    if k == "len":
        return "(len lst)", lambda e: len(e["lst"])
    if k == "get":
        i = rng.randint(0, 2)
        return "(get lst %d)" % i, lambda e: e["lst"][i]
    if k == "let":
        st["n"] += 1
        t = "t%d" % st["n"]
        a, fa = gen_int(rng, depth - 1, env_names, st)

        def f(e):
            e[t] = fa(e)
            return e[t] + 1
        return "(do (setv %s %s) (+ %s 1))" % (t, a, t), f
    if k == "hyuse":
        st["uses_hy"] = True
        w = rng.choice(["a-b", "x?", "ok"])
        import hy
        return '(hy.mangle "%s")' % w, lambda e: hy.mangle(w)
    if k == "quote":
        st["uses_hy"] = True
        import hy
        n = rng.randint(0, 9)
        return "'(f %d)" % n, lambda e: hy.models.Expression([hy.models.Symbol("f"), hy.models.Integer(n)])
    raise AssertionError(k)


def gen_int(rng, depth, env_names, st):
    k = rng.choice(["int", "a", "add", "len"] if depth > 0 else ["int", "a"])
    if k == "int":
        n = rng.randint(0, 9)
        return str(n), lambda e: n
    if k == "a":
        return "a", lambda e: e["a"]
    if k == "add":
        x, fx = gen_int(rng, depth - 1, env_names, st)
        y, fy = gen_int(rng, depth - 1, env_names, st)
        return "(+ %s %s)" % (x, y), lambda e: fx(e) + fy(e)
    return "(len lst)", lambda e: len(e["lst"])


class UserBaseExc(BaseException):
    """an exit that is not an Exception subclass, like SystemExit / KeyboardInterrupt / GeneratorExit"""


RAISERS = [("(raise (ValueError \"boom\"))", ValueError), ("(/ 1 0)", ZeroDivisionError),
           ("(no-such-function-c39 1)", NameError), ("(get lst 99)", IndexError),
           ("(raise (SystemExit 3))", SystemExit), ("(raise (KeyboardInterrupt))", KeyboardInterrupt),
           ("(raise (GeneratorExit))", GeneratorExit), ("(raise (UserBaseExc))", UserBaseExc)]
COMPILE_ERRORS = ["(setv 1 2)", "(fn)", "(if)", "(defn)", "(setv x)", "(import 5)", "(for)", "(unquote x)"]


def gen_program(rng, st):
    """a list of forms; returns dict(src, forms, ref, kind)"""
    n = rng.randint(1, 4)
    forms = [gen_expr(rng, rng.randint(0, 3), ["a", "b", "lst"], st) for _ in range(n)]
    return forms


def reference(forms, env):
    """value of the last form, or Raises(cls)"""
    v = None
    for src, f in forms:
        if isinstance(f, Raises):
            return f
        v = f(env)
    return v


def same_value(x, y):
    return type(x) is type(y) and x == y


def oracle(chk):
    hy = vlib.use_repo_in_process()
    import hy.errors
    rng = chk.rng
    thorough = chk.tier == "thorough"
    n_sessions = 4000 if thorough else 500
    chk.rule = ("sessions = a namespace configuration (globals none/dict, locals none/same/own, each dict with or without "
                "a prior hy sentinel) + 1..5 hy.eval calls on it; each call = 1..4 generated forms (arithmetic, lists, "
                "setv, uses of hy., quotes, rebinding/deleting hy) with a raising or uncompilable form inserted at each "
                "possible point in turn, read with hy.read (do ...) or hy.read-many; bad module argument; nested hy.eval "
                "on the same dictionary. non-trivial = distinct (configuration, program source, crash point) where the "
                "call touches hy (implicit import reached, or program binds hy) or raises")

    class Sentinel:
        pass

    class LookAlike:
        """quacks like the hy module for the attributes generated programs use, but is not it"""
        mangle = staticmethod(hy.mangle)
        models = hy.models
        eval = staticmethod(hy.eval)

    def preset():
        return {"a": rng.randint(0, 5), "b": "bee", "lst": [rng.randint(0, 9) for _ in range(3)],
                "UserBaseExc": UserBaseExc}

    for s in range(n_sessions):
        gmode = rng.choice(["none", "dict", "dict", "dict", "module-dict"])
        lmode = rng.choice(["none", "own", "same"] if gmode == "dict" else ["none"] if gmode == "module-dict" else ["none", "own"])
        session_module = None
        if gmode == "module-dict":
            # the namespace is the __dict__ of the very module the code is compiled for
            import types
            session_module = types.ModuleType("c39_session_module_%d" % s)
            G = vars(session_module)
            G.update(preset())
        else:
            G = None if gmode == "none" else dict(preset())
        L = None if lmode == "none" else (G if lmode == "same" else {})
        if G is None and L is not None:
            L.update(preset())
        # a prior hy entry: absent, an ordinary object, or a value that is falsy / None / looks like the module
        priors = ["absent", "absent", "object", "object", "None", "zero", "empty-str", "False", "empty-tuple", "lookalike"]
        prior_kind = {}
        for nm, d in (("G", G), ("L", L)):
            if d is not None and (nm == "G" or d is not G):
                pk = rng.choice(priors)
                prior_kind[nm] = pk
                if pk != "absent":
                    d["hy"] = {"object": Sentinel(), "None": None, "zero": 0, "empty-str": "", "False": False,
                               "empty-tuple": (), "lookalike": LookAlike()}[pk]
        ncalls = rng.randint(1, 5)
        history = []
        for ci in range(ncalls):
            st = {"n": 0, "uses_hy": False}
            forms = gen_program(rng, st)
            mode = rng.choice(["plain", "plain", "raise", "raise", "compile-error", "bad-module", "rebind-hy", "del-hy", "nested"])
            module_arg = None
            if mode == "raise":
                k = rng.randint(0, len(forms))
                src, cls = rng.choice(RAISERS)
                forms.insert(k, (src, Raises(cls)))
            elif mode == "compile-error":
                k = rng.randint(0, len(forms))
                forms.insert(k, (rng.choice(COMPILE_ERRORS), Raises("compile")))
            elif mode == "bad-module" and session_module is None:
                module_arg = 5
            elif mode == "rebind-hy":
                v = rng.randint(0, 9)
                forms.append(("(do (setv hy %d) (+ hy 1))" % v, lambda e, v=v: v + 1))
            elif mode == "del-hy":
                forms.append(("(do (del hy) 7)", lambda e: 7))
            elif mode == "nested":
                if G is not None and L in (None, G):
                    import math
                    G["ns"], G["mm"] = G, math
                    forms.append(("(hy.eval '(+ a 1) ns :module mm)", lambda e: e["a"] + 1))
                else:
                    mode = "plain"
            src_forms = [f[0] for f in forms]
            use_many = rng.random() < 0.5
            src = " ".join(src_forms) if use_many else "(do " + " ".join(src_forms) + ")"
            compile_err = any(isinstance(f[1], Raises) and f[1].cls == "compile" for f in forms)
            # reference
            target = L if L is not None else G
            env = dict(target) if target is not None else None
            if G is not None and L is not None and L is not G:
                env = dict(G)
                env.update(L)
            if env is None:
                env = preset()
            caller_env = dict(env)
            if module_arg is not None:
                expect = Raises(TypeError)
            elif compile_err:
                expect = Raises("compile")
            else:
                expect = reference(forms, env)
            before = {nm: ("hy" in d, d.get("hy")) for nm, d in (("G", G), ("L", L)) if d is not None}
            try:
                model = hy.read_many(src) if use_many else hy.read(src)
            except Exception as e:
                if compile_err:
                    chk.count("unreadable-compile-error-form")
                    continue
                raise
            kw = {}
            if module_arg is not None:
                kw["module"] = module_arg
            elif session_module is not None:
                kw["module"] = session_module

            def call():
                # the caller's frame for the no-dictionary case
                a, b, lst = caller_env["a"], caller_env["b"], caller_env["lst"]  # noqa: F841
                UserBaseExc = caller_env["UserBaseExc"]  # noqa: F841,N806
                if G is None and L is None:
                    return hy.eval(model, **kw)
                if L is None:
                    return hy.eval(model, G, **kw)
                return hy.eval(model, G, L, **kw) if G is not None else hy.eval(model, locals=L, **kw)
            try:
                got = call()
                outcome = ("ok", got)
            except BaseException as e:  # noqa: BLE001  SystemExit & co. are exits the property covers too
                outcome = ("exc", e)
            desc = {"globals": gmode, "locals": lmode, "prior_hy": dict(prior_kind),
                    "source": src, "reader": "read-many" if use_many else "read", "module": module_arg,
                    "call_index": ci, "earlier_calls": history[-4:]}
            lit = {"object": "object()", "None": "None", "zero": "0", "empty-str": "''", "False": "False",
                   "empty-tuple": "()", "lookalike": "type('L',(),{'mangle':staticmethod(hy.mangle),'models':hy.models,'eval':staticmethod(hy.eval)})()"}

            def dlit(nm):
                base = "{'a':1,'b':'bee','lst':[1,2,3]" if (nm == "G" or G is None) else "{"
                pk = prior_kind.get(nm, "absent")
                if pk != "absent":
                    base += ("," if not base.endswith("{") else "") + "'hy':" + lit[pk]
                return base + "}"
            args = "" if (G is None and L is None) else (", G" if L is None else (", G, G" if L is G else (", G, L" if G is not None else ", locals=L")))
            how = ("PYTHONPATH=%s python -c \"import hy; G=%s; L=%s; m=hy.%s(%r); "
                   "print(hy.eval(m%s%s)); print(G.get('hy','<absent>'), L.get('hy','<absent>'))\"  # earlier calls of the session are in the input"
                   % (vlib.REPO, dlit("G") if G is not None else "{}", dlit("L") if (L is not None and L is not G) else "{}",
                      "read_many" if use_many else "read", src, args,
                      (", module=%r" % module_arg) if module_arg is not None else ""))
            # --- the property
            for nm, d in (("G", G), ("L", L)):
                if d is None:
                    continue
                had, oldv = before[nm]
                if ("hy" in d) != had or (had and d["hy"] is not oldv):
                    chk.fail("hy-binding-not-restored:" + nm, desc,
                             {"has_hy": "hy" in d, "same_object": had and d.get("hy") is oldv},
                             {"has_hy": had, "same_object": True}, how)
            if isinstance(expect, Raises):
                if outcome[0] != "exc":
                    chk.fail("expected-exception-not-raised", desc, repr(outcome[1])[:200], str(expect.cls), how)
                elif expect.cls == "compile":
                    if not isinstance(outcome[1], (hy.errors.HyLanguageError, SyntaxError)):
                        chk.fail("wrong-exception", desc, type(outcome[1]).__name__, "a Hy compile error", how)
                elif not isinstance(outcome[1], expect.cls):
                    chk.fail("wrong-exception", desc, type(outcome[1]).__name__, expect.cls.__name__, how)
            else:
                if outcome[0] != "ok":
                    chk.fail("unexpected-exception", desc, "%s: %s" % (type(outcome[1]).__name__, outcome[1]), repr(expect)[:200], how)
                elif not same_value(outcome[1], expect):
                    chk.fail("value-is-not-last-form", desc, repr(outcome[1])[:200], repr(expect)[:200], how)
            history.append((src, outcome[0]))
            chk.count("mode:" + mode)
            chk.count("ns:%s/%s" % (gmode, lmode))
            for pk in prior_kind.values():
                chk.count("prior-hy:" + pk)
            chk.count("outcome:" + outcome[0])
            nontrivial = (outcome[0] == "exc" or st["uses_hy"] or mode in ("rebind-hy", "del-hy", "nested")
                          or any(v[0] for v in before.values()))
            chk.case((gmode, lmode, tuple(sorted(prior_kind.items())), src, module_arg),
                     nontrivial=nontrivial,
                     sample={"namespaces": "%s/%s" % (gmode, lmode), "source": src, "outcome": outcome[0]}
                     if (s * 7 + ci) % 97 == 3 else None)


def run(chk):
    chk.trusted = TRUSTED
    chk.assumptions = [
        "the property is judged for dictionaries GIVEN to hy.eval; with no dictionary only the returned value is judged",
        "programs that rebind hy in a dictionary other than the one evaluation uses as locals (e.g. (global hy) with "
        "separate locals) are not generated: the change is the program's own explicit effect",
        "values are compared by type and ==",
    ]
    chk.prove("Props/C39.v", ["Props/C39.vo"], [state_eval.translate])
    ok, log = vlib.coq_build(["State/EvalRestoreSweep.vo"])
    chk.obligation("model + scripted oracles build: make State/EvalRestoreSweep.vo", ok, log[-1500:] if not ok else "")
    vlib.use_repo_in_process()
    if ok:
        try:
            correspondence(chk)
        except Exception:  # noqa: BLE001  a broken model / tie must not stop the search for a failing input
            import traceback
            chk.obligation("correspondence machinery ran", False, traceback.format_exc()[-1500:])
    oracle(chk)
