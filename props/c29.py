"""C29 -- hy.as-model promotes values to models that evaluate back to them."""
import collections
import enum
import json
import threading

from lib import vlib
from props import quote_common as qc
from translator import asmodel_shape

META = {
    "technique": "Coq proofs over the Quote family's model of hy.models / hy.eval: as_model on tree values (promotion, "
                 "evaluation back by induction on the value, idempotence) and on a heap of objects with _seen as explicit "
                 "state (restoration after any outcome, history independence, self-reference); T1/T2 translator pinning "
                 "as_model, recwrap, _dict_wrapper and the _wrappers registry; extracted-model differential run; oracle on "
                 "the real hy.as_model / hy.eval incl. object graphs with cycles and histories checked against a fresh "
                 "interpreter",
    "level_text": "coq/Props/C29.v: for every plain value of any size (str, bytes, int, float, complex, bool, None, keyword, "
                  "list, tuple, set, dict) as_model yields the model tree model_of v and evaluating it gives the value back "
                  "(types at every node, floats by bits; complex imaginary parts as 0 + im); as_model is idempotent on every "
                  "value; on the heap model _seen equals its previous value after ANY outcome for every heap, guard state "
                  "and fuel, hence every call of every history behaves as the first call of a fresh interpreter; a "
                  "self-referential structure is never promoted and yields an error once the outcome is defined "
                  "(C29_self_reference_is_error_partial: no fuel bound proved). The registry and brackets are regenerated "
                  "from hy/models.py on every run and the model's as_model is proved to be dispatch over that registry.",
    "level_note": "Trusted: Coq kernel; the hand-written model Quote/Model.v + Quote/AsModel.v (constructors, evaluation of "
                  "literal and display forms, structural equality on set members / dict keys, the heap semantics), tied by "
                  "differential execution; translator/asmodel_shape.py; extraction + OCaml driver + this harness. Hash order "
                  "of sets is not modelled (sets and dicts are compared up to order, as the property says).",
}

TRUSTED = [
    "Coq 8.16.1 kernel (coqc, full .vo); vm_compute for the regenerated obligations and the examples; no native_compute",
    "axioms: none (Print Assumptions: Closed under the global context for every C29 theorem)",
    "hand-written model coq/Quote/Model.v (hy.models constructors, evaluation of literal / display forms, as_model on trees) "
    "and coq/Quote/AsModel.v (heap of objects, _seen as a list of addresses, recwrap/_dict_wrapper = add; try; finally remove; "
    "the FString wrapper does not touch _seen) -- tied to /repo by the differential runs of this check",
    "translator/asmodel_shape.py pins as_model's five statements, recwrap, _dict_wrapper and every `_wrappers[T] = W` "
    "(fail-closed; the PY3_14 registrations are pinned but not modelled: the interpreter here is 3.12)",
    "equality on set members / dict keys is structural in the model (Python's cross-type equalities 1 == True == 1.0 do not "
    "arise inside one real set or dict); the iteration order of sets is taken from the real objects",
    "extraction (ExtrOcamlBasic only) + extract/quote_driver.ml + props/quote_common.py",
]

HASHABLE_ATOMS = ["]None]", "a]None]b", "None", 0, 1, -1, 2, 7, 255, 2 ** 70, -(2 ** 65), True, False, None, 1.5, -0.0, 0.0, float("inf"), 1e300, "", "a", "k",
                  "x y", "é", "中\U0001F991", "]", "\n", b"", b"\x00\xff", 3j, complex(1, -0.0), complex(-0.0, 2)]


class Gen29:
    def __init__(self, rng):
        self.rng = rng
        from hy import models as M
        self.M = M
        self.mg = qc.Gen(rng)

    def atom(self):
        rng, M = self.rng, self.M
        r = rng.random()
        if r < 0.50:
            return rng.choice(HASHABLE_ATOMS)
        if r < 0.55:
            return qc.adversarial_string(rng)
        if r < 0.65:
            return qc.from_bits(qc.gen_float_bits(rng))
        if r < 0.72:
            return complex(qc.from_bits(qc.gen_float_bits(rng)), qc.from_bits(qc.gen_float_bits(rng)))
        if r < 0.80:
            return rng.getrandbits(rng.choice([8, 40, 90])) - rng.choice([0, 1 << 39])
        if r < 0.90:
            return M.Keyword(rng.choice(["k", "", "foo-bar", "a/b", "x1", "é"]))
        if r < 0.95:
            return qc.adversarial_string(rng)
        return "".join(rng.choice(qc.TEXTS) for _ in range(rng.choice([1, 2])))

    def hashable(self, depth):
        rng = self.rng
        if depth <= 0 or rng.random() < 0.75:
            return self.atom()
        return tuple(self.hashable(depth - 1) for _ in range(rng.choice([0, 1, 2])))

    def plain(self, depth):
        rng = self.rng
        if depth <= 0 or rng.random() < 0.3:
            return self.atom()
        r = rng.random()
        n = rng.choice([0, 1, 2, 2, 3, 4])
        if r < 0.35:
            return [self.plain(depth - 1) for _ in range(n)]
        if r < 0.55:
            return tuple(self.plain(depth - 1) for _ in range(n))
        if r < 0.72:
            return {self.hashable(depth - 1) for _ in range(n)}
        return {self.hashable(depth - 1): self.plain(depth - 1) for _ in range(n)}

    def mixed(self, depth, bad=0.0):
        """plain containers with existing models (and, with probability bad, unwrappable objects) inside"""
        rng = self.rng
        if rng.random() < bad:
            return qc.Opaque(rng.randrange(100))
        if depth <= 0 or rng.random() < 0.3:
            return self.mg.tree(rng.choice([0, 1, 2])) if rng.random() < 0.5 else self.atom()
        r = rng.random()
        n = rng.choice([0, 1, 2, 3])
        if r < 0.4:
            return [self.mixed(depth - 1, bad) for _ in range(n)]
        if r < 0.55:
            return tuple(self.mixed(depth - 1, bad) for _ in range(n))
        if r < 0.7:
            return {self.hashable(1): self.mixed(depth - 1, bad) for _ in range(n)}
        M = self.M
        cls = rng.choice([M.Expression, M.List, M.Tuple, M.Dict, M.Set, M.FComponent])
        items = [self.mixed(depth - 1, bad) for _ in range(n)]
        try:
            return cls(items)
        except Exception:  # noqa
            return items

    def subclassed(self):
        rng = self.rng
        P = collections.namedtuple("P", "x y")

        class S(str):
            pass

        class I(int):
            pass

        class L(list):
            pass

        class E(enum.IntEnum):
            A = 1
        return rng.choice([lambda: collections.OrderedDict(a=1), lambda: collections.defaultdict(list, {1: [2]}),
                           lambda: P(1, 2), lambda: S("x"), lambda: I(3), lambda: L([1]), lambda: E.A,
                           lambda: frozenset({1}), lambda: bytearray(b"x"), lambda: range(3), lambda: collections.Counter("aab"),
                           lambda: [P(1, [2])], lambda: {"k": S("v")}, lambda: collections.deque([1])])()

    # ---- object graphs
    def heap(self):
        """(nodes, roots): nodes[i] = ('A', value) | ('C', kind, [child indices]); kinds l t s d or a model class name.
        Forward edges go to higher indices; back edges start only at lists and dicts, so every cycle passes through one."""
        rng = self.rng
        n = rng.choice([1, 2, 3, 4, 5, 6, 8])
        nodes = [None] * n
        for i in reversed(range(n)):
            later = list(range(i + 1, n))
            r = rng.random()
            if not later and r < 0.5 or r < 0.25:
                nodes[i] = ("A", self.atom() if rng.random() < 0.9 else (qc.Opaque(3) if rng.random() < 0.5 else self.plain(1)))
                continue
            kind = rng.choice(["l", "l", "l", "d", "d", "t", "t", "Expression", "List", "FComponent", "FString", "s"])
            k = rng.choice([0, 1, 1, 2, 3])
            if kind == "s":
                ch = [j for j in later if nodes[j][0] == "A" and self._hashable(nodes[j][1])]
                nodes[i] = ("C", "s", self._distinct_atoms(nodes, rng.sample(ch, min(len(ch), k))))
            elif kind == "d":
                keys = self._distinct_atoms(nodes, [j for j in later if nodes[j][0] == "A" and self._hashable(nodes[j][1])])
                rng.shuffle(keys)
                items = []
                for key in keys[:k]:
                    items += [key, rng.choice(later)]
                nodes[i] = ("C", "d", items)
            else:
                nodes[i] = ("C", kind, [rng.choice(later) for _ in range(k)] if later else [])
        # back edges
        if rng.random() < 0.6:
            for _ in range(rng.choice([1, 1, 2])):
                srcs = [i for i in range(n) if nodes[i][0] == "C" and nodes[i][1] in ("l", "d")]
                if not srcs:
                    break
                i = rng.choice(srcs)
                j = rng.randrange(0, i + 1)
                if nodes[i][1] == "l":
                    nodes[i][2].insert(rng.randrange(len(nodes[i][2]) + 1), j)
                else:
                    keys = [x for x in range(n) if nodes[x][0] == "A" and self._hashable(nodes[x][1])
                            and all(not self._same(nodes[x][1], nodes[k0][1]) for k0 in nodes[i][2][0::2])]
                    if keys:
                        nodes[i][2].extend([rng.choice(keys), j])
        roots = [rng.randrange(n) for _ in range(rng.choice([1, 2, 3, 4]))]
        return nodes, roots

    @staticmethod
    def _hashable(v):
        try:
            hash(v)
            return not isinstance(v, qc.Opaque)
        except TypeError:
            return False

    @staticmethod
    def _same(a, b):
        return qc.dump(a) == qc.dump(b) or (a == b and type(a) in (int, float, bool, complex) and type(b) in (int, float, bool, complex))

    def _distinct_atoms(self, nodes, idxs):
        out = []
        for j in idxs:
            if all(not self._same(nodes[j][1], nodes[k][1]) for k in out):
                out.append(j)
        return out


def build_graph(nodes):
    """real objects for a heap description; same index = same object"""
    from hy import models as M
    objs = {}
    for i, nd in enumerate(nodes):
        if nd[0] == "C" and nd[1] == "l":
            objs[i] = []
        elif nd[0] == "C" and nd[1] == "d":
            objs[i] = {}

    def build(i):
        if i in objs:
            return objs[i]
        nd = nodes[i]
        if nd[0] == "A":
            objs[i] = nd[1]
        else:
            ch = [build(j) for j in nd[2]]
            if nd[1] == "t":
                objs[i] = tuple(ch)
            elif nd[1] == "s":
                objs[i] = set(ch)
            else:
                objs[i] = getattr(M, nd[1])(ch)
        return objs[i]
    for i in range(len(nodes)):
        build(i)
    for i, nd in enumerate(nodes):
        if nd[0] == "C" and nd[1] == "l":
            objs[i].extend(objs[j] for j in nd[2])
        elif nd[0] == "C" and nd[1] == "d":
            for a in range(0, len(nd[2]), 2):
                objs[i][objs[nd[2][a]]] = objs[nd[2][a + 1]]
    return objs


def cyclic_roots(nodes):
    """indices from which a cycle is reachable"""
    n = len(nodes)
    ch = [nd[2] if nd[0] == "C" else [] for nd in nodes]
    on_cycle = set()
    for s in range(n):
        seen, stack = set(), list(ch[s])
        while stack:
            x = stack.pop()
            if x == s:
                on_cycle.add(s)
                break
            if x not in seen:
                seen.add(x)
                stack.extend(ch[x])
    reach_cycle = set()
    for s in range(n):
        seen, stack = {s}, [s]
        while stack:
            x = stack.pop()
            if x in on_cycle:
                reach_cycle.add(s)
                break
            for y in ch[x]:
                if y not in seen:
                    seen.add(y)
                    stack.append(y)
    return on_cycle, reach_cycle


def opaque_reachable(nodes, root):
    """an unwrappable atom (or one that is itself a container holding one) is reachable from root"""
    seen, stack = {root}, [root]
    while stack:
        x = stack.pop()
        nd = nodes[x]
        if nd[0] == "A":
            if "POpaque" in repr(qc.dump(nd[1])):
                return True
        else:
            for y in nd[2]:
                if y not in seen:
                    seen.add(y)
                    stack.append(y)
    return False


def aliased_values(g, rng, n):
    """tree-shaped to the eye, but with the same object in several places (no cycle)"""
    out = []
    for _ in range(n):
        x = g.plain(rng.choice([1, 2]))
        while not isinstance(x, (list, dict)):
            x = rng.choice([[g.plain(1)], {"k": g.plain(1)}, [1, 2], {}])
        y = rng.choice([lambda: [x, x], lambda: {"a": x, "b": x}, lambda: (x, [x]), lambda: [[x], {"k": x}, x],
                        lambda: {"a": [x, x], "b": {"c": x}}, lambda: [x, (x, x), {1: x}]])()
        out.append(y if rng.random() < 0.6 else [y, x, y])
    return out


def encode_heap(nodes, roots, objs):
    out = ["heap", str(2 * len(nodes) + 4), str(len(nodes))]
    for i, nd in enumerate(nodes):
        if nd[0] == "A":
            out.append("A")
            qc.e_value(qc.dump(nd[1]), out)
        else:
            out.append("C")
            if nd[1] in ("l", "t", "s", "d"):
                out.append(nd[1])
                # a set: the model needs the members in this object's iteration order
                ch = nd[2]
                if nd[1] == "s":
                    order = list(objs[i])
                    ch = sorted(nd[2], key=lambda j: [k for k, o in enumerate(order) if o is objs[j] or o == objs[j]][0])
            else:
                out.append("m")
                o = objs[i]
                from hy import models as M
                if isinstance(o, M.FString):
                    kd = ("KFString", o.brackets, o.is_tstring)
                elif isinstance(o, M.FComponent):
                    kd = ("KFComp", o.conversion, o.expression, o.is_tstring)
                else:
                    kd = (qc.KINDS[type(o).__name__],)
                qc.e_kind(kd, out)
                ch = nd[2]
            out.append(str(len(ch)))
            out.extend(str(j) for j in ch)
    out.append(str(len(roots)))
    out.extend(str(r) for r in roots)
    return " ".join(out)


def decode_heap(line, nroots):
    d = qc._Dec(line)
    outs = []
    for _ in range(nroots):
        t = d.nxt()
        if t == "ok":
            outs.append(("Ok", d.value()))
        elif t == "err":
            e = d.nxt()
            outs.append(("Err", e))
        else:
            outs.append(("Fuel",))
    seen = d.int_()
    d.done()
    return outs, seen


def decode_am(line):
    d = qc._Dec(line)
    r = {"plain": d.bool_(), "as_model": d.res(d.value)}
    r["again"] = d.res(d.value) if d.nxt() == "some" else None
    if d.nxt() == "some":
        r["eval"] = d.run()
        r["cnorm"] = d.value()
    else:
        r["eval"] = None
    d.done()
    return r


def real_as_model(hy, v):
    try:
        return ("Ok", qc.dump(hy.as_model(v))), None
    except Exception as e:  # noqa
        c = qc.classify_exc(e)
        if c[1] == "EWrapper" and "Self-referential" in str(e):
            c = ("Err", "ECycle")
        return c, e


def legal_keywords(d):
    """every keyword in the value has a name the Keyword constructor accepts without from_parser"""
    from hy import models as M
    if d[0] == "VKw":
        try:
            M.Keyword(d[1])
            return True
        except ValueError:
            return False
    if d[0] in ("PList", "PTuple", "PSet", "PDict"):
        return all(legal_keywords(x) for x in d[1])
    return True


def guard_container(HM):
    """the recursion guard of hy.models as seen by the calling thread, however it is stored: the module attribute _seen,
    or an attribute `seen` of some private module-level object (e.g. a threading.local); None if it cannot be found"""
    g = getattr(HM, "_seen", None)
    if isinstance(g, (set, list, dict)):
        return g
    for name, o in vars(HM).items():
        if name.startswith("_") and not name.startswith("__") and not isinstance(o, (type, type(HM))):
            try:
                g = getattr(o, "seen", None)
            except Exception:  # noqa
                g = None
            if isinstance(g, (set, list, dict)):
                return g
    return None


def in_worker(jobs):
    """run the zero-argument callables one after the other in ONE fresh thread; their results in order"""
    out = []

    def work():
        for j in jobs:
            try:
                out.append(j())
            except BaseException as e:  # noqa
                out.append(("Err", "OTHER", type(e).__name__, str(e)[:120]))
    t = threading.Thread(target=work)
    t.start()
    t.join()
    while len(out) < len(jobs):
        out.append(("Err", "OTHER", "thread died", ""))
    return out


def all_models(m):
    from hy import models as M
    if not isinstance(m, M.Object):
        return False
    return all(all_models(x) for x in m) if isinstance(m, M.Sequence) else True


FRESH_CODE = r"""
import sys, json
sys.path.insert(0, %r)
import hy
from props import quote_common as qc
from props import c29
cases = json.load(sys.stdin)
out = []
for c in cases:
    if c["kind"] == "tree":
        v = qc.undump(qc.tup(c["dump"]))
    else:
        nodes = [("A", qc.undump(qc.tup(nd[1]))) if nd[0] == "A" else ("C", nd[1], nd[2]) for nd in c["nodes"]]
        v = c29.build_graph(nodes)[c["root"]]
    try:
        out.append(["Ok", qc.canon(qc.dump(hy.as_model(v)), True)])
    except Exception as e:
        out.append(["Err", type(e).__name__])
    g = c29.guard_container(hy.models)
    assert g is None or len(g) == 0
print(json.dumps(out))
"""


def run(chk):
    chk.trusted = TRUSTED
    chk.assumptions = [
        "'equal to the original' is judged node by node: same Python type, ints by value, floats by their bits (NaN equals "
        "itself, -0.0 is kept), str/bytes by content, keywords by name, sets as sets and dicts as dicts (order ignored, as "
        "the property says); for complex the imaginary part is compared after 0 + im, i.e. complex(1, -0.0) coming back as "
        "(1+0j) counts as equal -- it is equal under Python's == (the sign loss is the C30 finding's mechanism; counted)",
        "'an equal tree' (idempotence) is judged on the dumps: same classes, attributes and payloads (floats by bits)",
        "keywords are those the Keyword constructor accepts; a Keyword forced through from_parser=True with an illegal name "
        "(':a.b') is returned as it is but cannot be evaluated (counted, outside)",
        "existing models inside a value are returned as they are (children promoted); clause 1 (evaluating back) is judged "
        "only for values without models inside, since a model evaluates as code",
        "instances of subclasses (OrderedDict, namedtuple, str subclasses ...) are not 'built from the representable types': "
        "as_model dispatches on the exact type and raises HyWrapperError for them; counted as a separate stream, where only "
        "'a model tree or HyWrapperError, _seen restored' is demanded",
    ]
    chk.prove("Props/C29.v", ["Props/C29.vo", "Quote/Extract.vo"], [asmodel_shape.translate])
    thorough = chk.tier == "thorough"
    hy = vlib.use_repo_in_process()
    import hy.models as HM
    rng = chk.rng
    g = Gen29(rng)
    try:
        binary = qc.build_driver()
        chk.obligation("extracted model builds (Quote/Extract.v, extract/quote_driver.ml)", True)
    except Exception as e:  # noqa
        chk.obligation("extracted model builds (Quote/Extract.v, extract/quote_driver.ml)", False, str(e)[-1500:])
        binary = None
    chk.rule = ("(a) plain nested values of every representable type (ints incl. bignums, bools, None, floats by random bits "
                "incl. NaN payloads and -0.0, complex incl. -0.0 parts, str incl. non-BMP, bytes, keywords, lists, tuples, "
                "sets and dicts with hashable members/keys incl. nested tuples), depth <= 4; (b) the same with existing models "
                "(all classes, raw children) and unwrappable objects nested inside; (c) instances of subclasses (separate "
                "stream); (b') acyclic values with the same list / dict object in several places (must be promoted like any tree); "
                "(d) object graphs of 1-8 nodes (lists, dicts, tuples, sets, model sequences, shared subobjects, back "
                "edges from lists/dicts: direct and indirect cycles) promoted from several roots one after the other; "
                "the same promotions repeated in worker threads (one after the other) with identical outcomes demanded; "
                "hy.models._seen read after every call; every successful result of the interleaved history compared with a "
                "fresh interpreter's; non-trivial = container value or graph")
    n_plain, n_mixed, n_sub, n_heap = (30000, 8000, 1500, 8000) if thorough else (2000, 600, 150, 600)
    history = []      # (kind, description for the fresh interpreter, canon dump of the result)
    seen_bad = []
    lines, info = [], []

    def after_call(what):
        g = guard_container(HM)
        if g is None:
            chk.count("guard-state-not-readable(clause skipped)")
        elif len(g):
            seen_bad.append(what)
            g.clear()

    # ---- (a) + (b): trees
    gen_errors = []

    def safely(origin, make):
        """a generator that builds models calls the constructors of the code under test: if one raises, note it and go on"""
        try:
            return [(origin, make())]
        except Exception as e:  # noqa
            gen_errors.append("%s: %s: %s" % (origin, type(e).__name__, str(e)[:100]))
            return []
    trees = []
    for _ in range(n_plain):
        trees += safely("plain", lambda: g.plain(rng.choice([0, 1, 2, 3, 4])))
    for _ in range(n_mixed):
        trees += safely("mixed", lambda: g.mixed(rng.choice([1, 2, 3]), bad=rng.choice([0.0, 0.0, 0.08])))
    trees += [("plain", v) for v in HASHABLE_ATOMS] + [("plain", x) for x in ([], (), set(), {}, [[]], {1: {2: {3: set()}}},
                                                                             {complex(1, -0.0): -0.0}, [float("nan")] * 2)]
    trees += [("aliased", v) for v in aliased_values(g, rng, 300 if thorough else 60)]
    x0 = [1, 2]
    d0 = {"k": 9}
    trees += [("aliased", [x0, x0]), ("aliased", {"a": d0, "b": d0}), ("aliased", [[x0], [x0, {"z": x0}]])]
    rng.shuffle(trees)
    for origin, v in trees:
        d = qc.dump(v)
        res, exc = real_as_model(hy, v)
        after_call(repr(v)[:200])
        inp = {"origin": origin, "value": repr(v)[:400]}
        how = "PYTHONPATH=%s /venv/bin/python: import hy; v = %s; m = hy.as_model(v); hy.eval(m); hy.as_model(m)" % (vlib.REPO, repr(v)[:300])
        has_models = any(c.startswith("V") and c != "VKw" or c.startswith("K") for c in qc.classes_in(d))
        has_opaque = "POpaque" in repr(d)
        chk.count("tree:" + origin)
        chk.count("outcome:" + (res[0] if res[0] == "Ok" else res[1]))
        chk.case(("tree", repr(d)), nontrivial=d[0] in ("PList", "PTuple", "PSet", "PDict", "VSeq"),
                 sample={"value": repr(v)[:160], "as_model": str(res)[:160]} if len(chk.samples) < 8 and qc.count_nodes(d) > 4 else None)
        lines.append("am " + " ".join(_enc(d)))
        rec = {"inp": inp, "how": how, "d": d, "res": res, "has_models": has_models, "eval": None, "again": None, "v": v}
        if res[0] == "Ok":
            m = hy.as_model(v)
            after_call("second promotion")
            if not all_models(m):
                chk.fail("result-is-not-a-model-tree", inp, res, "every node an hy.models.Object", how)
            if qc.is_pure_model(d) and res[1] != d:
                chk.fail("existing-model-not-returned-as-it-is", inp, res, ("Ok", d), how)
            again, _ = real_as_model(hy, m)
            after_call("promotion of a model")
            rec["again"] = again
            if again != res:
                chk.fail("not-idempotent", inp, again, res, how)
            if not has_models and not legal_keywords(d):
                chk.count("keyword-with-a-name-only-from_parser-accepts(outside)")
            elif not has_models:
                try:
                    back = ("Ok", qc.dump(hy.eval(m)))
                except Exception as e:  # noqa
                    back = ("Err", type(e).__name__, str(e)[:100])
                rec["eval"] = back
                want = ("Ok", qc.canon(qc.cnorm(d)))
                if back[0] != "Ok" or qc.canon(back[1]) != want[1]:
                    chk.fail("does-not-evaluate-back", inp, back, want, how)
                if qc.cnorm(d) != d:
                    chk.count("complex-imag-normalised(0+im)")
            history.append(({"kind": "tree", "dump": d}, qc.canon(res[1], True)))
        elif not has_opaque and not has_models and origin in ("plain", "aliased"):
            chk.fail("representable-value-not-promoted", inp, res, "a model tree", how)
        elif has_opaque and res != ("Err", "EWrapper"):
            chk.fail("unwrappable-object-not-reported", inp, res, "HyWrapperError", how)
        info.append(rec)
    # ---- tie T3 on trees
    outs = safe_model_run(chk, binary, lines, "trees")
    if outs is not None:
        bad_inst = []
        for rec, out in zip(info, outs):
            mo = decode_am(out)
            if mo["as_model"][0] == "Err" and mo["as_model"][1] == "EUnmodelled":
                chk.count("model-does-not-cover")
                continue
            if mo["as_model"] != rec["res"]:
                chk.disagree("Quote.Model.as_model vs hy.as_model", rec["inp"], mo["as_model"], rec["res"])
            if rec["again"] is not None and mo["again"] != rec["again"]:
                chk.disagree("Quote.Model.as_model (second application) vs hy.as_model", rec["inp"], mo["again"], rec["again"])
            if mo["plain"]:
                chk.count("theorem-hypothesis:plain")
                if rec["has_models"]:
                    chk.disagree("plain holds for a value with models inside", rec["inp"], "plain", "models")
                if mo["eval"] is not None and rec["eval"] is not None and rec["eval"][0] == "Ok":
                    if (("Ok", qc.canon(mo["eval"][0][1])) if mo["eval"][0][0] == "Ok" else mo["eval"][0]) != ("Ok", qc.canon(rec["eval"][1])):
                        chk.disagree("Quote.Model.eval (model_of v) vs hy.eval (hy.as_model v)", rec["inp"], mo["eval"], rec["eval"])
                # the theorems' instances
                if mo["as_model"][0] != "Ok" or mo["eval"] != (("Ok", mo["cnorm"]), []) or mo["again"] != mo["as_model"]:
                    bad_inst.append(repr(rec["inp"])[:200])
            elif not rec["has_models"] and rec["res"][0] == "Ok":
                chk.count("outside-plain(duplicate-by-structure members, e.g. two NaNs)")
        chk.obligation("every evaluated instance of C29_promotes_to_model_tree / _evaluates_back / _idempotent holds on the "
                       "extracted model", not bad_inst, "; ".join(bad_inst[:3]))
    # ---- (c) subclasses
    for _ in range(n_sub):
        v = g.subclassed()
        res, exc = real_as_model(hy, v)
        after_call(repr(v)[:100])
        chk.count("subclass-stream:" + type(v).__name__ + ":" + (res[0] if res[0] == "Ok" else res[1]))
        chk.case(("sub", type(v).__name__), nontrivial=False)
        if res[0] == "Ok":
            if not all_models(hy.as_model(v)):
                chk.fail("result-is-not-a-model-tree", {"origin": "subclass", "value": repr(v)}, res, "a model tree or HyWrapperError", "hy.as_model(%r)" % (v,))
        elif res[1] != "EWrapper":
            chk.fail("subclass-instance-raises-something-else", {"origin": "subclass", "value": repr(v)}, res, "a model tree or HyWrapperError",
                     "hy.as_model(%r)" % (v,))
    # ---- (d) object graphs, several roots one after the other
    hlines, hinfo = [], []
    for _ in range(n_heap):
        try:
            nodes, roots = g.heap()
            objs = build_graph(nodes)
        except Exception as e:  # noqa
            gen_errors.append("graph: %s: %s" % (type(e).__name__, str(e)[:100]))
            continue
        on_cycle, reach_cycle = cyclic_roots(nodes)
        real = []
        for r in roots:
            res, exc = real_as_model(hy, objs[r])
            after_call("graph root %d of %r" % (r, nodes))
            real.append(res)
            inp = {"origin": "graph", "nodes": repr(nodes)[:600], "root": r}
            how = "props/c29.py: objs = build_graph(nodes); hy.as_model(objs[root])"
            chk.count("graph-root:" + ("cyclic" if r in reach_cycle else "acyclic") + ":" + (res[0] if res[0] == "Ok" else res[1]))
            if r not in reach_cycle and not opaque_reachable(nodes, r) and res[0] != "Ok":
                # shared but acyclic sub-objects (x = [1]; [x, x]; diamonds) are ordinary representable values
                chk.fail("acyclic-structure-with-shared-parts-not-promoted", inp, res, "a model tree", how)
            if r in reach_cycle and res[0] == "Ok":
                chk.fail("self-referential-structure-promoted", inp, res, "HyWrapperError", how)
            if r in reach_cycle and res[0] == "Err" and res[1] not in ("ECycle", "EWrapper", "EValueBrackets"):
                chk.fail("self-referential-structure-raises-something-else", inp, res, "HyWrapperError", how)
            if res[0] == "Ok":
                jn = [["A", qc.dump(nd[1])] if nd[0] == "A" else ["C", nd[1], nd[2]] for nd in nodes]
                if "POpaque" not in json.dumps(jn):
                    history.append(({"kind": "heap", "nodes": jn, "root": r}, qc.canon(res[1], True)))
        chk.case(("graph", repr(nodes), tuple(roots)), nontrivial=True,
                 sample={"nodes": repr(nodes)[:200], "roots": roots, "outcomes": str(real)[:160]} if len(chk.samples) < 12 and on_cycle else None)
        hlines.append(encode_heap(nodes, roots, objs))
        hinfo.append((nodes, roots, real, objs))
    outs = safe_model_run(chk, binary, hlines, "object graphs")
    if outs is not None:
        fuel_out = 0
        for (nodes, roots, real, _objs), out in zip(hinfo, outs):
            mouts, mseen = decode_heap(out, len(roots))
            inp = {"origin": "graph", "nodes": repr(nodes)[:600], "roots": roots}
            if any(o == ("Fuel",) for o in mouts):
                fuel_out += 1
                continue
            if mseen != 0:
                chk.disagree("model _seen after the history", inp, mseen, 0)
            for mo, re_ in zip(mouts, real):
                if mo[0] == "Err" and mo[1] == "EUnmodelled":
                    chk.count("model-does-not-cover")
                    continue
                a = ("Ok", qc.canon(mo[1])) if mo[0] == "Ok" else mo
                b = ("Ok", qc.canon(re_[1])) if re_[0] == "Ok" else re_[:2]
                if a != b:
                    chk.disagree("Quote.AsModel.run_history (heap) vs hy.as_model on the object graph", inp, mouts, real)
                    break
        chk.obligation("the heap model's outcome is defined with fuel 2*|heap|+4 on every generated graph", fuel_out == 0,
                       "%d graphs ran out of fuel" % fuel_out)
    # ---- the same promotions in worker threads (one thread after the other): outcomes must be those of the main thread
    def guard_len():
        g = guard_container(HM)
        if g is None:
            return None
        n = len(g)
        g.clear()      # so that one dirty call is reported once, not for every later call
        return n
    n_thr_fail = 0
    CH = 250
    jobs_all = [(rec["inp"], rec["res"], (lambda v=rec["v"]: (real_as_model(hy, v)[0], guard_len()))) for rec in info]
    for nodes, roots, real, objs in hinfo:
        for r, re_ in zip(roots, real):
            jobs_all.append(({"origin": "graph", "nodes": repr(nodes)[:600], "root": r}, re_,
                             (lambda o=objs[r]: (real_as_model(hy, o)[0], guard_len()))))
    for i in range(0, len(jobs_all), CH):
        chunk = jobs_all[i:i + CH]
        outs = in_worker([j for _, _, j in chunk])
        for (inp, main_res, _), o in zip(chunk, outs):
            chk.count("worker-thread-promotions")
            got, glen = (o if len(o) == 2 and isinstance(o[0], tuple) else (o, None))
            if got != main_res:
                n_thr_fail += 1
                chk.fail("outcome-differs-in-a-worker-thread", inp, got, main_res,
                         "threading.Thread(target=lambda: hy.as_model(v)).start() -- same value as in the main thread")
            elif glen:
                n_thr_fail += 1
                chk.fail("_seen-not-restored", dict(inp, thread="worker"), "guard holds %d ids after the call" % glen, "empty",
                         "read the guard inside the worker thread after hy.as_model(v)")
    g_main = guard_container(HM)
    if g_main is not None and len(g_main):
        seen_bad.append("after the worker threads")
        g_main.clear()
    chk.extra["worker_thread_promotions"] = len(jobs_all)
    chk.obligation("the generators built their inputs without a hy.models constructor raising", not gen_errors,
                   "%d times, e.g. %s" % (len(gen_errors), "; ".join(gen_errors[:3])))
    chk.obligation("hy.models._seen is empty after every call of the interleaved history (%d calls)" % (len(info) + len(hinfo)),
                   not seen_bad, "; ".join(seen_bad[:3]))
    if seen_bad:
        chk.fail("_seen-not-restored", {"after": seen_bad[:5]}, "non-empty hy.models._seen", "set()", "read hy.models._seen after the call")
    # ---- the successful results of this history vs a fresh interpreter that only does the successful promotions
    B = 4000
    mismatch = 0
    for i in range(0, len(history), B):
        chunk = history[i:i + B]
        rc, out, err = vlib.run_impl(FRESH_CODE % vlib.VERIF, stdin=json.dumps([c for c, _ in chunk]), timeout=900)
        if rc != 0:
            chk.obligation("fresh-interpreter batch ran", False, err[-1500:])
            break
        fresh = json.loads(out.strip().splitlines()[-1])
        for (c, mine), fr in zip(chunk, fresh):
            chk.count("history-vs-fresh")
            if fr[0] != "Ok" or qc.canon(qc.tup(fr[1]), True) != mine:
                mismatch += 1
                chk.fail("history-dependent-result", {"case": json.dumps(c)[:500]}, str(mine)[:300], str(fr)[:300],
                         "promote the value after the failing promotions of this run, and in a fresh interpreter")
    chk.extra["history_results_compared_with_fresh_interpreter"] = len(history)


def safe_model_run(chk, binary, lines, what):
    """the extracted model on these cases, or None (recorded as a failed obligation) -- the oracle goes on regardless"""
    if not binary:
        return None
    try:
        return qc.run_model(binary, lines)
    except Exception as e:  # noqa
        chk.obligation("extracted model ran on the %s" % what, False, str(e)[-1000:])
        return None


def _enc(d):
    out = []
    qc.e_value(d, out)
    return out
