"""C27 -- hy.repr round-trips values of the documented types."""
import collections
import math
import os
import time
from fractions import Fraction

from lib import vlib
from props import print_common as pc
from translator import print_tables

META = {
    "technique": "Coq proof over a model of the value printers of hy_repr.hy, of the reader and of evaluation of "
                 "the read-back form, for every nested value and every oracle meeting stated hypotheses; graph "
                 "printer with the _seen set proved terminating on every finite heap; regenerated tables; "
                 "three-stage model/implementation correspondence; round-trip oracle on generated values",
    "level_text": "Theorems of coq/Props/C27.v: for every well-formed value of the documented types nested to any "
                  "depth, the printed text is read as one form that evaluates to the value "
                  "(C27_value_roundtrip_partial; the two excluded classes are refuted with witnesses that the run "
                  "replays on the real code); printing terminates on every finite object graph with fuel = number "
                  "of objects + 1 and prints the registered placeholder on a back reference. The printer, reader "
                  "and evaluator models are compared with hy.repr / hy.read / hy.eval on every generated case.",
    "level_note": "Trusted: Coq kernel; oracle hypotheses num_facts/names_facts (CPython float/complex/int text "
                  "round trips through hy.models constructors; validated on every run); translator/print_tables.py; "
                  "hand-written models tied by differential execution (vm_compute) on the generated cases; "
                  "evaluation of literal displays and constructor calls is modelled, not verified.",
}

TRUSTED = [
    "Coq 8.16.1 kernel (coqc, full .vo); vm_compute for the regenerated-table obligations, the refutation witnesses and "
    "the correspondence runs; no native_compute",
    "axioms: none (Print Assumptions: Closed under the global context for every C27 theorem)",
    "oracle hypotheses Print/RoundTrip.v:num_facts and Print/ValueProofs.v:names_facts: int/float/complex texts printed "
    "by CPython are single tokens that hy.models.Integer/Float/Complex read back to the same number (floats by bits); "
    "the constructor names are not numbers -- validated against the interpreter on every run, not proved",
    "Python's str/bytes repr is modelled concretely (Print/ModelRepr.v py_str_repr, py_bytes_repr; str.isprintable is an "
    "oracle without hypotheses) and compared with the interpreter on every generated string",
    "translator/print_tables.py + translator/print_sexp.py (tables of hy_repr.hy, hy_reader.py, reader.py regenerated on "
    "every run; the dispatch of the reader model is checked against the reader_for table by Print/GenChecks.v)",
    "hand-written models Print/ValueRepr.v (printers, heap printer, eval), Print/Reader.v (reader), tied by differential "
    "execution on every generated case; evaluation of displays and constructor calls (Python semantics) is modelled, "
    "not verified; Python's == on keys is a parameter of the theorems",
]

VALUE_NAMES = ["None", "True", "False", "Fraction", "range", "slice", "deque", "OrderedDict", "Counter", "defaultdict",
               "ChainMap", "frozenset", "bytearray"]
DISPATCH_CHARS = set("()[]{};:\"'`~#")


def token_ok(t):
    return bool(t) and not (set(t) & pc.DELIMS) and t[0] not in DISPATCH_CHARS


def validate_facts(chk, rng, n):
    """num_facts / names_facts against this interpreter"""
    hy = pc.hy_mod()
    bad = {}

    def note(k, x):
        bad.setdefault(k, []).append(x)
    for _ in range(n):
        z = pc.gen_int(rng) if rng.random() < 0.7 else rng.randrange(-10 ** 300, 10 ** 300)
        if pc.num_class(repr(z)) != "(NInt %s)" % pc.cz(z):
            note("nf_int", z)
        x = pc.gen_float(rng)
        if not (math.isnan(x) or math.isinf(x)):
            t = repr(x)
            if not token_ok(t) or pc.num_class(t) != "(NFloat %s)" % pc.cfl(x):
                note("nf_float", t)
        zc = complex(pc.gen_float(rng), pc.gen_float(rng))
        t = repr(zc).strip("()").replace("inf", "Inf").replace("nan", "NaN")
        if not token_ok(t) or pc.num_class(t) != "(NComplex %s %s)" % (pc.cfl(zc.real), pc.cfl(zc.imag)):
            note("nf_complex", t)
    for t, want in (("NaN", "(NFloat FNaN)"), ("Inf", "(NFloat (FInf false))"), ("-Inf", "(NFloat (FInf true))")):
        if pc.num_class(t) != want:
            note("nf_nan/inf", t)
    for nm in VALUE_NAMES:
        if pc.num_class(nm) is not None:
            note("names_facts", nm)
    chk.obligation("oracle hypotheses num_facts, names_facts hold on this interpreter (%d ints, floats, complexes)" % n,
                   not bad, repr({k: v[:4] for k, v in bad.items()}))
    chk.extra["oracle_validation"] = {"samples": n, "violated": sorted(bad)}


# ------------------------------------------------------------------ known findings

def has_slice_keyword(x):
    hy = pc.hy_mod()
    if isinstance(x, slice) and any(isinstance(a, hy.models.Keyword) for a in (x.start, x.stop, x.step)):
        return True
    if isinstance(x, (str, bytes, bytearray, range, int, float, complex, Fraction)) or x is None:
        return False
    try:
        _, items = pc.node_of(x)
    except TypeError:
        return False
    return any(has_slice_keyword(i) for i in items)


def without_known(x):
    """copy of x with every defaultdict factory set to None and every Keyword directly in a slice replaced by a
    string: what remains must round-trip, so a known finding never hides another defect in the same value"""
    hy = pc.hy_mod()
    t = type(x)
    if x is None or t in (bool, int, float, complex, str, bytes, Fraction, range, hy.models.Keyword):
        return x
    if t is bytearray:
        return bytearray(x)
    w = without_known
    if t in (list, tuple, set, frozenset, collections.deque):
        return t(w(i) for i in x)
    if t in (dict, collections.OrderedDict):
        return t((w(k), w(v)) for k, v in x.items())
    if t is collections.Counter:
        c = collections.Counter()
        for k, v in x.items():
            c[w(k)] = w(v)
        return c
    if t is collections.defaultdict:
        return collections.defaultdict(None, ((w(k), w(v)) for k, v in x.items()))
    if t is collections.ChainMap:
        return collections.ChainMap(*[w(m) for m in x.maps])
    if t is slice:
        f = lambda a: ("kw:" + a.name) if isinstance(a, hy.models.Keyword) else w(a)
        return slice(f(x.start), f(x.stop), f(x.step))
    raise TypeError(t)


def m_defaultdict(rec, params):
    i = rec["input"]
    return rec["key"] == "roundtrip" and i.get("defaultdict_factory") and not i.get("slice_keyword") \
        and i.get("rest_roundtrips") and "(defaultdict <class '" in i.get("text", "")


def m_slice_kw(rec, params):
    i = rec["input"]
    return rec["key"] == "roundtrip" and i.get("slice_keyword") and not i.get("defaultdict_factory") \
        and i.get("rest_roundtrips") and "(slice " in i.get("text", "")


def m_both(rec, params):
    i = rec["input"]
    return rec["key"] == "roundtrip" and i.get("slice_keyword") and i.get("defaultdict_factory") and i.get("rest_roundtrips")


# ------------------------------------------------------------------ self-referential containers

class Back:
    def __init__(self, k):
        self.k = k


def gen_graph_spec(rng, depth, mutable_above):
    """tree of (kind, children) with Back(k) leaves pointing at the k-th enclosing mutable container"""
    if depth <= 0 or rng.random() < 0.3:
        if mutable_above and rng.random() < 0.45:
            return Back(rng.randrange(mutable_above))
        x = pc.gen_atom(rng, hashable=True)
        return ("atom", x)
    kind = rng.choice(["list", "list", "dict", "deque", "OrderedDict", "Counter", "defaultdict", "ChainMap", "tuple", "slice"])
    n = rng.randrange(1, 4)
    mut = mutable_above + (0 if kind in ("tuple", "slice") else 1)
    if kind == "slice":
        n = 3
    if kind == "ChainMap":
        kids = [("dictspec", [(("atom", pc.gen_atom(rng, True)), gen_graph_spec(rng, depth - 1, mut + 1))
                              for _ in range(rng.randrange(0, 3))]) for _ in range(n)]
        return (kind, kids)
    if kind in ("dict", "OrderedDict", "Counter", "defaultdict"):
        return (kind, [(("atom", pc.gen_atom(rng, True)), gen_graph_spec(rng, depth - 1, mut)) for _ in range(n)])
    return (kind, [gen_graph_spec(rng, depth - 1, mut) for _ in range(n)])


class Sentinel:
    def __init__(self, text):
        self.text = text


def build_graph(spec, path, placeholders, acyclic):
    """materialise spec; path = enclosing mutable containers (innermost last).  acyclic: back references become
    Sentinel(placeholder of the target's type)"""
    if isinstance(spec, Back):
        target = path[-1 - spec.k]
        return Sentinel(placeholders[type(target[1])]) if acyclic else target[0]
    kind, kids = spec
    if kind == "atom":
        return kids
    B = lambda s, p: build_graph(s, p, placeholders, acyclic)
    if kind == "tuple":
        return tuple(B(k, path) for k in kids)
    if kind == "slice":
        return slice(*[B(k, path) for k in kids])
    mk = {"list": list, "deque": collections.deque, "dict": dict, "dictspec": dict, "OrderedDict": collections.OrderedDict,
          "Counter": collections.Counter, "defaultdict": lambda: collections.defaultdict(None),
          "ChainMap": collections.ChainMap}[kind]
    obj = mk()
    # in the acyclic copy the identity of the original is needed only for its type
    p2 = path + [(obj, obj)]
    if kind in ("list", "deque"):
        for k in kids:
            obj.append(B(k, p2))
    elif kind == "ChainMap":
        obj.maps[:] = []
        for _, pairs in kids:
            d = {}
            p3 = p2 + [(d, d)]
            for ks, vs in pairs:
                d[B(ks, p3)] = B(vs, p3)
            obj.maps.append(d)
        if not obj.maps:
            obj.maps.append({})
    else:
        for ks, vs in kids:
            obj[B(ks, p2)] = B(vs, p2)
    return obj


def heap_term(obj, nd):
    """Gallina heap + root for a (possibly cyclic) object"""
    cells, ids = [], {}

    def hv(x):
        t = type(x)
        if x is None or t in (bool, int, float, complex, str, bytes, bytearray, Fraction, range) or t.__name__ == "Keyword":
            return "(HAtom %s)" % pc.coq_value(x, nd)
        if id(x) in ids:
            return "(HRef %d)" % ids[id(x)]
        i = len(cells)
        ids[id(x)] = i
        cells.append(None)
        kind, items = pc.node_of(x)
        cells[i] = "{| ckind := %s; citems := [%s] |}" % (kind, "; ".join(hv(y) for y in items))
        return "(HRef %d)" % i
    root = hv(obj)
    return "[%s]" % "; ".join(cells), root, len(cells)


def placeholder_table():
    registered, _, _, _, _ = print_tables.repr_tables(vlib.REPO)
    names = {"list": list, "dict": dict, "set": set, "frozenset": frozenset, "tuple": tuple, "slice": slice,
             "collections.deque": collections.deque, "collections.OrderedDict": collections.OrderedDict,
             "collections.Counter": collections.Counter, "collections.defaultdict": collections.defaultdict,
             "collections.ChainMap": collections.ChainMap}
    out = {}
    for n, ph in registered:
        if n in names:
            out[names[n]] = "..." if ph is None else ph
    for t in names.values():
        out.setdefault(t, "...")
    return out


def is_cyclic(obj):
    path = set()

    def go(x):
        if x is None or isinstance(x, (bool, int, float, complex, str, bytes, bytearray, Fraction, range)) \
                or type(x).__name__ == "Keyword":
            return False
        if id(x) in path:
            return True
        path.add(id(x))
        try:
            _, items = pc.node_of(x)
            return any(go(y) for y in items)
        finally:
            path.discard(id(x))
    return go(obj)


# ------------------------------------------------------------------ histories: a print that fails part-way, then more prints

class Flaky:
    """an element that cannot be printed while armed"""

    def __init__(self):
        self.armed = True

    def __repr__(self):
        if self.armed:
            raise ValueError("not printable right now")
        return "None"


def gen_history(rng):
    """a nested value of documented container types with a Flaky element somewhere inside; returns
    (root, path of containers from the root down to the one holding the element, remove())"""
    kinds = ["list", "dict", "deque", "OrderedDict", "defaultdict", "ChainMap", "tuple", "Counter"]
    depth = rng.randrange(1, 5)
    flaky = Flaky()
    inner = [pc.gen_atom(rng, True), flaky, pc.gen_atom(rng, True)]
    remove = lambda: inner.remove(flaky)
    path = [inner]
    cur = inner
    for _ in range(depth):
        k = rng.choice(kinds)
        key = rng.choice(["k", 1, (2, 3), None])
        sib = pc.gen_value(rng, 1)
        while pc.has_factory(sib) or has_slice_keyword(sib) or pc.nan_keys_repeat(sib):     # the known findings are not the subject here
            sib = pc.gen_value(rng, 1)
        if k == "list":
            new = [sib, cur]
        elif k == "tuple":
            new = (cur, sib)
        elif k == "deque":
            new = collections.deque([cur, sib])
        elif k == "dict":
            new = {key: cur, "z": sib}
        elif k == "OrderedDict":
            new = collections.OrderedDict([("a", sib), (key, cur)])
        elif k == "defaultdict":
            new = collections.defaultdict(None, {key: cur})
        elif k == "Counter":
            new = collections.Counter()
            new[key] = cur
        else:
            new = collections.ChainMap({key: cur}, {"y": sib})
        path.append(new)
        cur = new
    return cur, path, remove


def deep_list(depth):
    levels = []
    x = [1, "leaf"]
    levels.append(x)
    for i in range(depth):
        x = [i, x]
        levels.append(x)
    return x, levels


def histories(chk, n):
    """the property after a failed call: values that were being printed when a print failed, and models, still
    print as in a fresh state and round-trip"""
    hy = pc.hy_mod()
    import sys
    import hy.core.hy_repr as hr

    def judge(kind, step, x, desc):
        chk.count("history:" + kind)
        text = None
        try:
            text = hy.repr(x)
            ok = pc.canon(pc.read_eval(text)) == pc.canon(x)
            obs = text
        except Exception as e:
            ok, obs = False, "%s: %s (printed %r)" % (type(e).__name__, str(e)[:80], text)
        chk.case("H%s:%s:%s" % (kind, step, text), nontrivial=True,
                 sample={"history": desc[:140], "later print": str(text)[:80]} if step == 0 and len(chk.samples) < 11 else None)
        if not ok:
            chk.fail("roundtrip-after-failed-print",
                     {"history": desc, "later_value": repr(x)[:300], "state": {"seen": len(hr._seen), "quoting": hr._quoting}},
                     obs[:300], "the printed text of the value, as from a fresh interpreter, reading back to the value",
                     "run the history in one interpreter: first call raises, the later hy.repr(value) must round-trip")
        return ok

    def judge_model(step, desc):
        m = hy.models.Expression([hy.models.Symbol("a"), hy.models.Integer(1)])
        chk.count("history:model-after-fault")
        text = hy.repr(m)
        chk.case("HM:%d:%s" % (step, text), nontrivial=True)
        if text != "'(a 1)":
            chk.fail("roundtrip-after-failed-print", {"history": desc, "later_value": "hy.models.Expression (a 1)",
                                                      "state": {"seen": len(hr._seen), "quoting": hr._quoting}},
                     text, "'(a 1)", "a model printed after a failed print of a model keeps its leading quote")

    class Catcher:
        """an object whose registered printer shows its child, or a mark when the child cannot be printed"""

        def __init__(self, child):
            self.child = child

    def catcher_printer(c):
        try:
            return "(Catcher %s)" % hy.repr(c.child)
        except ValueError:
            return "(Catcher <unprintable>)"

    hy.repr_register(Catcher, catcher_printer)
    try:
        for i in range(n):
            root, path, remove = gen_history(chk.rng)
            if i % 3 == 2:
                # the failure is caught half-way up by a printer that carries on: nothing propagates to the top
                desc = "a registered printer catches the ValueError of an element's __repr__ inside %s" % " > ".join(
                    type(c).__name__ for c in reversed(path))
                try:
                    text = hy.repr([Catcher(root), hy.models.Symbol("after")])
                    chk.count("history:caught")
                    if text != "[(Catcher <unprintable>) 'after]":
                        chk.fail("roundtrip-after-failed-print", {"history": desc, "later_value": "the rest of the same call",
                                                                  "state": {"seen": len(hr._seen), "quoting": hr._quoting}},
                                 text, "[(Catcher <unprintable>) 'after]", "hy.repr([Catcher(x), 'after]) where printing x fails inside")
                except Exception as e:
                    chk.count("history:other-exception:" + type(e).__name__)
                remove()
                for j, c in enumerate(path):
                    if not judge("caught-below", j, c, desc):
                        break
                judge_model(i, desc)
                continue
            desc = "hy.repr raises ValueError from an element's __repr__ inside %s" % " > ".join(
                type(c).__name__ for c in reversed(path))
            as_model = chk.rng.random() < 0.3
            try:
                hy.repr(hy.models.List([hy.models.Symbol("s"), root]) if as_model else root)
                chk.fail("faulting-print-returned", {"history": desc}, "returned", "the ValueError propagates")
                continue
            except ValueError:
                pass
            except Exception as e:
                chk.count("history:other-exception:" + type(e).__name__)
            remove()
            for j, c in enumerate(path):          # innermost first: every container that was on the stack
                if not judge("element-raises", j, c, desc):
                    break
            judge_model(i, desc + (" (inside a model)" if as_model else ""))
        # a RecursionError in the middle of a very deep value of documented types
        for k in range(2 if n < 50 else 4):
            depth = sys.getrecursionlimit() * 4
            x, levels = deep_list(depth)
            desc = "hy.repr raises RecursionError on a list nested %d deep" % depth
            try:
                hy.repr(x)
                chk.count("history:deep-print-returned")
            except RecursionError:
                pass
            levels[-1][1] = (1.5, None)
            judge("recursion-error", 0, levels[3], desc)
            judge("recursion-error", 1, levels[-1], desc)
            judge("recursion-error", 2, {"k": collections.deque([levels[-1]])}, desc)
            judge_model(1000 + k, desc)
            del x, levels
    finally:
        leaked = (len(hr._seen), hr._quoting)
        hr._seen.clear()
        hr._quoting = False
        hr._registry.pop(Catcher, None)
    chk.obligation("hy-repr's state is idle after the histories with failing prints", leaked == (0, False),
                   "_seen holds %d ids, _quoting = %r" % leaked)


# ------------------------------------------------------------------ the run

FIXED = lambda hy: [
    collections.defaultdict(list, {1: [2]}), collections.defaultdict(int), slice(hy.models.Keyword("a"), None),
    slice(1, hy.models.Keyword("a")), None, True, 0, -0.0, float("nan"), float("-inf"), 1e22, 1e16, complex(-0.0, 2),
    complex(float("nan"), float("-inf")), "a'b", 'a"b', "a'\"b\\", "\x00\x7f\x80\xa0ሴ\U0001F600\ud800\n\r\t", b"a'\"\\\xff\n",
    bytearray(b"ab"), [1, [2]], (1,), (), {1: 2, 3: 4}, {}, set(), frozenset(), Fraction(-2, 3), range(5), range(1, 5),
    range(0, 5, 2), slice(None), slice(None, 5, 1), slice(0, 5), collections.deque(), collections.OrderedDict([(1, 2)]),
    collections.Counter("aab"), collections.defaultdict(None, {1: 2}), collections.ChainMap({1: 2}, {3: 4}),
    collections.ChainMap(), {hy.models.Keyword(""): hy.models.Keyword("a")}, [hy.models.Keyword("b")],
]


def run(chk):
    chk.trusted = TRUSTED
    chk.assumptions = [
        "hy.eval runs in an environment that binds Fraction, deque, OrderedDict, Counter, defaultdict, ChainMap (the "
        "builtins range, slice, frozenset, bytearray are always bound); hy.repr's documentation presupposes this",
        "equality is judged at every node: same type, floats by bits (every NaN equal to NaN, -0.0 different from 0.0), "
        "sets and plain mappings up to order, OrderedDict and ChainMap in order",
        "ints stay below CPython's int-to-str digit limit (4300 digits); two NaN keys in one set/dict are not generated "
        "(they are distinct objects in the original but may be one constant after compilation)",
        "the documented placeholder of a type is the one given to hy-repr-register in hy_repr.hy (three dots by default)",
    ]
    chk.matchers["c27_defaultdict_factory"] = m_defaultdict
    chk.matchers["c27_slice_keyword"] = m_slice_kw
    chk.matchers["c27_defaultdict_factory_and_slice_keyword"] = m_both
    chk.prove("Props/C27.v", ["Props/C27.vo", "Print/Ser.vo", "Print/GenChecks.vo", "Print/ReprState.vo"], [print_tables.translate])
    thorough = chk.tier == "thorough"
    hy = pc.hy_mod()
    validate_facts(chk, chk.rng, 20000 if thorough else 2000)
    n_values = 5000 if thorough else 600
    n_graphs = 800 if thorough else 120
    chk.rule = ("values = fixed list (incl. the refutation witnesses) + seeded recursive generator over all documented types "
                "(depth <= 3 quick, <= 5 thorough; strings over quotes, backslashes, controls, Latin-1, non-printables, astral, "
                "surrogates; floats incl. random bit patterns, nan, inf, -0.0; ints to 10^40); graphs = random container trees "
                "with back references to enclosing mutable containers; histories = a print that fails part-way (an element whose "
                "__repr__ raises inside 1-4 nested containers, also inside a model; a RecursionError on a list nested 4x the "
                "recursion limit) followed by prints of every container that was on the stack and of a model; non-trivial = distinct printed text of a container or "
                "of an atom needing escapes/special forms")
    vals = list(FIXED(hy))
    while len(vals) < n_values:
        d = chk.rng.choice([1, 2, 3, 3] if not thorough else [2, 3, 4, 5])
        x = pc.gen_value(chk.rng, d, factories=chk.rng.random() < 0.06)
        if pc.nan_keys_repeat(x):
            chk.count("filtered:two-nan-keys")
            continue
        vals.append(x)
    # ---- implementation side
    impl = []
    for x in vals:
        rec = {}
        try:
            rec["text"] = hy.repr(x)
        except Exception as e:
            chk.fail("repr-raises", {"value": repr(x)}, type(e).__name__ + ": " + str(e), "a string", "hy.repr(%r)" % (x,))
            rec["text"] = None
            impl.append(rec)
            continue
        try:
            m = hy.read(rec["text"])
            rec["read"] = "O" + pc.ser_model(m) + "|0"
        except Exception as e:
            rec["read"] = pc.exc_class(e)
        try:
            y = pc.read_eval(rec["text"])
            rec["eval"] = pc.canon(y)
        except Exception as e:
            rec["eval"] = "ERR " + type(e).__name__
            rec["evalmsg"] = str(e)[:200]
        impl.append(rec)
    # ---- model side
    chunks, index = [], []
    for ch in pc.chunked([i for i in range(len(vals)) if impl[i]["text"] is not None], 40):
        nd, texts, exprs = pc.Needs(), [], []
        for i in ch:
            exprs.append("c27_case W %s" % pc.coq_value(vals[i], nd))
            texts.append(impl[i]["text"])
        chunks.append((pc.oracle_term(nd, texts), exprs))
        index.append(ch)
    t0 = time.time()
    outs = pc.run_chunks(chunks, "c27")
    chk.extra["model_eval_s"] = round(time.time() - t0, 1)
    for ch, res in zip(index, outs):
        for i, (mt, mr, me) in zip(ch, res):
            x, rec = vals[i], impl[i]
            kind = type(x).__name__
            chk.count("type:" + kind)
            chk.case(rec["text"], nontrivial=not (x is None or isinstance(x, bool) or (isinstance(x, int) and abs(x) < 10)),
                     sample={"value": repr(x)[:120], "text": rec["text"][:120]} if i % 97 == 3 else None)
            inp = repr(x)[:400]
            if mt != rec["text"]:
                chk.disagree("ValueRepr.vrepr vs hy.repr", inp, mt, rec["text"])
            if mr != rec["read"]:
                chk.disagree("Reader.read_one vs hy.read on the printed text", rec["text"], mr[:400], rec["read"][:400])
            try:
                mev = pc.parse_ser_value(me) if me != "?" else "ERR"
            except Exception:
                mev = "UNPARSED " + me[:100]
            iev = rec["eval"] if not (isinstance(rec["eval"], str) and rec["eval"].startswith("ERR")) else "ERR"
            if mev != iev:
                chk.disagree("ValueRepr.eval vs hy.eval of the read-back form", rec["text"], repr(mev)[:400], repr(rec["eval"])[:400])
            # ---- the property on the real code
            want = pc.canon(x)
            if rec["eval"] != want:
                fac, skw = pc.has_factory(x), has_slice_keyword(x)
                rest_ok = False
                if fac or skw:
                    try:
                        x2 = without_known(x)
                        rest_ok = pc.canon(pc.read_eval(hy.repr(x2))) == pc.canon(x2)
                    except Exception:
                        rest_ok = False
                chk.count("known-class:%s%s" % ("defaultdict-factory " if fac else "", "slice-keyword" if skw else ""))
                chk.fail("roundtrip",
                         {"value": inp, "text": rec["text"], "defaultdict_factory": fac, "slice_keyword": skw,
                          "rest_roundtrips": rest_ok},
                         repr(rec["eval"])[:300] + " " + rec.get("evalmsg", ""), repr(want)[:300],
                         "PYTHONPATH=%s python: hy.eval(hy.read(hy.repr(x)), env) with env binding the collections "
                         "constructors and Fraction" % vlib.REPO)
            else:
                # printing the read-back value again gives the same text, up to the order of unordered containers
                pass
    # ---- object graphs
    ph = placeholder_table()
    try:
        hy.repr_register(Sentinel, lambda s: s.text)
        graphs = []
        for _ in range(n_graphs):
            spec = gen_graph_spec(chk.rng, chk.rng.choice([2, 3, 4]), 0)
            if isinstance(spec, Back) or spec[0] == "atom":
                continue
            graphs.append(spec)
        gimpl, chunks, index = [], [], []
        for spec in graphs:
            obj = build_graph(spec, [], ph, False)
            flat = build_graph(spec, [], ph, True)
            rec = {"cyclic": is_cyclic(obj)}
            t0 = time.time()
            try:
                rec["text"] = hy.repr(obj)
            except RecursionError:
                rec["text"] = None
                chk.fail("graph-does-not-terminate", {"spec": repr(spec)[:400]}, "RecursionError", "a string with placeholders")
            rec["expected"] = hy.repr(flat)
            rec["obj"] = obj
            gimpl.append(rec)
        for ch in pc.chunked(list(range(len(graphs))), 40):
            nd, exprs = pc.Needs(), []
            for i in ch:
                h, root, n = heap_term(gimpl[i]["obj"], nd)
                exprs.append("heap_case W %s %s" % (h, root))
            chunks.append((pc.oracle_term(nd, []), exprs))
            index.append(ch)
        outs = pc.run_chunks(chunks, "c27g")
        for ch, res in zip(index, outs):
            for i, (mt,) in zip(ch, res):
                rec = gimpl[i]
                chk.count("graph:cyclic" if rec["cyclic"] else "graph:acyclic")
                chk.case("G" + (rec["text"] or ""), nontrivial=rec["cyclic"],
                         sample={"graph": rec["text"][:120]} if i % 41 == 5 and rec["text"] else None)
                if rec["text"] is None:
                    continue
                if mt != "O" + rec["text"]:
                    chk.disagree("ValueRepr.hrepr vs hy.repr on an object graph", repr(graphs[i])[:400], mt[:300], rec["text"][:300])
                if rec["text"] != rec["expected"]:
                    chk.fail("placeholder", {"spec": repr(graphs[i])[:400]}, rec["text"][:300], rec["expected"][:300],
                             "hy.repr of the self-referential object vs hy.repr of the copy whose back references are "
                             "objects printing as the registered placeholder")
    finally:
        import hy.core.hy_repr as hr
        hr._registry.pop(Sentinel, None)
    histories(chk, 250 if thorough else 60)
    # _seen must be empty again (a leak would corrupt every later case)
    leaked = len(hr._seen)
    chk.obligation("hy-repr left _seen empty after all cases", leaked == 0, "%d ids left" % leaked)
