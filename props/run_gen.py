"""Generator of runnable, terminating Hy programs with observable effects, for
C14 (and usable by other behavioural oracles).  Programs log through
`(zq_log key value)`, use names that need mangling or are Python keywords, and
cover the statement-lifting forms.  Text is produced directly (the reader is
part of the path hy2py takes)."""

NAMES = ["a", "b", "c", "a-b", "x?", "*v*", "if", "class", "def", "lambda", "pass", "is", "in", "with", "as", "from",
         "ﬁ", "naïve", "λ", "_p", "--q", "match", "type", "print-me"]
KW_NAMES = {"if", "class", "def", "lambda", "pass", "is", "in", "with", "as", "from"}
NAMES_PLAIN = [n for n in NAMES if n not in KW_NAMES]
BARE_KW = ["continue", "break", "return", "yield", "pass", "raise"]
EXCS = ["ValueError", "KeyError", "ZeroDivisionError", "TypeError", "IndexError"]


class RG:
    def __init__(self, rng, max_depth=4):
        self.r = rng
        self.max_depth = max_depth
        self.k = 0
        self.defined = []
        self.funcs = []
        self.plain = False       # a program without any keyword-named identifier
        self.names = NAMES

    def key(self):
        self.k += 1
        return self.k

    def name(self):
        return self.r.choice(self.names)

    def var(self):
        if self.defined and self.r.random() < 0.985:
            return self.r.choice(self.defined)
        return self.name()

    def define(self, n):
        if n not in self.defined:
            self.defined.append(n)

    # ------------------------------------------------------------ expressions
    def atom(self):
        r = self.r
        k = r.random()
        if k < 0.45:
            return str(r.choice([0, 1, 2, 3, -1, 7, 10]))
        if k < 0.52:
            return r.choice(['"s"', '"a b"', '""', '"é"', '"q\\"x"', "b\"by\""])
        if k < 0.58:
            return r.choice(["True", "False", "None"])
        if k < 0.62:
            return r.choice(["1.5", "-0.0", "1e3", "2j"])
        if k < 0.65:
            return "(do :%s)" % r.choice(["kw", "a-b", "if"])
        return self.var()

    def log(self, e):
        return "(zq_log %d %s)" % (self.key(), e)

    def expr(self, d=0):
        r = self.r
        if d >= self.max_depth or r.random() < 0.2 + 0.12 * d:
            a = self.atom()
            return self.log(a) if r.random() < 0.3 else a
        k = r.random()
        e = lambda: self.expr(d + 1)  # noqa
        if k < 0.10:
            return self.log(e())
        if k < 0.20:
            op = r.choice(["+", "-", "*", "//", "%", "**", "<<", "|", "&", "^", "/"])
            if op in ("**", "<<"):
                return "(%s (%% %s 9) %s)" % (op, e(), r.choice(["1", "2", "3"]))
            n = r.randint(2, 3) if op not in ("%", "^") else 2
            return "(%s %s)" % (op, " ".join(e() for _ in range(n)))
        if k < 0.23:
            return "(%s %s)" % (r.choice(["-", "+", "not", "bnot"]), e())
        if k < 0.26:
            # negative literals in operand positions that bind tighter than unary minus
            neg = r.choice(["-1", "-2", "-5", "-1.5", "-2j", "(- 2)", "(- 1.5)", "(- 3)", "(+ 2)", "(- (- 2))", "-0.0", "-0.0", "(- 0.0)"])
            return r.choice(["(** %s 2)", "(.conjugate %s)", "(. %s real)", "(get [1 2 3] %s)", "(abs %s)", "(** 2 %s)",
                             "(.bit-length (int %s))", "(** %s 3)", "(str (. %s imag))", "(.hex (float %s))", "(str (** %s 2))"]) % neg
        if k < 0.34:
            op = r.choice(["=", "<", "<=", "!=", ">", "is", "in", "not-in", "is-not"])
            if op in ("in", "not-in"):
                return "(%s %s [%s %s])" % (op, e(), e(), e())
            return "(%s %s)" % (op, " ".join(e() for _ in range(r.randint(2, 3))))
        if k < 0.42:
            return "(%s %s)" % (r.choice(["and", "or"]), " ".join(self.stmt_expr(d + 1) for _ in range(r.randint(0, 3))))
        if k < 0.48:
            return "(if %s %s %s)" % (e(), self.stmt_expr(d + 1), self.stmt_expr(d + 1))
        if k < 0.53:
            return "(do %s)" % " ".join(self.stmt_expr(d + 1) for _ in range(r.randint(0, 3)))
        if k < 0.60:
            c = r.choice(["[", "#(", "#{", "{"])
            if c == "{":
                return "{%s}" % " ".join("%s %s" % (r.choice(['"k"', "1", '"a-b"']), e()) for _ in range(r.randint(0, 2)))
            if c == "#{":
                return "#{%s}" % " ".join(str(r.randint(0, 5)) for _ in range(r.randint(0, 3)))
            return c + " ".join(e() for _ in range(r.randint(0, 3))) + ("]" if c == "[" else ")")
        if k < 0.64:
            return "(get [%s %s %s] %s)" % (e(), e(), e(), r.choice(["0", "1", "-1", "5", self.expr(d + 1)]))
        if k < 0.68:
            return 'f"x{%s}y{%s !r:>6}"' % (e(), e()) if r.random() < 0.5 else 'f"{%s :{%s}}"' % (e(), r.choice(["5", "(zq_log %d 4)" % self.key()]))
        if k < 0.70:
            p = self.name()
            return "((fn [%s] %s) %s)" % (p, self.with_defined(p, lambda: self.stmt_expr(d + 1)), e())
        if k < 0.73:
            # an expression-only fn whose only annotation sits on a variadic (or one ordinary) parameter
            p = self.name()
            return r.choice(["((fn [#^ int #* %s] (len %s)) 1 2)", "((fn [#** #^ int %s] (sorted %s)) :k 1)", "((fn [#^ int %s] (+ %s 1)) 2)",
                             "((fn [zq_p #^ int #* %s] (len %s)) 1 2)", "((fn [* #^ int %s] %s) :%s 3)"]).replace("%s", p)
        if k < 0.77:
            v = self.name()
            self.define(v)
            return "(setx %s %s)" % (v, e())
        if k < 0.84:
            return self.try_expr(d)
        if k < 0.87:
            return "(raise (%s %s))" % (r.choice(EXCS), r.randint(0, 9))
        if k < 0.92:
            v = self.name()
            body = self.with_defined(v, lambda: self.stmt_expr(d + 1))
            form = r.choice(["lfor", "sfor", "gfor", "dfor"])
            cond = (" :if %s" % self.with_defined(v, e)) if r.random() < 0.3 else ""
            if form == "dfor":
                return "(dfor %s [1 2 3]%s %s %s)" % (v, cond, v, body)
            if form == "gfor":
                return "(list (gfor %s [1 2 3]%s %s))" % (v, cond, body)
            if form == "sfor":
                return "(sorted (sfor %s [1 2 2]%s (* %s 2)))" % (v, cond, v)
            return "(lfor %s [1 2 3]%s %s)" % (v, cond, body)
        if k < 0.95:
            return self.match_expr(d)
        if k < 0.97:
            return "(with [%s (zq_cm %d)] %s)" % (r.choice(["_", self.name()]), self.key(), self.stmt_expr(d + 1))
        if self.funcs and r.random() < 0.7:
            f, n = r.choice(self.funcs)
            return "(%s %s)" % (f, " ".join(e() for _ in range(n)))
        return r.choice(["(zq_kw :a-b %s :k %s)" if self.plain else "(zq_kw :a-b %s :if %s)", "(zq_sum #* [%s %s])", "(.upper (str %s))" + "%.0s", "(chainc %s < %s)"]) % (e(), e())

    def with_defined(self, v, f):
        had = v in self.defined
        self.define(v)
        try:
            return f()
        finally:
            if not had and v in self.defined:
                self.defined.remove(v)

    def stmt_expr(self, d):
        """an expression, or a statement-like form in expression position (the compiler lifts it)"""
        r = self.r
        if d < self.max_depth and r.random() < 0.25:
            return self.stmt(d)
        return self.expr(d)

    def try_expr(self, d):
        r = self.r
        out = "(try %s" % self.stmt_expr(d + 1)
        n = r.randint(0, 2)
        for _ in range(n):
            v = self.name()
            k = r.random()
            spec = "[]" if k < 0.2 else "[%s]" % r.choice(EXCS) if k < 0.5 else "[%s %s]" % (v, r.choice(EXCS)) if k < 0.8 else \
                "[%s [%s %s]]" % (v, r.choice(EXCS), r.choice(EXCS))
            out += " (except %s %s)" % (spec, self.stmt_expr(d + 1))
            if k < 0.2:
                break
        if n and r.random() < 0.3:
            out += " (else %s)" % self.stmt_expr(d + 1)
        if n == 0 or r.random() < 0.4:
            out += " (finally %s)" % self.log('"fin"')
        return out + ")"

    def match_expr(self, d):
        r = self.r
        subj = r.choice([self.expr(d + 1), "[1 2 3]", '{"k" 1 "j" 2}', "1", "#(5 2)", "[1 7]"])
        out = "(match %s" % subj
        for _ in range(r.randint(1, 3)):
            v = self.name()
            if r.random() < 0.35 and not self.plain:
                # binding positions of patterns with names that are Python keywords (MatchAs.name, MatchStar.name, MatchMapping.rest)
                v = r.choice(["if", "class", "def", "lambda", "pass", "is", "in", "with", "as", "from"])
            pat = r.choice(["1", '"s"', "None", "[1 %s]" % v, "[%s #* zq-rest]" % v, '{"k" %s}' % v, "(| 1 2)", "(| 3 4) :as %s" % v,
                            "%s :if (> %s 1)" % (v, v), v, "_", ":kw", "(int)", "#(%s 2)" % v,
                            "[1 #* %s]" % v, "[#* %s]" % v, '{"k" 1 #** %s}' % v, "{#** %s}" % v, "1 :as %s" % v, "[%s %s2]" % (v, v)])
            out += " %s %s" % (pat, self.with_defined(v, lambda: self.stmt_expr(d + 1)))
        return out + ")"

    # ------------------------------------------------------------ statements
    def stmt(self, d=0):
        s = self.stmt1(d)
        if d > 0 and (s.count("\n") or s.startswith("(setv zq_i")):
            return "(do %s)" % s.replace("\n", " ")
        return s

    def bare_keyword_statement(self, d):
        """a bare symbol named like a Python statement keyword, as a non-final body form where that statement would be legal:
        compiled it is Expr(Name(...)) (a NameError at run time); printed unminced it would be the statement itself"""
        r = self.r
        kw = r.choice(BARE_KW)
        a, b = self.key(), self.key()
        if kw in ("continue", "break"):
            v = "zq_j%d" % self.key()
            if r.random() < 0.5:
                return "(for [%s [1 2 3]] (zq_log %d %s) %s (zq_log %d %s))" % (v, a, v, kw, b, v)
            return "(setv %s 0) (while (< %s 3) (+= %s 1) (zq_log %d %s) %s (zq_log %d %s))" % (v, v, v, a, v, kw, b, v)
        f = "zq-b%d" % self.key()
        call = "(zq_log %d (list (%s)))" % (self.key(), f) if kw == "yield" else "(zq_log %d (%s))" % (self.key(), f)
        if kw == "raise":
            return "(defn %s [] (try (/ 1 0) (except [ZeroDivisionError] (zq_log %d 1) raise (zq_log %d 2))))\n%s" % (f, a, b, call)
        return "(defn %s [] (zq_log %d 1) %s (zq_log %d 2))\n%s" % (f, a, kw, b, call)

    def underscore_identifier(self, d):
        """`_` used as an ordinary identifier, with a variable Y beside it (the printed source must keep them apart)"""
        r = self.r
        a, b, c = self.key(), self.key(), self.key()
        return r.choice([
            '(setv Y "kept")\n(for [_ [1 2]] (zq_log %d _))\n(zq_log %d Y)\n(zq_log %d _)' % (a, b, c),
            '(setv _ 5 Y 6)\n(zq_log %d [_ Y])' % a,
            '(zq_log %d (zq_kw :_ 1 :Y 2))' % a,
            '(defclass zq-U%d [] (setv _ 1 Y 2))\n(zq_log %d [(getattr zq-U%d "_") (getattr zq-U%d "Y")])' % (a, b, a, a),
            '(defn zq-u%d [_ Y] [_ Y])\n(zq_log %d (zq-u%d 1 2))' % (a, b, a),
        ])

    def stmt1(self, d=0):
        r = self.r
        if d == 0 and r.random() < 0.04:
            return self.underscore_identifier(d)
        if self.plain and r.random() < 0.12:
            return self.bare_keyword_statement(d)
        k = r.random()
        e = lambda: self.expr(d + 1)  # noqa
        if d >= self.max_depth:
            k = r.random() * 0.3
        if k < 0.22:
            v = self.name()
            s = "(setv %s %s)" % (v, self.stmt_expr(d + 1))
            self.define(v)
            return s
        if k < 0.27:
            a, b = self.name(), self.name()
            s = "(setv [%s #* %s] [%s %s %s])" % (a, b, e(), e(), e())
            self.define(a)
            self.define(b)
            return s
        if k < 0.33 and self.defined:
            return "(%s %s %s)" % (r.choice(["+=", "*=", "-=", "//="]), r.choice(self.defined), e())
        if k < 0.40:
            return self.log(e())
        if k < 0.48:
            f = "zq-f%d" % self.key()
            ps = [self.name() for _ in range(r.randint(0, 2))]
            ps = list(dict.fromkeys(ps))
            saved = list(self.defined)
            for p in ps:
                self.define(p)
            body = " ".join(self.stmt_expr(d + 1) for _ in range(r.randint(1, 3)))
            self.defined = saved
            deco = "[zq_deco] " if r.random() < 0.15 else ""
            self.funcs.append((f, len(ps)))
            return "(defn %s%s [%s] %s)" % (deco, f, " ".join(ps), body)
        if k < 0.55:
            v = self.name()
            body = self.with_defined(v, lambda: " ".join(self.stmt_expr(d + 1) for _ in range(r.randint(1, 2))))
            els = (" (else %s)" % self.log('"else"')) if r.random() < 0.3 else ""
            brk = " (when (= %s 2) (break))" % v if r.random() < 0.3 else ""
            self.define(v)
            return "(for [%s [1 2 3]] %s%s%s)" % (v, body, brk, els)
        if k < 0.62:
            c = "zq_i%d" % self.key()
            body = " ".join(self.stmt_expr(d + 1) for _ in range(r.randint(1, 2)))
            cond = "(< %s 3)" % c if r.random() < 0.6 else "(do (zq_log %d %s) (< %s 2))" % (self.key(), c, c)
            self.define(c)
            return "(setv %s 0) (while %s (+= %s 1) %s)" % (c, cond, c, body)
        if k < 0.68:
            return "(%s %s %s)" % (r.choice(["when", "when"]), e(), " ".join(self.stmt_expr(d + 1) for _ in range(r.randint(1, 2))))
        if k < 0.72:
            return "(cond %s %s %s %s True %s)" % (e(), self.stmt_expr(d + 1), e(), self.stmt_expr(d + 1), self.stmt_expr(d + 1))
        if k < 0.76:
            return "(assert %s %s)" % (e(), r.choice(['"msg"', "(zq_log %d \"m\")" % self.key(), ""]))
        if k < 0.80:
            v = self.name()
            return "(let [%s %s] %s)" % (v, e(), self.with_defined(v, lambda: " ".join(self.stmt_expr(d + 1) for _ in range(r.randint(1, 2)))))
        if k < 0.85:
            c = "zq-C%d" % self.key()
            a = self.name()
            return "(defclass %s [] (setv %s %s) (defn m [self] (zq_log %d (. self %s))))\n(.m (%s))" % (c, a, e(), self.key(), a, c)
        if k < 0.88 and self.defined:
            v = r.choice(self.defined)
            self.defined.remove(v)
            return "(del %s)" % v
        if k < 0.91:
            g = "zq-g%d" % self.key()
            return "(defn %s [] (yield %s) (yield :from [%s %s]))\n(zq_log %d (list (%s)))" % (g, e(), e(), e(), self.key(), g)
        if k < 0.94:
            v = self.name()
            self.define(v)
            return "(defn zq-s%d [] (global %s) (setv %s %s))\n(zq-s%d)" % (self.k + 1, v, v, e(), self.key())
        if k < 0.96:
            v = self.name()
            self.define(v)
            return "(setv #^ int %s %s)" % (v, e())
        if k < 0.98:
            return r.choice(["(import math)", "(import math [floor :as fl-oor])", "(pys \"zq_py = 1\")", "(zq_log %d (py \"1 + 1\"))" % self.key()])
        return self.try_expr(d)

    def program(self):
        self.k = 0
        self.defined = []
        self.funcs = []
        n = self.r.randint(2, 7)
        # one program in four uses no keyword-named identifier at all (its printed form parses without any mincing)
        self.plain = self.r.random() < 0.25
        self.names = NAMES_PLAIN if self.plain else NAMES
        # every name starts out bound, so that most programs run to the end
        pre = "(setv %s)\n" % " ".join("%s %d" % (nm, i) for i, nm in enumerate(self.names))
        self.defined = list(self.names)
        return pre + "\n".join(self.stmt(0) if self.r.random() < 0.75 else self.expr(0) for _ in range(n)) + "\n"
