"""C18 -- reading any text yields models or raises LexException / PrematureEndOfInput,
never another exception type, and always terminates."""
import re

from lib import vlib
from props import reader_common as rc
from translator import reader_tables

META = {
    "technique": "Coq proof (termination by a progress lemma with fuel linear in the input; exhaustive result-shape analysis "
                 "of every mode) over a hand-written Gallina model of the whole reader, parameterised by oracles for the "
                 "token-level decisions; dispatch table, character classes and the except clauses of try_parse_one_form "
                 "regenerated from the source; extracted-model vs hy.read_many differential run",
    "level_text": "Theorems C18_read_terminates, C18_progress, C18_fuel_irrelevant, C18_read_outcome_class, C18_trichotomy "
                  "(coq/Props/C18.v) hold for every input text and every oracle record, with no bound on length or nesting, "
                  "over a model of Reader/HyReader (every @reader_for handler, strings, bracket strings, f-strings) whose "
                  "tables are regenerated from hy/reader/*.py and whose behaviour is compared with hy.read_many on every "
                  "run (outcome class and model tree; quick ~19k texts, thorough ~330k).",
    "level_note": "Trusted: Coq kernel; the model Reader/Model.v is hand-written and tied by differential execution, not "
                  "verified; its three oracles (number classification of as_identifier, escape decoding by CPython's "
                  "codecs, str.strip whitespace) are universally quantified in the theorems; Python's recursion limit is "
                  "not modelled (RecursionError on deep nesting is converted by the code and checked by the oracle only); "
                  "translator/reader_tables.py; extraction (ExtrOcamlBasic) + extract/reader_driver.ml + harness.",
}

TRUSTED = [
    "Coq 8.16.1 kernel (coqc, full .vo); vm_compute only in Examples and the except-clause table facts; no native_compute",
    "axioms: none (Print Assumptions: Closed under the global context for every C18 theorem)",
    "theorems quantify over every oracle record (numeric, decode, pyspace, mk): no hypothesis about them is used",
    "exception class hierarchy used by the model's `convert` (mro_prem, mro_lex, mro_py) -- validated against the "
    "interpreter's __mro__ on every run",
    "translator/reader_tables.py: NON_IDENT, _whitespace, the reader_for table with handler descriptors, the except clauses of "
    "try_parse_one_form, the shapes of parse_one_form / parse_forms_until and of the sugar handlers (fail-closed)",
    "hand-written model Reader/Model.v of Reader + HyReader + the raising model constructors, tied by differential execution: "
    "extraction (ExtrOcamlBasic only) + extract/reader_driver.ml + props/reader_common.py",
    "not modelled: Python's recursion limit, skip_shebang=True, bracketed_templates=True, user-defined reader macros (C37)",
]


def validate_mro(chk):
    """the class hierarchy the model's `convert` relies on, against this interpreter"""
    hy = vlib.use_repo_in_process()
    from hy.reader.exceptions import LexException, PrematureEndOfInput
    want = {
        "mro_prem": [c.__name__ for c in PrematureEndOfInput.__mro__ if c is not object],
        "mro_lex": [c.__name__ for c in LexException.__mro__ if c is not object],
        "(mro_py ESyntaxError)": [c.__name__ for c in SyntaxError.__mro__ if c is not object],
        "(mro_py EValueError)": [c.__name__ for c in ValueError.__mro__ if c is not object],
    }
    names = list(want)
    res = vlib.coq_eval(["HyV.Reader.Syntax", "HyV.Reader.Model"], "", names, tag="c18mro")
    bad = {}
    for n, r in zip(names, res):
        got = ["".join(chr(int(x)) for x in re.findall(r"\d+", part)) for part in re.findall(r"\[([^\[\]]*)\]", r)]
        if got != want[n]:
            bad[n] = (got, want[n])
    # the model's two Python exception classes must be the ones the string code can raise: all are Exceptions
    chk.obligation("exception class hierarchy of the model equals the interpreter's __mro__ (4 classes)", not bad, repr(bad))


def judge(chk, text, ires, kind, sb=False):
    """the property statement on the real reader's behaviour"""
    how = "PYTHONPATH=%s python -c 'import hy; list(hy.read_many(%r%s))'" % (vlib.REPO, text, ", skip_shebang=True" if sb else "")
    if ires[0] == "Other":
        chk.fail("other-exception", {"text": text, "kind": kind}, "%s: %s" % (ires[1], ires[2]),
                 "models, LexException or PrematureEndOfInput", how)
    elif ires[0] == "Timeout":
        chk.fail("does-not-terminate", {"text": text, "kind": kind}, "no result within the watchdog (twice)",
                 "termination", how)


def run(chk):
    chk.trusted = TRUSTED
    chk.assumptions = [
        "'reading with hy.read-many' is list(hy.read_many(text)) with the default HyReader, as the property's observation "
        "point says; reader macros defined by the text itself are excluded (C37)",
        "'always terminates' is checked on the real code with a 5 s watchdog confirmed by a 20 s one; after two confirmed "
        "non-terminating reads the run stops generating (they are reported); the proof of termination is about the model",
        "files are read with skip_shebang=True (importer, hy2py, hy command): that stream is judged and modelled too "
        "(read_many_file)",
    ]
    chk.prove("Props/C18.v", ["Props/C18.vo", "Reader/Extract.vo"], [reader_tables.translate])
    thorough = chk.tier == "thorough"
    validate_mro(chk)
    try:
        binary = rc.build_driver()
    except Exception as e:
        chk.obligation("extracted reader model builds", False, str(e))
        binary = None
    oracles = rc.Oracles()
    impl = rc.Impl()
    model = rc.Model(binary, oracles) if binary else None
    rng = chk.rng
    gen = rc.Gen(rng)
    chk.rule = ("texts = fixed corpus of boundary cases + token soup over the syntax-significant characters and tokens "
                "(delimiters, sugar, string prefixes, f-string braces, escapes valid and invalid, CR/NUL/BOM/non-ASCII "
                "spaces and digits/surrogates/astral) + grammar-generated programs with random separators, their "
                "minimal-separator printing and one random mutation each + nesting up to 3000 deep + long inputs; "
                "non-trivial = distinct text whose reading is not the empty model list")

    def case(text, kind, correspond=True, sb=False):
        ires = impl.read_many(text, skip_shebang=sb)
        chk.count("kind:" + kind)
        chk.count("impl:" + ires[0])
        judge(chk, text, ires, kind, sb)
        nontrivial = not (ires[0] == "Ok" and not ires[1])
        sample = None
        if chk.evaluations % 2500 == 17:
            sample = {"text": text[:80], "outcome": ires[0]}
        chk.case(text, nontrivial=nontrivial, sample=sample)
        if model is None or not correspond:
            return
        if rc.hit_recursion_limit(ires):
            chk.count("correspondence-skipped:recursion-limit")
            return
        if ires[0] in ("Other", "Timeout"):
            return
        mres = model.read_many(text, skip_shebang=sb)
        chk.count("model:" + mres[0])
        d = rc.compare(text, mres, ires, oracles)
        if d:
            chk.disagree("Reader.Model.read_many%s vs hy.read_many%s" % (("_file", "(skip_shebang=True)") if sb else ("", "")),
                         text, d, ires[0])

    try:
        for t in rc.CORPUS:
            case(t, "corpus")
        n_soup = 120000 if thorough else 6000
        n_prog = 60000 if thorough else 2800
        for _ in range(n_soup):
            case(rc.soup(rng), "soup")
        for _ in range(n_prog):
            p = gen.program()
            t, _r = rc.render(p)
            case(t, "program")
            case(rc.mutate(rng, t), "mutated")
            if rng.random() < 0.5:
                case(rc.mutate(rng, rc.mutate(rng, t)), "mutated2")
            t2, _r = rc.render(p, "min")
            case(t2, "program-min")
        # deep nesting: the implementation must classify even when Python's recursion limit is hit.  Completed
        # nests between ~150 and the recursion limit are left out: fill_pos/replace make reading them take
        # minutes (polynomial, it does terminate), which no watchdog could tell from divergence.
        for opener, closer in (("(", ")"), ("[", "]"), ("#{", "}"), ("'", ""), ("#_", " x"), ('f"{', '}"'), ("~@", "")):
            for depth in ((40, 300, 1000, 3000, 10000) if thorough else (40, 300, 1000)):
                case(opener * depth, "deep-open", correspond=depth <= 40)
                if depth <= 40 or depth >= 1000:
                    # completed f-string nests cost polynomial time in the depth (4 s at 40 levels, 12 s at 60): under
                    # load that comes too close to the watchdog, so the shallow instance uses 16 levels (0.1 s)
                    d2 = 16 if (opener == 'f"{' and depth == 40) else depth
                    case(opener * d2 + "a" + closer * d2, "deep", correspond=depth <= 40)
        # long flat inputs (termination in time linear in the input on the real code; the extracted model keeps
        # unary lengths and is only run on the shorter ones)
        for n in ((2000, 20000, 200000) if thorough else (2000, 20000)):
            for t in ("a " * n, "(" + "x " * n + ")", '"' + "y" * n + '"', ";" + "z" * n, "#[[" + "w" * n, "'" + "(a) " * n):
                case(t, "long", correspond=n <= 2000)
        # files: skip_shebang=True is how the importer, hy2py and the hy command read source; HyReader.parse skips the
        # shebang line outside try_parse_one_form
        SHEBANGS = ["7", "a", " 7", "\\n7", " (a)", "\\t[b]", "ab", "#!", "#!x", "#!/usr/bin/env hy", "#!\r", "#!\r\n", "#!\n", "#!\n\n", "#!/usr/bin/env hy\n", "#!x\n(a b)", "#!x\n(a",
                    "#!x\n#!y\nz", "#!x\r(a)", " #!x\n1", "#", "#! ", "#!\x00", "#!\u2028a", "\ufeff#!x\n1", "#!(\n)", "#!\"\n\"",
                    "#!;\n1", "#_#!x\n1", "#!" + "y" * 5000, "#!" + "y" * 5000 + "\n(ok)"]
        for t in SHEBANGS:
            case(t, "shebang-corpus", sb=True)
            case(t, "shebang-corpus-default")
        for t in rc.CORPUS:
            case(t, "corpus-file", sb=True)
        for _ in range(20000 if thorough else 1200):
            r = rng.random()
            if r < 0.35:
                t = "#!" + rc.soup(rng)
            elif r < 0.5:
                t = "#!" + rc.soup(rng, 3) + "\n" + rc.soup(rng)
            elif r < 0.65:
                p = gen.program()
                t = rng.choice(["#!/usr/bin/env hy\n", "#!\n", "#!x\r\n", "#!a\rb\n"]) + rc.render(p)[0]
            elif r < 0.8:
                p = gen.program()
                full = "#!/usr/bin/env hy\n" + rc.render(p)[0]
                t = full[:rng.randrange(len(full) + 1)]
            else:
                t = rc.soup(rng)
            case(t, "shebang", sb=True)
    except rc.TooManyTimeouts:
        chk.notes.append("stopped generating after %d reads that did not terminate (each confirmed with a 20 s allowance)"
                         % rc.MAX_TIMEOUTS)
    if model:
        model.close()
    chk.extra["oracle_queries"] = oracles.queries
    chk.extra["distinct_number_tokens"] = sum(1 for v in oracles.num.values() if v[0])


def setup():
    rc.build_driver()
