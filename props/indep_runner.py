"""Runs under the independent interpreter (/usr/bin/python3, older than 3.12: no PEP 709 comprehension
inlining).  Reads {"src": python source emitted by Hy (without `import hy`), "names": [...]} from stdin,
executes it with the harness' logging function defined, prints {"log", "exc", "globals"} as JSON."""
import io
import json
import sys


def main():
    job = json.load(sys.stdin)
    names = set(job.get("names", []))
    log = []

    def show(v):
        if isinstance(v, (int, str, bool, type(None))):
            return v
        if isinstance(v, type):
            return "<class>"
        if callable(v):
            return "<function>"
        if isinstance(v, (list, tuple)):
            return [show(a) for a in v]
        if isinstance(v, dict):
            return {k: show(x) for k, x in sorted(v.items(), key=lambda t: str(t[0])) if k in names}
        return "<%s>" % type(v).__name__

    def lg(k, v):
        log.append([k, show(v)])
        return v
    g = {"__name__": "indep", "lg": lg, "LOG": log}
    res = {"version": list(sys.version_info[:3])}
    real = sys.stdout
    sys.stdout = io.StringIO()
    try:
        try:
            code = compile(job["src"], "<emitted>", "exec")
        except BaseException as e:  # noqa
            res["compile_err"] = "%s: %s" % (type(e).__name__, e)
            code = None
        if code is not None:
            try:
                exec(code, g)
            except BaseException as e:  # noqa
                res["exc"] = "%s: %s" % (type(e).__name__, str(e)[:200])
            res["log"] = log
            res["globals"] = {k: show(v) for k, v in g.items() if k in names}
    finally:
        sys.stdout = real
    json.dump(res, real)


main()
