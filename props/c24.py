"""C24 -- f-strings evaluate like the equivalent Python f-string."""
import ast
import re
import time
import unicodedata

from lib import vlib
from props import print_common as pc
from translator import print_tables

META = {
    "technique": "Coq proof over an f-string syntax tree (literal runs with brace and named escapes, fields with debugging "
                 "=, conversions and format specs nested to any depth): the reader model builds exactly the tree's "
                 "components from the rendered Hy text, and their compilation formats like the JoinedStr that Python's "
                 "rules prescribe, for every value assignment and formatting function; rules validated against "
                 "ast.parse; reader/compiler models compared with hy.read / hy_compile; both renderings evaluated",
    "level_text": "C24_fstring_evaluates_like_python_partial (coq/Props/C24.v): for every f-string tree meeting parts_ok "
                  "(any nesting depth) the Hy path (read_fcomponents_until/read_fcomponent, FString.__new__, "
                  "compile_fstring/compile_fcomponent, modelled) and Python's rules give trees that format to the same "
                  "string for all values; malformed fields are Lex errors and invalid conversions compile errors. The run "
                  "compares the models with the implementation, the rules with CPython's parser, and evaluates both "
                  "renderings of every generated f-string.",
    "level_note": "Trusted: Coq kernel; the statement of Python's rules (py_ast), validated against ast.parse on every "
                  "generated case; hand-written reader/compiler models tied by differential execution; formatting itself "
                  "is Python's in both paths (abstract in the theorem). Partial: format-spec literal text is plain "
                  "characters; rf-, bracket and t-strings are outside the theorem (their reading is compared by C25's run).",
}

TRUSTED = [
    "Coq 8.16.1 kernel (coqc, full .vo); vm_compute for regenerated-table obligations and correspondence runs",
    "axioms: none (Print Assumptions: Closed under the global context for every C24 theorem)",
    "Print/FStringAst.v:py_ast, the statement of Python's rules for building JoinedStr (PEP 498/701: brace escapes, = "
    "adds the field's text and defaults to !r without conversion or spec, conversions, nested specs) -- compared with "
    "ast.parse of the Python rendering on every generated case (up to merging of adjacent constants and the empty spec)",
    "hand-written models Print/Reader.v (reader), Print/FStringAst.v compile_comp (compile_fstring, compile_fcomponent), "
    "tied by differential execution against hy.read and hy.compiler.hy_compile on every generated case",
    "unicodedata.lookup is an oracle (table built from the interpreter); expressions inside fields are opaque: the "
    "theorem assumes only that the reader reads the expression's text back (expr_reads), which the run checks by reading",
    "translator/print_tables.py (reader tables regenerated on every run)",
]

# expressions: (hy text, python text); the debugging = is only judged where both texts coincide
EXPRS = [("x", "x"), ("y", "y"), ("w", "w"), ("n", "n"), ("s", "s"), ("z", "z"), ("3", "3"), ("x.real", "x.real"),
         ('"q"', '"q"'), ("(+ n 1)", "(n + 1)"), ("(len s)", "len(s)"), ("(get s 0)", "s[0]"), ("[n w]", "[n, w]"),
         ("(.upper s)", "s.upper()"), ("(* w 2)", "(w * 2)"), ("None", "None"), ("-7", "-7"), ("1.5", "1.5"),
         ("fill", "fill"), ("al", "al"), ("k", "k"), ("ty", "ty"),
         # nested f-strings with replacement fields of their own (the debugging = must show their whole source text)
         ('f"{x}"', 'f"{x}"'), ('f"<{n}>"', 'f"<{n}>"'), ('[f"{w}"]', '[f"{w}"]'), ('f"{y}{k}"', 'f"{y}{k}"'),
         ('f"{w :>{k}}"', 'f"{w:>{k}}"'), ('(+ "<" f"{x}" ">")', '("<" + f"{x}" + ">")')]
NESTED_FS = [e for e in EXPRS if 'f"' in e[0]]
# forms that compile to statements, with an effect whose order is visible: (hy text, python text, the expression left
# in the JoinedStr once hy_compile has hoisted the statements); one for a field's value, one for a field nested in its spec
STATEFUL_VALUE = ("(do (setv a (next it)) a)", "next(it)", "a")
STATEFUL_SPEC = ("(do (setv b (next it)) b)", "next(it)", "b")
COMPILED_AS = {STATEFUL_VALUE[0]: "a", STATEFUL_SPEC[0]: "b"}
# values used inside format specs: strings, whose repr differs from their str
SPEC_EXPRS = {"fill": ("fill", "fill"), "align": ("al", "al"), "width": ("k", "k"), "type": ("ty", "ty")}
ENV = {"x": 3.14159, "y": "h\xe9llo", "w": 8, "n": -42, "s": "a'b\"c", "z": 10 ** 20,
       "fill": "*", "al": "^", "k": 12, "ty": "s"}


def env():
    """a fresh environment per evaluation: `it` is consumed by the stateful forms"""
    e = dict(ENV)
    e["it"] = iter([5, 3, 9, 4, 11, 6])
    return e
LIT_PLAIN = list("abcXYZ 019_-+.,:;!?@#$%^&*=<>/|()[]'") + ["\xe9", "€", "\U0001F600", "\t", "\n"]
LIT_ESC = ["\\\\", '\\"', "\\'", "\\n", "\\t", "\\r", "\\a", "\\b", "\\f", "\\v"]
NAMES = ["BULLET", "LATIN SMALL LETTER A", "EM DASH", "GREEK SMALL LETTER LAMDA", "HYPHEN-MINUS"]
SPEC_PLAIN = list("<>^ 0123456789.,_+-#xdfseg%")
SPEC_VALID = [">8", "<8", "^10", "08", ".3", ",", "_", "+", " ", "#x", "e", "s", "d", "f", ".2f", ">", "<", "12", "=+9", "*^7", ""]
NORM_PY = {}


def norm_py(t):
    if t not in NORM_PY:
        NORM_PY[t] = ast.unparse(ast.parse(t, mode="eval").body)
    return NORM_PY[t]


def gen_lit(rng, maxlen=5):
    """literal items: (source, kept, value) triples"""
    items = []
    for _ in range(rng.randrange(1, maxlen + 1)):
        r = rng.random()
        if r < 0.55:
            c = rng.choice(LIT_PLAIN)
            items.append((c, c, c))
        elif r < 0.7:
            e = rng.choice(LIT_ESC)
            items.append((e, e, eval('"' + e + '"')))
        elif r < 0.78:
            cp = rng.choice([0x41, 0xe9, 0x7f, 0x01, 0x20ac, 0x1F600])     # NUL trips a CPython 3.12 parser defect
            e = "\\x%02x" % cp if cp < 256 and rng.random() < 0.7 else ("\\u%04x" % cp if cp < 65536 else "\\U%08x" % cp)
            items.append((e, e, chr(cp)))
        elif r < 0.86:
            items.append(("{{", "{", "{"))
        elif r < 0.94:
            items.append(("}}", "}", "}"))
        else:
            nm = rng.choice(NAMES)
            e = "\\N{" + nm + "}"
            items.append((e, e, unicodedata.lookup(nm)))
    # a brace escape right after kept text ending in backslash-N would be read as a named escape: not generated
    out, kept = [], ""
    for it in items:
        if it[0] == "{{" and kept.endswith("\\N"):
            continue
        out.append(it)
        kept += it[1]
    return ("lit", "".join(i[0] for i in out), "".join(i[1] for i in out), "".join(i[2] for i in out))


def gen_field(rng, depth):
    ws = lambda: rng.choice(["", "", " ", "  ", "\n "])
    hy_t, py_t = rng.choice(NESTED_FS if rng.random() < 0.12 else EXPRS)
    ws1 = ws()
    dbg = conv = None
    hs = False
    spec = []
    if rng.random() < (0.6 if 'f"' in hy_t else 0.3) and hy_t == py_t:
        dbg = ws()
    if rng.random() < 0.4:
        conv = (rng.choice("sra"), rng.choice(["", "", " "]))
    if rng.random() < 0.22:
        # a spec assembled from nested fields: [fill][align][width][type], each a field without conversion of its own,
        # under an outer conversion or not (the nested fields must not inherit it)
        hs = True
        if conv is None and rng.random() < 0.7:
            conv = (rng.choice("ra"), rng.choice(["", " "]))
        bare = lambda name: ("field", "", SPEC_EXPRS[name][0], SPEC_EXPRS[name][1], "", None, None, False, [])
        lit = lambda t: ("lit", t, t, t)
        if rng.random() < 0.7:
            spec.append(bare("fill"))
            spec.append(bare("align") if rng.random() < 0.5 else lit(rng.choice("<>^")))
        elif rng.random() < 0.5:
            spec.append(bare("align"))
        spec.append(bare("width") if rng.random() < 0.6 else lit(str(rng.randrange(1, 20))))
        if conv is not None and rng.random() < 0.4:
            spec.append(bare("type"))
    elif rng.random() < 0.5:
        hs = True
        for _ in range(rng.randrange(0, 3)):
            if rng.random() < 0.55 or depth <= 0:
                n = rng.randrange(1, 4)
                t = rng.choice(SPEC_VALID) if rng.random() < 0.7 else "".join(rng.choice(SPEC_PLAIN) for _ in range(n))
                if t:
                    spec.append(("lit", t, t, t))
            else:
                spec.append(gen_field(rng, depth - 1))
    ws2 = rng.choice([" ", " ", "  ", "\n"]) if (dbg is not None or conv or hs or rng.random() < 0.3) else ""
    if ws1.startswith("{") or (ws1 + hy_t).startswith("{"):
        ws1 = " " + ws1
    if conv and hs:
        pass
    return ("field", ws1, hy_t, py_t, ws2, dbg, conv, hs, spec)


def gen_stateful(rng):
    """one field whose value and / or a field nested in its spec compile to statements consuming `it`: Python evaluates
    the value first, then the spec"""
    lit = lambda t: ("lit", t, t, t)
    nested = lambda e: ("field", rng.choice(["", " "]), e[0], e[1], "", None, None, False, [])
    r = rng.random()
    value = STATEFUL_VALUE if r < 0.8 else rng.choice([("w", "w"), ("k", "k"), ("n", "n")])
    spec = []
    if rng.random() < 0.5:
        spec.append(lit(rng.choice(["*>", "<", "^", "0", ">", "_^"])))
    spec.append(nested(STATEFUL_SPEC if (r >= 0.8 or rng.random() < 0.8) else ("w", "w")))
    if rng.random() < 0.3:
        spec.append(lit(rng.choice(["d", "x", ",", ".1f"])))
    conv = None
    return ("field", rng.choice(["", " "]), value[0], value[1], " ", None, conv, True, spec)


def gen_fs(rng, depth):
    parts = []
    for _ in range(rng.randrange(0, 5)):
        parts.append(gen_lit(rng) if rng.random() < 0.5 else gen_field(rng, depth))
    if rng.random() < 0.1:
        # at most one per f-string: Hy hoists the statements of all fields in front of the whole string
        parts.insert(rng.randrange(len(parts) + 1), gen_stateful(rng))
    return parts


def render(parts, py):
    out = []
    for p in parts:
        if p[0] == "lit":
            out.append(p[1])
        else:
            _, ws1, hy_t, py_t, ws2, dbg, conv, hs, spec = p
            s = "{" + ws1 + (py_t if py else hy_t) + ws2
            if dbg is not None:
                s += "=" + dbg
            if conv:
                s += "!" + conv[0] + ("" if py else conv[1])
            s += (":" + render(spec, py) + "}") if hs else "}"
            out.append(s)
    return "".join(out)


def max_depth(parts):
    d = 0
    for p in parts:
        if p[0] == "field":
            d = max(d, 1 + max_depth(p[8]))
    return d


def coq_parts(parts, nd, models):
    out = []
    hy = pc.hy_mod()
    for p in parts:
        if p[0] == "lit":
            pc.Needs.st(nd, p[3])
            out.append("(PLit %s %s %s)" % (pc.ctext(p[1]), pc.ctext(p[2]), pc.ctext(p[3])))
        else:
            _, ws1, hy_t, py_t, ws2, dbg, conv, hs, spec = p
            m = hy.read(hy_t)
            models[pc.ser_model(m)] = norm_py(py_t)
            if hy_t in COMPILED_AS:
                models["compiled:" + pc.ser_model(m)] = COMPILED_AS[hy_t]
            out.append("(PField %s %s %s %s %s %s %s [%s])" % (
                pc.ctext(ws1), pc.coq_model(m, nd), pc.ctext(hy_t), pc.ctext(ws2),
                "None" if dbg is None else "(Some %s)" % pc.ctext(dbg),
                "None" if not conv else "(Some (%d%%N, %s))" % (ord(conv[0]), pc.ctext(conv[1])),
                "true" if hs else "false", "; ".join(coq_parts(spec, nd, models))))
    return out


# ------------------------------------------------------------------ JoinedStr canonical forms

class JP:
    """parse Print/SerF.v ser_jnodes into nested python lists, expressions kept as model-ser strings"""

    def __init__(self, s):
        self.s, self.i = s, 0

    def nodes(self, close):
        out = []
        self.i += 1
        while self.s[self.i] != close:
            if self.s[self.i] == " ":
                self.i += 1
            out.append(self.node())
        self.i += 1
        return out

    def node(self):
        c = self.s[self.i]
        self.i += 1
        if c == "K":
            j = self.s.index("]", self.i)
            body = self.s[self.i + 1:j]
            self.i = j + 1
            return ("K", "".join(chr(int(x)) for x in body.split(",")) if body else "")
        assert c == "V", self.s[self.i - 1:self.i + 30]
        j = self.model_end(self.i)
        e = self.s[self.i:j]
        self.i = j + 1       # skip '!'
        m = re.compile(r"-|\d+").match(self.s, self.i)
        self.i = m.end()
        conv = None if m.group(0) == "-" else int(m.group(0))
        if self.s[self.i] == "~":
            self.i += 1
            return ("V", e, conv, None)
        return ("V", e, conv, self.nodes(")"))

    def model_end(self, i):
        """end of a ser_model text starting at i (balanced parentheses; ends at the '!' that follows)"""
        depth = 0
        while True:
            ch = self.s[i]
            if ch == "[":
                i = self.s.index("]", i)
            elif ch == "(":
                depth += 1
            elif ch == ")":
                depth -= 1
            elif ch == "!" and depth == 0:
                return i
            i += 1


def parse_jnodes(s):
    return JP(s).nodes("]")


def norm(nodes, exprmap):
    """merge adjacent constants, drop empty ones, empty spec = no spec; expressions as python text"""
    out = []
    for n in nodes:
        if n[0] == "K":
            if n[1] == "":
                continue
            if out and out[-1][0] == "K":
                out[-1] = ("K", out[-1][1] + n[1])
            else:
                out.append(n)
        else:
            sp = norm(n[3], exprmap) if n[3] is not None else None
            out.append(("V", exprmap(n[1]), n[2], sp or None))
    return out


def from_ast(j):
    out = []
    for v in j.values:
        if isinstance(v, ast.Constant):
            out.append(("K", v.value))
        else:
            out.append(("V", ast.unparse(v.value), None if v.conversion == -1 else v.conversion,
                        from_ast(v.format_spec) if v.format_spec is not None else None))
    return out


def find_joinedstr(tree):
    for n in ast.walk(tree):
        if isinstance(n, ast.JoinedStr):
            return n
    return None


MALFORMED = [
    ('f"{}"', "empty field"), ('f"{ }"', "empty field"), ('f"a{x y}b"', "trailing junk"), ('f"{x !r y}"', "trailing junk"),
    ('f"{x !z}"', "bad conversion"), ('f"{x !R}"', "bad conversion"), ('f"{x !}}"', "bad conversion"), ('f"{x !rr}"', "trailing junk"),
    ('f"{x ! r}"', "bad conversion"), ('f"a}b"', "single brace"), ('f"}"', "single brace"), ('f"{x :>{}}"', "empty field"),
    ('f"{x :>{w !q}}"', "bad conversion"), ('f"{x', "unclosed"), ('f"{x !r', "unclosed"), ('f"{x :>5', "unclosed"),
    ('f"{x :>{w}', "unclosed"), ('f"{x = !', "unclosed"), ('f"{x = y}"', "trailing junk"), ('f"{x :a}b}"', "single brace"),
]


def run(chk):
    chk.trusted = TRUSTED
    chk.assumptions = [
        "the equivalent Python f-string has the same literal text, and in each field the Python expression equivalent to the "
        "Hy form; the debugging = is judged only where the two expression texts coincide (it shows the source text)",
        "Hy separates the form from = ! : by whitespace (x!r is one symbol); the Python rendering omits that whitespace "
        "where Python rejects it (after a conversion)",
        "format-spec literal text is drawn from characters that need no escaping in either language",
        "malformed = rejected as Hy syntax: an empty field, text after the form other than = ! : }, a conversion that is not "
        "one character of s r a, a single closing brace, a field that is not closed",
    ]
    chk.prove("Props/C24.v", ["Props/C24.vo", "Print/SerF.vo", "Print/GenChecks.vo"], [print_tables.translate])
    thorough = chk.tier == "thorough"
    hy = pc.hy_mod()
    import hy.errors
    import hy.reader.exceptions
    from hy.compiler import hy_compile
    n = 5000 if thorough else 450
    chk.rule = ("f-string trees: 0-4 parts, literal runs over plain characters (incl. non-ASCII, quotes, newlines), simple / hex / "
                "named escapes and doubled braces; fields over 28 expressions (incl. nested f-strings with fields of their own, and forms compiling to statements that consume an iterator, in a value and in its spec) with random whitespace, debugging =, conversions "
                "s r a, format specs with plain text and nested fields to depth 3; + a fixed list of malformed texts; "
                "non-trivial = distinct Hy text with at least one field")
    rng = chk.rng
    cases = [gen_fs(rng, rng.choice([0, 1, 2, 3])) for _ in range(n)]
    chunks, index, maps = [], [], []
    for ch in pc.chunked(list(range(n)), 40):
        nd, texts, exprs = pc.Needs(), [], []
        for i in ch:
            models = {}
            exprs.append("c24_case W [%s]" % "; ".join(coq_parts(cases[i], nd, models)))
            texts.append('f"' + render(cases[i], False) + '"')
            maps.append(models)
        chunks.append((pc.oracle_term(nd, texts), exprs))
        index.append(ch)
    imports_extra = ["HyV.Print.FStringFacts", "HyV.Print.FString", "HyV.Print.FStringRead", "HyV.Print.FStringAst",
                     "HyV.Print.FStringTheorems", "HyV.Print.SerF"]
    saved = list(pc.IMPORTS)
    pc.IMPORTS[:] = saved + imports_extra
    try:
        t0 = time.time()
        outs = pc.run_chunks(chunks, "c24")
        mal_nd = pc.Needs()
        mal = pc.run_chunks([(pc.oracle_term(mal_nd, [t for t, _ in MALFORMED]),
                              ["c24_text_case W %s" % pc.ctext(t) for t, _ in MALFORMED])], "c24m")[0]
        chk.extra["model_eval_s"] = round(time.time() - t0, 1)
    finally:
        pc.IMPORTS[:] = saved
    for ch, res in zip(index, outs):
        for i, (mtext, mread, mcomp, mpy) in zip(ch, res):
            fs = cases[i]
            hy_text = 'f"' + render(fs, False) + '"'
            py_text = 'f"""' + render(fs, True) + '"""'
            depth = max_depth(fs)
            chk.count("depth:%d" % depth)
            chk.count("parts:%d" % len(fs))
            chk.case(hy_text, nontrivial=depth > 0, sample={"hy": hy_text[:100], "python": py_text[:100]} if i % 61 == 2 else None)
            exprmap = lambda e, mp=maps[i]: mp.get(e, "?" + e)
            compmap = lambda e, mp=maps[i]: mp.get("compiled:" + e, mp.get(e, "?" + e))
            # (1) the Coq rendering is the harness rendering
            if mtext != hy_text:
                chk.disagree("FString.hy_fstring_text vs the harness rendering", hy_text[:300], mtext[:300], hy_text[:300])
                continue
            # (2) reader model vs hy.read
            try:
                m = hy.read(hy_text)
                iread = "O" + pc.ser_model(m) + "|0"
            except Exception as e:
                m, iread = None, pc.exc_class(e)
            if mread != iread:
                chk.disagree("Reader.read_one vs hy.read on the f-string", hy_text[:300], mread[:300], iread[:300])
            # (3) compile model vs hy_compile
            if m is not None:
                try:
                    tree = hy_compile(m, "__main__", import_stdlib=False)
                    icomp = norm(from_ast(find_joinedstr(tree)), lambda e: e)
                except Exception as e:
                    icomp = "ERR " + type(e).__name__
                try:
                    mc = norm(parse_jnodes(mcomp), compmap) if mcomp != "?" else "ERR"
                except Exception as e:
                    mc = "UNPARSED " + mcomp[:80]
                if mc != icomp:
                    chk.disagree("FStringAst.compile_fstring vs hy_compile (JoinedStr, normalised)", hy_text[:300],
                                 repr(mc)[:300], repr(icomp)[:300])
            # (4) Python's rules vs CPython's parser
            try:
                ptree = norm(from_ast(find_joinedstr(ast.parse(py_text, mode="eval"))), lambda e: e)
            except (SyntaxError, ValueError) as e:     # ValueError: a CPython 3.12 parser defect on some f-strings
                ptree = "SyntaxError"
                chk.count("python-rejects:" + type(e).__name__ + ":" + str(e)[:40])
            if ptree != "SyntaxError":
                rules = norm(parse_jnodes(mpy), exprmap)
                if rules != ptree:
                    chk.disagree("FStringAst.py_ast (Python's rules) vs ast.parse of the Python rendering", py_text[:300],
                                 repr(rules)[:300], repr(ptree)[:300])
            # ---- the property: both renderings evaluate to the same string
            try:
                code = compile(py_text, "<python rendering>", "eval")
            except (SyntaxError, ValueError):
                continue
            try:
                expected = eval(code, env())
            except SyntaxError:
                continue           # e.g. specs nested deeper than CPython's parser accepts: judged by (3) and (4) only
            except Exception as e:
                expected = "RAISES " + type(e).__name__
            try:
                got = hy.eval(hy.read(hy_text), env())
            except Exception as e:
                got = "RAISES " + type(e).__name__
            if got != expected:
                chk.fail("evaluates-differently", {"hy": hy_text, "python": py_text}, repr(got)[:300], repr(expected)[:300],
                         "hy.eval(hy.read(hy), env) vs eval(python, env), env = %r plus it = iter([5, 3, 9, 4, 11, 6])" % (ENV,))
    # ---- malformed fields and conversions are Hy syntax errors
    for (text, kind), (mread, mcomp) in zip(MALFORMED, mal):
        chk.count("malformed:" + kind)
        chk.case("M" + text, nontrivial=True)
        try:
            hy.eval(hy.read(text), dict(ENV))
            outcome = "accepted"
        except hy.errors.HySyntaxError as e:
            outcome = "syntax-error"
            stage = "read" if isinstance(e, hy.reader.exceptions.LexException) else "compile"
        except Exception as e:
            outcome = "other:" + type(e).__name__
        if outcome != "syntax-error":
            chk.fail("malformed-not-syntax-error", {"hy": text, "class": kind}, outcome, "a Hy syntax error", "hy.eval(hy.read(text))")
            continue
        model_stage = "read" if mread in ("LEX", "PRE") else ("compile" if mcomp == "?" else "accepted")
        if model_stage != stage:
            chk.disagree("model vs implementation on a malformed f-string (stage of the error)", text, model_stage, stage)
