"""C41 -- The hy command runs programs the same way from -c, a file, stdin and -m."""
import json
import os
import sys

from lib import vlib
from props import cmd_common as cc
from translator import cmd_tables

META = {
    "technique": "Coq proof over a model of cmdline_handler's option loop and dispatch (table regenerated from "
                 "hy/cmdline.py), for every argument list; model-vs-handler differential run with the real "
                 "cmdline_handler called in-process; end-to-end subprocess runs of `python -m hy` under all four modes",
    "level_text": "Theorems C41_mode_c / _c_attached / _mode_m / _m_attached / _mode_file / _mode_file_after_ddash / "
                  "_mode_stdin (documented sys.argv and dispatch in each mode, behind ANY sequence of recognised "
                  "non-terminating options in any spelling, for ANY trailing argument list), "
                  "C41_options_after_terminator_pass (for every command line the program's sys.argv is a suffix of it) "
                  "and C41_no_internal_lookup_error hold over a model whose option table, error formats and consulted "
                  "keys are regenerated from cmdline.py and whose algorithm is compared with the real "
                  "cmdline_handler on every run.  Equality of output and exit status across modes "
                  "(C41_modes_agree_partial reduces it to agreement of the runners) is decided by running the real "
                  "command on generated programs.",
    "level_note": "Trusted: Coq kernel; translator/cmd_tables.py; the hand-written model Cmd/CmdlineModel.v (tie = "
                  "differential execution against the real handler with its callees replaced by recorders); runpy / "
                  "run_path / hy_eval / the import system are not modelled -- their agreement is what the subprocess "
                  "oracle tests.",
}

TRUSTED = [
    "Coq 8.16.1 kernel (coqc, full .vo); vm_compute for the obligations on the regenerated option table",
    "axioms: none (Print Assumptions: Closed under the global context for every C41 theorem)",
    "translator/cmd_tables.py (option table `defs`, error formats, consulted option keys of cmdline_handler, "
    "regenerated on every run; fail-closed on any other shape)",
    "hand-written model Cmd/CmdlineModel.v of proc_opt / the option loop / the dispatch, tied by differential "
    "execution: the real hy.cmdline.cmdline_handler is called in a fresh interpreter with run_command, runpy, runhy, "
    "REPL, Path, set_path, io and sys.stdin replaced by recorders (props/cmd_common.py)",
    "not modelled: what run_command / runpy.run_module / runhy.run_path / the REPL do once reached -- exercised by the "
    "subprocess oracle only",
]

FLAG_EFFECT = {"B": "B", "E": "E", "i": "i", "u": "u"}
LONG_FLAGS = {"--spy": "spy", "--unbuffered": "u"}
ARG_POOL = ["a", "b c", "", "-", "--", "-c", "-m", "-h", "--help", "-v", "--version", "-i", "-B", "-E", "-u", "--spy",
            "--repl-output-fn", "--repl-output-fn=repr", "-x", "--nope", "=", "-c=1", "-cfoo", "x=y", "1", "-1",
            "é☃", "a\tb", "'q'", "\"dq\"", "$HOME", "*", "-Bi", "---", "f.hy", "-mfoo"]
FILES = ["prog.hy", "./prog.hy", "x", "dir/p.hy", "p q.hy", "é.hy", "=", "a=b", "1", "", "prog.py", "+x"]
CODES = ["(print 1)", "1", "", "(import sys) (print sys.argv)", "-x", "=", "a b", "é", "=x", "--"]
MODS = ["mod", "a.b", "my-mod", "m", "=", "-m", "é"]


def gen_args(rng):
    return [rng.choice(ARG_POOL) for _ in range(rng.choice([0, 0, 1, 1, 2, 2, 3, 4]))]


def gen_prefix(rng, allow=("B", "E", "i", "u", "spy", "fn")):
    """recognised non-terminating options in random spellings -> (tokens, state)"""
    st = {"B": False, "E": False, "i": False, "u": False, "spy": False, "fn": None}
    toks = []
    letters = [l for l in "BEiu" if l in allow]
    for _ in range(rng.choice([0, 0, 1, 1, 2, 3, 4, 6])):
        r = rng.random()
        if r < 0.45 and letters:
            ls = [rng.choice(letters) for _ in range(rng.choice([1, 1, 2, 3, 4]))]
            toks.append("-" + "".join(ls))
            for l in ls:
                st[l] = True
        elif r < 0.7:
            cands = [n for n, k in LONG_FLAGS.items() if k in allow]
            if not cands:
                continue
            name = rng.choice(cands)
            junk = rng.choice(["", "", "=", "=1", "=false", "==", "=a=b"])
            toks.append(name + junk)
            st[LONG_FLAGS[name]] = True
        elif "fn" in allow:
            val = rng.choice(["repr", "str", "hy.repr", "-c", "--", "-", "x=y", "=", "--spy", "é"])
            form = rng.choice(["sep", "sep", "eq", "eqsep"])
            if form == "sep":
                toks += ["--repl-output-fn", val]
            elif form == "eqsep":
                toks += ["--repl-output-fn=", val]
            else:
                toks.append("--repl-output-fn=" + val)
            st["fn"] = val
    return toks, st


def structured_case(rng):
    """a command line of one of the shapes the property talks about, with the
    outcome the documentation prescribes (computed from the construction, not
    from the model)"""
    pre, st = gen_prefix(rng)
    args = gen_args(rng)
    program = rng.choice(["hy", "/usr/bin/hy", "hy3", "-c", "./hy"])
    mode = rng.choice(["c", "c", "m", "m", "file", "file", "stdin", "ddfile", "ddstdin"])
    bundle = ""
    if mode in ("c", "m") and rng.random() < 0.4:
        bundle = "".join(rng.choice("BEiu") for _ in range(rng.choice([1, 2, 3])))
        for l in bundle:
            st[l] = True
    flags = (st["E"], st["B"], st["u"])
    repl = (st["spy"], st["fn"]) if st["i"] else None
    if mode == "c":
        code = rng.choice(CODES)
        form = rng.choice(["sep", "sep", "att", "eq"]) if code else "sep"
        if form == "sep":
            mid = ["-" + bundle + "c", code]
        elif form == "eq":
            mid = ["-" + bundle + "c=" + code]
        else:
            mid = ["-" + bundle + "c" + code]
            if code.startswith("="):
                code = code[1:]
        exp = ("run", flags, ("eval", code), tuple(["-c"] + args), repl)
    elif mode == "m":
        mod = rng.choice(MODS)
        form = rng.choice(["sep", "sep", "att", "eq"])
        if form == "sep":
            mid = ["-" + bundle + "m", mod]
        elif form == "eq":
            mid = ["-" + bundle + "m=" + mod]
        else:
            mid = ["-" + bundle + "m" + mod]
            if mod.startswith("="):
                mod = mod[1:]
        exp = ("module+repl", flags) if st["i"] else ("run", flags, ("module", mod), tuple([program] + args), None)
    elif mode == "file":
        f = rng.choice(FILES)
        mid = [f]
        exp = ("run", flags, ("file", f), tuple([f] + args), repl)
    elif mode == "ddfile":
        f = rng.choice(FILES + ["-c", "--", "-x", "--help"])
        mid = ["--", f]
        exp = ("run", flags, ("file", f), tuple([f] + args), repl)
    elif mode == "stdin":
        mid = ["-"]
        exp = ("run", flags, ("stdin",), tuple(["-"] + args), repl)
    else:
        mid = ["--", "-"]
        exp = ("run", flags, ("stdin",), tuple(["-"] + args), repl)
    return {"argv": [program] + pre + mid + args, "isatty": rng.random() < 0.5, "shape": mode}, exp


TOKENS = ["-B", "-E", "-i", "-u", "-h", "-v", "-c", "-m", "--spy", "--help", "--version", "--unbuffered",
          "--repl-output-fn", "--", "-", "", "f.hy", "x", "-x", "--foo", "-Bc", "-cB", "-iE", "-c=", "-m=", "=",
          "--spy=1", "--help=", "--repl-output-fn=", "--repl-output-fn=r", "---", "--=x", "-=", "-B-", "-hc", "-vm",
          "--sp", "--SPY", "-C", "-é", "--spy ", " -B", "-Bx", "-uuu", "-imfoo", "code"]


def random_case(rng):
    n = rng.choice([0, 1, 1, 2, 2, 3, 3, 4, 5, 6])
    toks = []
    for _ in range(n):
        r = rng.random()
        if r < 0.8:
            toks.append(rng.choice(TOKENS))
        elif r < 0.9:
            toks.append("-" + "".join(rng.choice("BEiuhvcmx=-") for _ in range(rng.choice([1, 2, 3, 4]))))
        else:
            toks.append("".join(rng.choice("-=abc é") for _ in range(rng.choice([0, 1, 2, 3, 5]))))
    return {"argv": [rng.choice(["hy", "prog"])] + toks, "isatty": rng.random() < 0.5, "shape": "random"}


def exhaustive_cases(maxlen):
    import itertools
    toks = ["-B", "-i", "-h", "-c", "-m", "--spy", "--repl-output-fn", "--", "-", "f", "-x", "-Bc", "-cB", "--help=",
            "--repl-output-fn=", "--repl-output-fn=r", ""]
    for n in range(maxlen + 1):
        for combo in itertools.product(toks, repeat=n):
            for tty in (False, True):
                yield {"argv": ["hy"] + list(combo), "isatty": tty, "shape": "exhaustive"}


# ------------------------------------------------------------------ end-to-end programs

BODY = [
    '(print (+ 1 2))',
    '(setv x 5) (print (* x x))',
    '(defn f [a] (+ a 1)) (print (f 41))',
    '(for [i (range 3)] (print "i" i))',
    '(print "é☃")',
    '(print (len sys.argv))',
    '(print __name__)',
    '(defmacro twice [x] `(do ~x ~x)) (twice (print "tw"))',
    '(print "E: to-stderr" :file sys.stderr)',
    '(print (.join "," (gfor a (cut sys.argv 1 None) (.upper a))))',
    '(print (lfor x (range 4) :if (% x 2) x))',
    '(print (if (cut sys.argv 1 None) "has-args" "no-args"))',
    '(setv d {"k" 1}) (print (get d "k"))',
    '(print #[[bracket "str"]])',
    "(print 'sym)",
    # reading depends on compiling: a reader macro defined by one top-level form and used by a later one
    '(defreader up (.upper (.parse-one-form &reader)))\n(print #up "abc")',
    '(defreader twice (setv f (.parse-one-form &reader)) `(do ~f ~f))\n#twice (print "rm")',
]
ENDING = [
    ("none", ""), ("none", ""), ("none", ""),
    ("exit3", "(sys.exit 3)"), ("exit0", "(sys.exit 0)"), ("exitmsg", '(sys.exit "bye")'),
    ("raise", '(raise (ValueError "boom"))'), ("zerodiv", "(/ 1 0)"), ("nameerr", "(print undefined-thing)"),
    ("compile-error", "(fn)"), ("read-error", "(print 1"), ("exit-argc", "(sys.exit (len sys.argv))"),
    ("assert", "(assert (= 1 2))"),
    # uncaught OSErrors raised by the program itself
    ("oserror", '(raise (OSError "boom"))'), ("oserror-errno", '(raise (OSError 5 "io"))'),
    ("isadirectory", '(open "/")'), ("timeout", '(raise (TimeoutError "t"))'),
    ("filenotfound", '(open "/nonexistent-dir-hyverif/x")'),
    # the program installs its own sys.excepthook and then dies: its report must appear in every mode
    ("own-excepthook", '(setv sys.excepthook (fn [t v tb] (print "E: own-hook" t.__name__ :file sys.stderr) (print "hooked" t.__name__)))\n(print "before")\n(raise (KeyError "boom"))'),
    ("own-excepthook-exit", '(setv sys.excepthook (fn [t v tb] (print "hooked" t.__name__) (sys.exit 7)))\n(/ 1 0)'),
]
FIXED_PROGRAMS = [
    ("own-excepthook", '(setv sys.excepthook (fn [t v tb] (print "E: own-hook" t.__name__ :file sys.stderr) (print "hooked" t.__name__)))\n(print "before")\n(raise (KeyError "boom"))'),
    ("none", '(defreader up (.upper (.parse-one-form &reader)))\n(print #up "abc")'),
    ("oserror", '(raise (OSError "boom"))'), ("isadirectory", '(open "/")'),
    ("filenotfound", '(open "/nonexistent-dir-hyverif/x")'),
]
HEAD = ["(import sys)", '(print "ARGV0" (get sys.argv 0))', '(print "ARGV" (hy.repr (cut sys.argv 1 None)))']


def gen_program(rng):
    forms = ["(import sys)", '(print "ARGV0" (get sys.argv 0))', '(print "ARGV" (hy.repr (cut sys.argv 1 None)))']
    forms += [rng.choice(BODY) for _ in range(rng.choice([0, 1, 2, 3]))]
    kind, end = rng.choice(ENDING)
    if end:
        forms.append(end)
    sep = rng.choice([" ", "\n", "\n\n"])
    return kind, sep.join(forms) + rng.choice(["", "\n"])


E2E_ARGS = [a for a in ARG_POOL if "\t" not in a]

def e2e_case(rng, idx, fixed=None):
    kind, code = gen_program(rng)
    if fixed is not None:
        kind, code = fixed[0], "\n".join(HEAD + [fixed[1]]) + "\n"
    pre, st = gen_prefix(rng, allow=("B", "E", "u", "spy", "fn"))
    args = [rng.choice(E2E_ARGS) for _ in range(rng.choice([0, 1, 1, 2, 3, 4]))]
    dashed = rng.random() < 0.3
    base = ("my_prog%d" if dashed else "p%d") % idx
    return {"idx": idx, "kind": kind, "code": code, "pre": pre, "args": args, "base": base,
            "modname": base.replace("_", "-") if dashed else base,
            "filearg": rng.choice(["{b}.hy", "./{b}.hy", "{d}/{b}.hy"])}


def e2e_jobs(case, root, env):
    """the four command lines of one case -> (jobs, documented argv[0] per mode)"""
    d = os.path.join(root, "c%d" % case["idx"])
    os.makedirs(d, exist_ok=True)
    with open(os.path.join(d, case["base"] + ".hy"), "w", encoding="utf-8") as f:
        f.write(case["code"])
    rd = os.path.realpath(d)
    filearg = case["filearg"].format(b=case["base"], d=rd)
    hy = [vlib.PY, "-m", "hy"]
    cmds = {
        "c": (hy + case["pre"] + ["-c", case["code"]] + case["args"], ""),
        "file": (hy + case["pre"] + [filearg] + case["args"], ""),
        "stdin": (hy + case["pre"] + ["-"] + case["args"], case["code"]),
        "m": (hy + case["pre"] + ["-m", case["modname"]] + case["args"], ""),
    }
    # sys.argv docs: argv[0] is the script name, "operating system dependent whether this is a full pathname or not"
    want0 = {"c": ["-c"], "file": [filearg, os.path.join(rd, os.path.normpath(filearg))], "stdin": ["-"],
             "m": [os.path.join(rd, case["base"] + ".hy")]}
    jobs = [(mode, dict(argv=argv, cwd=d, stdin=stdin, env=env)) for mode, (argv, stdin) in cmds.items()]
    return jobs, want0


def run_e2e(cases, root):
    prefix = cc.warm_cache(root)
    env = cc.sub_env(pycache_prefix=prefix)
    alljobs, wants = [], []
    for c in cases:
        jobs, want0 = e2e_jobs(c, root, env)
        wants.append(want0)
        alljobs += [(c["idx"], mode, kw) for mode, kw in jobs]
    outs = cc.run_many([kw for _, _, kw in alljobs])
    res = [dict() for _ in cases]
    for (idx, mode, kw), o in zip(alljobs, outs):
        o["cmd"] = kw["argv"]
        res[idx][mode] = o
    return list(zip(res, wants))


def digest(r):
    """what is compared across modes"""
    lines = r["out"].splitlines()
    argv0 = [l[len("ARGV0 "):] for l in lines if l.startswith("ARGV0 ")]
    rest = [l for l in lines if not l.startswith("ARGV0 ")]
    own_err = [l for l in r["err"].splitlines() if l.startswith("E: ")]
    return {"rc": r["rc"], "stdout": rest, "argv0": argv0, "stderr_own": own_err, "stderr_class": cc.err_class(r["err"])}


def corpus_cases():
    """minimised past failures (corpus/C41/*.json), run first"""
    d = os.path.join(vlib.VERIF, "corpus", "C41")
    out = []
    for f in sorted(os.listdir(d)) if os.path.isdir(d) else []:
        if f.endswith(".json"):
            c = json.load(open(os.path.join(d, f)))
            out.append({"kind": c.get("kind", "none"), "code": c["code"], "pre": c.get("pre", []),
                        "args": c.get("args", []), "base": c.get("base", "p"), "modname": c.get("modname", "p"),
                        "filearg": c.get("filearg", "{b}.hy"), "corpus": f})
    return out


def m_filenotfound(rec, params):
    """exactly: file mode only, the program itself dies with an uncaught FileNotFoundError, and hy reports it as if
    the script could not be opened (exit status = errno 2, no traceback)"""
    o = rec["observed"]
    return (rec["key"] in ("mode-differs:file:rc", "mode-differs:file:stderr_class")
            and rec["input"].get("program_kind") == "filenotfound" and o.get("mode") == "file"
            and o["file"]["rc"] == 2 and o["c"]["rc"] == 1 and o["c"]["stderr_class"] == "FileNotFoundError"
            and o["file"]["stdout"] == o["c"]["stdout"]
            and cc.last_line(o.get("stderr_tail", "")).startswith("hy: Can't open file '/nonexistent-dir-hyverif/x'"))


def e2e_oracle(chk, n_cases):
    chk.matchers["c41_file_mode_program_filenotfound"] = m_filenotfound
    cc.sweep_stale("c41")
    root = cc.mktmp("c41")
    try:
        cases = corpus_cases()
        cases += [e2e_case(chk.rng, i, fixed=f) for i, f in enumerate(FIXED_PROGRAMS)]
        cases += [e2e_case(chk.rng, i) for i in range(n_cases)]
        for i, c in enumerate(cases):
            c["idx"] = i
        results = run_e2e(cases, root)
    finally:
        cc.rmtmp(root)
    nproc = 0
    for case, (res, want0) in zip(cases, results):
        nproc += len(res)
        inp = {"code": case["code"], "program_kind": case["kind"], "pre": case["pre"], "args": case["args"],
               "module": case["modname"],
               "file": case["filearg"].format(b=case["base"], d="<dir>")}
        how = "cd <dir with %s.hy holding the code>; PYTHONPATH=%s %s -m hy %s {-c CODE | FILE | - <CODE | -m %s} %s" % (
            case["base"], vlib.REPO, vlib.PY, " ".join(case["pre"]), case["modname"], " ".join(map(repr, case["args"])))
        dg = {m: digest(r) for m, r in res.items()}
        chk.count("program:" + case["kind"])
        chk.count("args:%d" % len(case["args"]))
        chk.count("prefix-options:%d" % len(case["pre"]))
        if any(a.startswith("-") for a in case["args"]):
            chk.count("args:option-like")
        chk.case(("e2e", case["code"], tuple(case["pre"]), tuple(case["args"])),
                 nontrivial=bool(case["args"]) or case["kind"] != "none",
                 sample={"cmdline_tail": case["pre"] + ["<mode>"] + case["args"], "program": case["code"][:120],
                         "rc": dg["c"]["rc"], "stdout": dg["c"]["stdout"][:4]} if case["idx"] % 7 == 0 else None)
        modes = ["c", "stdin", "m", "file"]
        if case.get("corpus"):
            chk.count("corpus")
        ref = dg["c"]
        if ref["rc"] == "timeout":
            chk.fail("timeout", inp, ref, "termination", how)
            continue
        # the program must have run (or failed to compile) the same way everywhere
        for m in modes[1:]:
            for field in ("rc", "stdout", "stderr_own", "stderr_class"):
                if dg[m][field] != ref[field]:
                    chk.fail("mode-differs:%s:%s" % (m, field), inp, {"mode": m, m: dg[m], "c": ref,
                                                                       "stderr_tail": res[m]["err"][-600:]},
                             "same %s as under -c" % field, how)
                    break
        # the documented sys.argv
        expect_tail = "ARGV " + hy_repr_list(case["args"])
        for m in modes:
            ran = any(l.startswith("ARGV ") for l in dg[m]["stdout"])
            if case["kind"] not in ("compile-error", "read-error") and not ran:
                chk.fail("program-did-not-start:%s" % m, inp, {"mode": m, m: dg[m], "stderr_tail": res[m]["err"][-600:]},
                         "the program prints its sys.argv", how)
                continue
            if ran:
                got = [l for l in dg[m]["stdout"] if l.startswith("ARGV ")][0]
                if got != expect_tail:
                    chk.fail("argv-tail:%s" % m, inp, {"mode": m, "printed": got}, expect_tail, how)
                if len(dg[m]["argv0"]) != 1 or dg[m]["argv0"][0] not in want0[m]:
                    chk.fail("argv0:%s" % m, inp, {"mode": m, "printed": dg[m]["argv0"]}, want0[m], how)
    chk.extra["e2e_subprocesses"] = nproc
    return nproc


def hy_repr_list(args):
    """hy.repr of a list of str, computed here (ASCII-safe subset + the escapes hy.repr uses)"""
    hy = vlib.use_repo_in_process()
    return hy.repr(list(args))


def run(chk):
    chk.trusted = TRUSTED
    chk.assumptions = [
        "`the sys.argv the docs specify`: docs/cli.rst defers to Python's command line: argv[0] is '-c', the script "
        "name as given, '-', or the full path of the module; argv[1:] are the arguments behind the mode selector",
        "output = stdout lines + the program's own stderr lines; for failing programs the exception class on the last "
        "stderr line (traceback text necessarily names different files per mode); status = process exit status",
        "prefix options used end-to-end are the non-interactive ones (-B -E -u --spy --repl-output-fn X); -i/-h/-v "
        "are covered at handler level (model correspondence + documented-outcome oracle)",
    ]
    chk.rule = ("handler level: command lines = [recognised non-terminating options in random spellings] + mode "
                "selector (-c/-m separate, attached, '=', bundled; FILE; -; -- FILE) + random trailing arguments "
                "(option-like included), plus random token soups (and, thorough, every vector up to length 3 over 17 "
                "tokens); end to end: generated Hy programs (prints, macros, stderr, exits, exceptions, compile and "
                "read errors) x 4 modes x random trailing arguments; non-trivial = has trailing arguments or a "
                "non-plain ending / is not a bare mode selector")
    chk.prove("Props/C41.v", ["Props/C41.vo"], [cmd_tables.translate])
    thorough = chk.tier == "thorough"

    # ---- handler level: model correspondence + documented outcome
    rng = chk.rng
    structured = [structured_case(rng) for _ in range(6000 if thorough else 1000)]
    cases = [c for c, _ in structured] + [random_case(rng) for _ in range(8000 if thorough else 1000)]
    if thorough:
        cases += list(exhaustive_cases(3))
    expected = [e for _, e in structured]
    impl = cc.observe_handler(cases)
    model = cc.model_handler(cases)
    for k, (c, rec, m) in enumerate(zip(cases, impl, model)):
        ci = cc.canon_impl(rec, c["argv"])
        chk.count("handler:" + c["shape"])
        chk.count("handler-outcome:" + ci[0])
        chk.case(("h", tuple(c["argv"]), c["isatty"]), nontrivial=len(c["argv"]) > 2,
                 sample={"argv": c["argv"], "isatty": c["isatty"], "outcome": repr(ci)[:200]} if k % 997 == 3 else None)
        if not cc.same_outcome(m, ci):
            chk.disagree("Cmd.CmdlineModel.handler vs hy.cmdline.cmdline_handler", c, repr(m), repr(ci))
        if k < len(expected) and not cc.same_outcome(expected[k], ci):
            chk.fail("documented-outcome:" + c["shape"], {"argv": c["argv"], "isatty": c["isatty"]}, repr(ci),
                     repr(expected[k]),
                     "call hy.cmdline.cmdline_handler(argv) with run_command/runpy/runhy/REPL replaced by recorders "
                     "(props/cmd_common.py:HANDLER_WORKER)")
        # for every command line: sys.argv seen by the program is a suffix of the command line
        if ci[0] == "run" and ci[2] not in (("repl",), ("repl-or-stdin",)):
            sa = list(ci[3])
            body = sa[1:] if ci[2][0] in ("eval", "module") else sa
            tail = c["argv"][1:]
            if body != tail[len(tail) - len(body):] and body != []:
                chk.fail("sysargv-not-a-suffix", {"argv": c["argv"]}, repr(ci), "a suffix of the command line", "as above")

    # ---- end to end
    e2e_oracle(chk, 240 if thorough else 36)


def replay(path):
    rec = json.load(open(path))
    inp = rec.get("input", {})
    print(json.dumps(rec, indent=1)[:4000])
    if "code" in inp:
        import random
        root = cc.mktmp("c41")
        try:
            case = {"idx": 0, "kind": "?", "code": inp["code"], "pre": inp["pre"], "args": inp["args"], "base": "p0",
                    "modname": "p0", "filearg": "{b}.hy"}
            (res, _), = run_e2e([case], root)
            for m, r in res.items():
                print("==", m, r["rc"], repr(r["out"][:300]), cc.last_line(r["err"]))
        finally:
            cc.rmtmp(root)
    return 0
