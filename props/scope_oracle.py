"""Shared by C06 / C07: the trace correspondence run (Gallina scope machine vs hy/scoping.py) and
the property oracle (compiled program vs lexical reference interpreter), with counterfactual
attribution of failures to the recorded findings."""
import json

from lib import vlib
from props import scope_common as sc
from props import scope_progs as sp
from props import scope_trace as tr
from translator import scope_sets

M_CLASS_NONLOCAL = "class_attribute_counts_as_nonlocal_binding"
M_CLASS_HIDES = "class_attribute_hides_outer_binding"
M_LET_LIST = "let_nonlocal_removal_skips_next_name"
M_GENFN_SETX = "setx_of_let_name_in_generator_function_comprehension"
M_FIRST_ITER = "first_iterable_reads_a_variable_of_the_form"
M_DEFN_DECLARED = "defn_of_a_name_declared_nonlocal_binds_a_fresh_local"


def _m_class_nonlocal(rec, params):
    # an unexpected compile error that disappears exactly when the class attributes get other names
    o = rec.get("observed", {})
    v = o.get("variants", {})
    return (rec.get("key") == "unexpected-compile-error"
            and (v.get("class_attributes_renamed") == "pass"
                 or (v.get("both") == "pass" and v.get("declarations_split") != "pass")))


def _m_class_hides(rec, params):
    o = rec.get("observed", {})
    v = o.get("variants", {})
    return (rec.get("key") in ("log-differs", "exception-differs", "globals-differ")
            and v.get("class_attributes_renamed") == "pass")


def _m_let_list(rec, params):
    o = rec.get("observed", {})
    v = o.get("variants", {})
    # the surviving name reaches the function scope: Python's "no binding for nonlocal", or Hy's
    # "declared nonlocal after being used" when the function has already used that name itself
    return (rec.get("key") == "unexpected-compile-error"
            and (v.get("declarations_split") == "pass"
                 or (v.get("both") == "pass" and v.get("class_attributes_renamed") != "pass")))


def _m_genfn_setx(rec, params):
    o = rec.get("observed", {})
    return (rec.get("key") in ("log-differs", "exception-differs", "globals-differ")
            and bool(o.get("generator_function_assigns_undeclared_let_variable")))


def _m_first_iter(rec, params):
    # the failure disappears exactly when the first iterable is evaluated into a temporary before the form
    o = rec.get("observed", {})
    return (rec.get("key") in ("log-differs", "exception-differs", "globals-differ")
            and o.get("variants", {}).get("first_iterable_hoisted") == "pass")


def _m_defn_declared(rec, params):
    # the failure disappears exactly when every (defn NAME ..) of a name that its function declares nonlocal/global
    # is written (setv NAME (fn ..)) -- the same program for the reference
    o = rec.get("observed", {})
    return (rec.get("key") in ("log-differs", "exception-differs", "globals-differ")
            and o.get("variants", {}).get("declared_defn_as_setv") == "pass")


def declared_defn_as_setv(forms):
    """(defn NAME params body) -> (setv NAME (fn params body)) wherever the function that directly contains the
    defn declares NAME nonlocal or global; None if there is no such defn"""
    changed = [False]

    def declared_in(body):
        return {x for f in sp.direct_forms(body) if f[0] in ("nonlocal", "global") for x in f[1]}

    def w(f, declared):
        if isinstance(f, tuple) and f:
            k = f[0]
            if k == "defn":
                body = [w(b, declared_in(f[3])) for b in f[3]]
                params = [w(p, declared) if isinstance(p, tuple) else p for p in f[2]]
                if f[1] in declared:
                    changed[0] = True
                    return ("setv", f[1], ("fn", params, body))
                return ("defn", f[1], params, body)
            if k == "fn":
                params = [w(p, declared) if isinstance(p, tuple) else p for p in f[1]]
                return ("fn", params, [w(b, declared_in(f[2])) for b in f[2]])
            if k == "class":
                return ("class", f[1], f[2], [w(m, set()) for m in f[3]])
            return tuple(w(a, declared) if isinstance(a, (tuple, list)) else a for a in f)
        if isinstance(f, list):
            return [w(a, declared) if isinstance(a, (tuple, list)) else a for a in f]
        return f
    out = [w(f, set()) for f in forms]
    return out if changed[0] else None


def hoist_first_iterables(forms):
    """(setv r (lfor x (range (min 2 E)) ..)) -> (do (setv tmpit E) (setv r (lfor x (range (min 2 tmpit)) ..)));
    the reference result is the same: the first iterable belongs to the enclosing scope"""
    changed = [False]

    def w(f):
        if isinstance(f, tuple) and f:
            if f[0] == "setv" and isinstance(f[2], tuple) and f[2][0] == "lfor" and f[2][2] and \
                    f[2][2][0][0] == "for" and isinstance(f[2][2][0][2], tuple):
                lf = f[2]
                c0 = lf[2][0]
                changed[0] = True
                new = ("lfor", lf[1], [("for", c0[1], ("rng", ("sym", "tmpit")))] + [w(c) for c in lf[2][1:]], w(lf[3]))
                return ("do", [("setv", "tmpit", c0[2][1]), ("setv", f[1], new)])
            return tuple(w(a) if isinstance(a, (tuple, list)) else a for a in f)
        if isinstance(f, list):
            return [w(a) if isinstance(a, (tuple, list)) else a for a in f]
        return f
    out = [w(f) for f in forms]
    return out if changed[0] else None


def genfn_let_walrus_undeclared(py_src):
    """the symptom: a compiler-made generator function (_hy_anon_*) assigns `_hy_let_<x>_<n>` with := although it
    declares only the un-renamed <x> nonlocal/global -- returns the list of such (function, variable)"""
    import ast
    import re
    out = []
    try:
        tree = ast.parse(py_src)
    except SyntaxError:
        return out
    for fn in ast.walk(tree):
        if not (isinstance(fn, ast.FunctionDef) and fn.name.startswith("_hy_anon")):
            continue
        declared = set()
        for st in fn.body:
            if isinstance(st, (ast.Nonlocal, ast.Global)):
                declared.update(st.names)
        for n in ast.walk(fn):
            if isinstance(n, ast.NamedExpr) and isinstance(n.target, ast.Name):
                m = re.match(r"_hy_let_(.+)_\d+$", n.target.id)
                if m and n.target.id not in declared and m.group(1) in declared:
                    out.append([fn.name, n.target.id])
    return out


def register_matchers(chk, pid):
    p = pid.lower() + "_"
    chk.matchers[p + M_CLASS_NONLOCAL] = _m_class_nonlocal
    chk.matchers[p + M_CLASS_HIDES] = _m_class_hides
    chk.matchers[p + M_LET_LIST] = _m_let_list
    chk.matchers[p + M_GENFN_SETX] = _m_genfn_setx
    chk.matchers[p + M_FIRST_ITER] = _m_first_iter
    chk.matchers[p + M_DEFN_DECLARED] = _m_defn_declared


# ------------------------------------------------------------------ correspondence (T3)

def correspondence(chk, labelled, limit):
    """labelled: [(label, forms)].  Compile each with the scope classes instrumented, run the Gallina
    machine on the recorded events, compare."""
    hy = vlib.use_repo_in_process()
    todo = labelled[:limit]
    results = []
    with tr.recording(hy) as (start, stop):
        for i, (lab, forms) in enumerate(todo):
            src = sp.render_program(forms) if not isinstance(forms, str) else forms
            t, obs = tr.compile_traced(hy, start, stop, src, i)
            results.append((lab, src, t, obs))
    try:
        order = scope_sets.outervar_order(vlib.REPO)
    except Exception:
        order = "OList"
    exprs = [tr.model_expr(t.events) for _, _, t, _ in results]
    try:
        outs = vlib.coq_eval(tr.MODEL_IMPORTS, tr.MODEL_DEFS, exprs, tag="sctr%s" % chk.pid.lower(), shard=60)
    except Exception as e:
        chk.obligation("Gallina scope machine evaluates on the recorded traces", False, str(e)[-1500:])
        return
    n_ev = 0
    unmodelled = 0
    for (lab, src, t, obs), o in zip(results, outs):
        n_ev += len(t.events)
        chk.count("trace:events<=20" if len(t.events) <= 20 else "trace:events<=60" if len(t.events) <= 60 else "trace:events>60")
        if obs["unmodelled"]:
            unmodelled += 1
            chk.count("trace:unmodelled-call")
            continue
        try:
            m = tr.decode_model(tr.parse_model(o))
        except Exception as e:
            chk.disagree("Scope.Machine vs hy.scoping (unparsable model output)", src, o[:300], str(e))
            continue
        d = tr.compare(m, obs, order == "OSorted")
        if d:
            chk.disagree("Scope.Machine.run + resolve_outervars vs hy.scoping on the recorded scope events",
                         {"label": lab, "program": src, "events": [list(map(str, e)) for e in t.events][:80]},
                         d[:4], {"final_names": obs["final_names"][:40], "error": obs["error"], "fin": obs["fin"],
                                 "outer": obs["outer"]})
        if obs["error"]:
            chk.count("trace:ends-in-scope-error")
    chk.extra["trace_correspondence"] = {"programs": len(results), "events": n_ev, "with_unmodelled_calls": unmodelled}
    chk.obligation("trace correspondence ran on %d programs (%d scope events)" % (len(results), n_ev),
                   len(results) > 0 and unmodelled * 5 <= len(results),
                   "too many traces contain calls the machine has no event for: %d" % unmodelled)


# ------------------------------------------------------------------ oracle

def classify(ref, r):
    """None if the implementation agrees with the reference, else (key, detail)"""
    if ref[0] == "compile-error":
        ce = r.get("compile_err")
        if ce is None:
            return ("compiled-but-must-be-rejected", "expected compile-time rejection: %s of %s" % (ref[1], ref[2]))
        if ref[1] == "decl-after-use":
            if ce.startswith("HySyntaxError") and "after being used" in ce:
                return None
            return ("wrong-error", ce)
        if "SyntaxError" in ce.split(":")[0]:
            return None
        return ("wrong-error", ce)
    exp = ref[1]
    if "compile_err" in r:
        return ("unexpected-compile-error", r["compile_err"])
    exc = r.get("exc")
    ek = None if exc is None else ("unbound" if exc.split(":")[0] in ("NameError", "UnboundLocalError") else exc)
    if r["log"] != exp["log"]:
        return ("log-differs", None)
    if ek != exp["exc"]:
        return ("exception-differs", "%r vs expected %r" % (exc, exp["exc"]))
    if exc is None and r["globals"] != exp["globals"]:
        return ("globals-differ", None)
    return None


def rename_class_attrs(forms):
    def w(f):
        if isinstance(f, tuple) and f and f[0] == "class":
            return ("class", f[1], [("attr_" + a, n) for a, n in f[2]], [w(m) for m in f[3]])
        if isinstance(f, tuple):
            return tuple(w(a) for a in f)
        if isinstance(f, list):
            return [w(a) for a in f]
        return f
    return [w(f) for f in forms]


def split_declarations(forms):
    def wl(fs):
        out = []
        for f in fs:
            if isinstance(f, tuple) and f and f[0] in ("nonlocal", "global") and len(f[1]) > 1:
                out += [(f[0], [x]) for x in f[1]]
            else:
                out.append(w(f))
        return out

    def w(f):
        if isinstance(f, tuple) and f:
            k = f[0]
            if k == "let":
                return ("let", [(x, w(e)) for x, e in f[1]], wl(f[2]))
            if k == "fn":
                return ("fn", f[1], wl(f[2]))
            if k == "defn":
                return ("defn", f[1], f[2], wl(f[3]))
            if k == "class":
                return ("class", f[1], f[2], [w(m) for m in f[3]])
            if k == "do":
                return ("do", wl(f[1]))
            return tuple(w(a) if isinstance(a, (tuple, list)) else a for a in f)
        if isinstance(f, list):
            return [w(a) for a in f]
        return f
    return wl(forms)


def oracle(chk, pid, labelled, need):
    progs = [forms for _, forms in labelled]
    refs = [sp.reference(p) for p in progs]
    srcs = [sp.render_program(p) for p in progs]
    idx = [i for i, r in enumerate(refs) if r[0] != "ambiguous"]
    res = sc.run_programs([srcs[i] for i in idx], names=sp.POOL)
    seen = set()
    failing = []
    for i, r in zip(idx, res):
        lab, forms = labelled[i]
        ref = refs[i]
        used = sp.constructs_used(forms)
        depth = sp.nesting_depth(forms)
        chk.count("depth:%d" % min(depth, 6))
        chk.count("expect:" + (ref[0] if ref[0] != "compile-error" else "reject:" + ref[1]))
        for u in sorted(used):
            chk.count("uses:" + u)
        chk.count("level:function" if any(f[0] == "defn" and f[1] == "main" for f in forms) else "level:module")
        nontrivial = bool(used & set(need)) and srcs[i] not in seen
        seen.add(srcs[i])
        chk.case(srcs[i], nontrivial=nontrivial,
                 sample={"label": lab, "program": srcs[i], "expected": ref[1] if ref[0] == "ok" else list(ref)}
                 if (lab.startswith("witness") or lab.startswith("regression") or i % 211 == 7) else None)
        c = classify(ref, r)
        if c is not None and ref[0] == "ok" and sc.tolerate_interpreter_deviation(
                chk, r, sp.POOL, lambda res, ref=ref: classify(ref, res) is None, srcs[i]):
            c = None
        if c is not None:
            failing.append((i, c, r))
    for i, r in enumerate(refs):
        if r[0] == "ambiguous":
            chk.count("filtered:" + r[1])
            chk.count("expect:no-claim(filtered)")
    # counterfactual attribution: does the failure vanish when class attributes get other names /
    # multi-name declarations are split?  (both rewrites keep the reference result)
    variants = []
    for i, c, r in failing:
        forms = labelled[i][1]
        for name, tf in (("class_attributes_renamed", rename_class_attrs), ("declarations_split", split_declarations),
                         ("both", lambda f: split_declarations(rename_class_attrs(f))),
                         ("first_iterable_hoisted", hoist_first_iterables),
                         ("declared_defn_as_setv", declared_defn_as_setv)):
            vf = tf(forms)
            if vf is not None:
                variants.append((i, name, vf))
    vres = {}
    if variants:
        vr = sc.run_programs([sp.render_program(v[2]) for v in variants], names=sp.POOL)
        for (i, name, vf), r in zip(variants, vr):
            ref = sp.reference(vf)
            if ref[0] == "ambiguous" or ref != sp.reference(labelled[i][1]):
                vres.setdefault(i, {})[name] = "reference-changed"
            else:
                ok = classify(ref, r) is None or (ref[0] == "ok" and sc.tolerate_interpreter_deviation(
                    chk, r, sp.POOL, lambda res, ref=ref: classify(ref, res) is None, sp.render_program(vf)))
                vres.setdefault(i, {})[name] = "pass" if ok else "fail"
    for i, c, r in failing:
        lab, forms = labelled[i]
        ref = refs[i]
        obs = {"compile_err": r.get("compile_err"), "exception": r.get("exc"), "log": r.get("log"),
               "globals": r.get("globals"), "python": (r.get("py") or "")[:3000], "detail": c[1],
               "variants": vres.get(i, {}),
               "generator_function_assigns_undeclared_let_variable": genfn_let_walrus_undeclared(r.get("py") or "")}
        exp = ref[1] if ref[0] == "ok" else {"reject": list(ref[1:])}
        chk.fail(c[0], {"label": lab, "program": srcs[i], "forms": forms}, obs, exp,
                 "PYTHONPATH=%s %s %s  # job kind 'run' with this program on stdin as JSON; or: hy -c with "
                 "(defn lg [k v] (print k v) v) prepended" % (vlib.REPO, vlib.PY, sc.WORKER))
    chk.extra["oracle_programs"] = len(idx)


def replay(path):
    rec = json.load(open(path))
    forms = rec["input"].get("forms")
    src = rec["input"]["program"]
    r = sc.run_programs([src], names=sp.POOL)[0]
    print(json.dumps({k: r.get(k) for k in ("compile_err", "exc", "log", "globals")}, indent=1))
    print("expected:", json.dumps(rec.get("expected"))[:2000])
    exp = rec.get("expected") or {}
    if "reject" in exp:
        bad = "compile_err" not in r
    else:
        bad = "compile_err" in r or r.get("log") != exp.get("log")
    print("still failing:", bad)
    return 1 if bad else 0


# ------------------------------------------------------------------ walk model and lexical specification (C06)

def walk_and_lex(chk, labelled, limit):
    """For programs inside the fragment of Scope/Walk.v: (1) the events the Gallina walk produces are the
    events recorded from the real compiler; (2) the machine run on them names every node as the lexical
    resolver Scope/Lexical.v prescribes (where the resolver applies)."""
    hy = vlib.use_repo_in_process()
    items = []
    for lab, forms in labelled:
        if isinstance(forms, str):
            continue
        c = tr.program_to_coq(forms)
        if c is None:
            chk.count("walk:outside-fragment")
            continue
        items.append((lab, forms, c))
        if len(items) >= limit:
            break
    recs = []
    with tr.recording(hy) as (start, stop):
        for i, (lab, forms, c) in enumerate(items):
            recs.append(tr.compile_traced(hy, start, stop, sp.render_program(forms), i))
    exprs = []
    for lab, forms, c in items:
        exprs.append("walk_events %s" % c)
        exprs.append("machine_vs_lex %s" % c)
    try:
        outs = vlib.coq_eval(tr.WALK_IMPORTS, tr.WALK_DEFS, exprs, tag="walk%s" % chk.pid.lower(), shard=80)
    except Exception as e:
        chk.obligation("Gallina walk / lexical resolver evaluate on the generated programs", False, str(e)[-1500:])
        return
    n_lex = n_walk = 0
    for i, ((lab, forms, c), (t, obs)) in enumerate(zip(items, recs)):
        src = sp.render_program(forms)
        w = tr.decode_walk(tr.parse_model(outs[2 * i]))
        rec = tr.canon_recorded(t.events)
        if obs["error"] or "compile_err" in obs:
            # compilation stopped at a scope error: the recorded trace ends there (plus unwinding exits)
            cut = t.error_at if t.error_at is not None else len(rec)
            ok = w[:cut] == rec[:cut]
            chk.count("walk:trace-ends-in-error")
        else:
            ok = w == rec
        n_walk += 1
        if not ok:
            first = next(((a, b) for a, b in zip(w, rec) if a != b), (len(w), len(rec)))
            chk.disagree("Scope.Walk.module_events vs the scope calls recorded from hy_compile",
                         {"label": lab, "program": src}, str(first[0]), str(first[1]))
        lok, mc, lc = tr.parse_model(outs[2 * i + 1])
        if lok:
            n_lex += 1
            chk.count("lex:applies")
            if mc != lc:
                j = next((k for k, (a, b) in enumerate(zip(mc, lc)) if a != b), -1)
                chk.disagree("Scope.Machine on Scope.Walk events vs Scope.Lexical.lex_module (refinement instance)",
                             {"label": lab, "program": src},
                             {"node": j, "machine": [tr.txt(x) for x in mc[j]] if j >= 0 else len(mc)},
                             {"node": j, "lexical": [tr.txt(x) for x in lc[j]] if j >= 0 else len(lc)})
        else:
            chk.count("lex:outside-specification")
    chk.extra["walk_correspondence"] = {"programs": n_walk, "refinement_instances_checked": n_lex}
    chk.obligation("walk correspondence ran on %d programs, refinement instance checked on %d" % (n_walk, n_lex),
                   n_walk > 0 and n_lex > 0)
