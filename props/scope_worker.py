"""Runs inside a fresh implementation interpreter (PYTHONPATH=<repo>, PYTHONHASHSEED set by the
parent).  Reads a JSON job from stdin, writes one JSON result to stdout.  Used by C13 (compile
under a given hash seed), C06/C07/C04 (compile + execute generated programs).

Not imported by the harness: the harness passes this file's path to the interpreter."""
import ast
import hashlib
import io
import json
import marshal
import sys
import types
import warnings


def h(b):
    if isinstance(b, str):
        b = b.encode("utf-8", "surrogatepass")
    return hashlib.sha256(b).hexdigest()[:24]


def sort_outervar_nonlocals(tree):
    """Sort Nonlocal.names exactly where visit_OuterVar emits [Global, Nonlocal] for one
    (nonlocal ...) form: a Nonlocal directly after a Global with the same position."""
    n = 0
    for node in ast.walk(tree):
        for field in ("body", "orelse", "finalbody"):
            body = getattr(node, field, None)
            if not isinstance(body, list):
                continue
            for a, b in zip(body, body[1:]):
                if isinstance(a, ast.Global) and isinstance(b, ast.Nonlocal) and \
                        all(getattr(a, k, None) == getattr(b, k, None)
                            for k in ("lineno", "col_offset", "end_lineno", "end_col_offset")):
                    if b.names != sorted(b.names):
                        n += 1
                    b.names = sorted(b.names)
    return n


def compile_one(hy, src, idx, full):
    from hy.compiler import hy_compile
    fn = "<c13-%d>" % idx
    mod = types.ModuleType("c13mod_%d" % idx)
    res = {}
    try:
        with warnings.catch_warnings():
            warnings.simplefilter("ignore")
            tree = hy_compile(hy.read_many(src, filename=fn), mod, filename=fn, source=src)
    except BaseException as e:  # noqa: deterministic error text is part of the observation
        msg = "%s: %s" % (type(e).__name__, getattr(e, "msg", None) or str(e))
        res["err"] = msg[:400]
        res["ast"] = h("ERR " + msg)
        res["code"] = res["ctl"] = res["nast"] = res["ncode"] = res["ast"]
        return res
    dump = ast.dump(tree, include_attributes=True)
    res["ast"] = h(dump)

    def comp(t):
        try:
            return marshal.dumps(compile(t, fn, "exec"))
        except BaseException as e:  # noqa
            return ("compile-error %s: %s" % (type(e).__name__, e)).encode()
    code = comp(tree)
    res["code"] = h(code)
    res["code_ok"] = not code.startswith(b"compile-error")
    try:
        un = ast.unparse(tree)
        ctl = comp(un)
    except BaseException as e:  # noqa
        un, ctl = None, ("unparse-error %s" % type(e).__name__).encode()
    res["ctl"] = h(ctl)
    res["sorted_nonlocals"] = sort_outervar_nonlocals(tree)
    ndump = ast.dump(tree, include_attributes=True)
    res["nast"] = h(ndump)
    res["ncode"] = h(comp(tree))
    if full:
        res["dump"] = dump
        res["unparse"] = un
    return res


def job_c13(job):
    import hy  # noqa
    out = []
    full = job.get("full", False)
    for i, src in job["programs"]:
        out.append(compile_one(hy, src, i, full))
    return out


def run_program(hy, src, idx, names, in_function=False):
    """compile + exec one generated program; returns the effect log, the final values of the
    watched module-level names and the exception class if any"""
    from hy.compiler import hy_compile
    fn = "<prog-%d>" % idx
    mod = types.ModuleType("progmod_%d" % idx)
    log = []
    mod.__dict__["LOG"] = log

    def lg(k, v):
        log.append([k, v if isinstance(v, (int, str, bool, type(None))) else repr(v)])
        return v
    mod.__dict__["lg"] = lg
    res = {}
    try:
        with warnings.catch_warnings():
            warnings.simplefilter("ignore")
            tree = hy_compile(hy.read_many(src, filename=fn), mod, filename=fn, source=src)
        res["py"] = ast.unparse(tree)
        code = compile(tree, fn, "exec")
    except BaseException as e:  # noqa
        res["compile_err"] = "%s: %s" % (type(e).__name__, (getattr(e, "msg", None) or str(e))[:200])
        return res
    try:
        exec(code, mod.__dict__)
    except BaseException as e:  # noqa
        res["exc"] = "%s: %s" % (type(e).__name__, str(e)[:200])
    res["log"] = log
    g = {}
    for k, v in mod.__dict__.items():
        if k in names or k.startswith("_hy_"):
            g[k] = v if isinstance(v, (int, str, bool, type(None))) else "<%s>" % type(v).__name__
    res["globals"] = g
    return res


def job_run(job):
    import hy  # noqa
    out = []
    for i, src in job["programs"]:
        out.append(run_program(hy, src, i, set(job.get("names", []))))
    return out


def main():
    job = json.load(sys.stdin)
    real_stdout = sys.stdout
    sys.stdout = io.StringIO()  # programs may print
    try:
        res = {"c13": job_c13, "run": job_run}[job["kind"]](job)
    finally:
        sys.stdout = real_stdout
    json.dump(res, real_stdout)


if __name__ == "__main__":
    main()
