"""Runs inside a fresh implementation interpreter (PYTHONPATH=<repo>, PYTHONHASHSEED set by the
parent).  Reads a JSON job from stdin, writes one JSON result to stdout.  Used by C13 (compile
under a given hash seed), C06/C07/C04 (compile + execute generated programs).

Not imported by the harness: the harness passes this file's path to the interpreter."""
import ast
import hashlib
import io
import json
import marshal
import re
import sys
import types
import warnings


def h(b):
    if isinstance(b, str):
        b = b.encode("utf-8", "surrogatepass")
    return hashlib.sha256(b).hexdigest()[:24]


def sort_outervar_nonlocals(tree):
    """Sort Nonlocal.names exactly where visit_OuterVar emits [Global, Nonlocal] for one
    (nonlocal ...) form: a Nonlocal directly after a Global with the same position."""
    n = 0
    for node in ast.walk(tree):
        for field in ("body", "orelse", "finalbody"):
            body = getattr(node, field, None)
            if not isinstance(body, list):
                continue
            for a, b in zip(body, body[1:]):
                if isinstance(a, ast.Global) and isinstance(b, ast.Nonlocal) and \
                        all(getattr(a, k, None) == getattr(b, k, None)
                            for k in ("lineno", "col_offset", "end_lineno", "end_col_offset")):
                    if b.names != sorted(b.names):
                        n += 1
                    b.names = sorted(b.names)
    return n


def compile_one(hy, src, idx, full, want_control=False):
    from hy.compiler import hy_compile
    fn = "<c13-%d>" % idx
    mod = types.ModuleType("c13mod_%d" % idx)
    res = {}
    try:
        with warnings.catch_warnings():
            warnings.simplefilter("ignore")
            tree = hy_compile(hy.read_many(src, filename=fn), mod, filename=fn, source=src)
    except BaseException as e:  # noqa: deterministic error text is part of the observation
        msg = "%s: %s" % (type(e).__name__, getattr(e, "msg", None) or str(e))
        msg = re.sub(r"0x[0-9a-fA-F]{6,}", "0x?", msg)  # object addresses are not part of the property
        res["err"] = msg[:400]
        res["err_full_hash"] = h(msg)
        res["ast"] = h("ERR " + msg)
        res["code"] = res["ctl"] = res["nast"] = res["ncode"] = res["ast"]
        return res
    dump = ast.dump(tree, include_attributes=True)
    res["ast"] = h(dump)

    def comp(t):
        try:
            return marshal.dumps(compile(t, fn, "exec"))
        except BaseException as e:  # noqa
            return ("compile-error %s: %s" % (type(e).__name__, e)).encode()
    code = comp(tree)
    res["code"] = h(code)
    res["code_ok"] = not code.startswith(b"compile-error")
    un = None
    if want_control:  # second pass only: what plain CPython does with the unparsed source under this seed
        try:
            un = ast.unparse(tree)
            ctl = comp(un)
        except BaseException as e:  # noqa
            un, ctl = None, ("unparse-error %s" % type(e).__name__).encode()
        res["ctl"] = h(ctl)
    res["sorted_nonlocals"] = sort_outervar_nonlocals(tree)
    if res["sorted_nonlocals"]:
        res["nast"] = h(ast.dump(tree, include_attributes=True))
        res["ncode"] = h(comp(tree))
    else:
        res["nast"], res["ncode"] = res["ast"], res["code"]
    if full:
        res["dump"] = dump
        res["unparse"] = un if un is not None else ast.unparse(tree)
    return res


def job_c13(job):
    import hy  # noqa
    out = []
    full = job.get("full", False)
    for i, src in job["programs"]:
        out.append(compile_one(hy, src, i, full, job.get("control", False)))
    return out


def run_program(hy, src, idx, names, in_function=False):
    """compile + exec one generated program; returns the effect log, the final values of the
    watched module-level names and the exception class if any"""
    from hy.compiler import hy_compile
    fn = "<prog-%d>" % idx
    mod = types.ModuleType("progmod_%d" % idx)
    log = []
    mod.__dict__["LOG"] = log

    def show(v):
        if isinstance(v, (int, str, bool, type(None))):
            return v
        if isinstance(v, type):
            return "<class>"
        if callable(v):
            return "<function>"
        if isinstance(v, (list, tuple)):
            return [show(a) for a in v]
        if isinstance(v, dict):   # a namespace: only the watched names
            return {k: show(x) for k, x in sorted(v.items(), key=lambda t: str(t[0])) if k in names}
        return "<%s>" % type(v).__name__

    def lg(k, v):
        log.append([k, show(v)])
        return v
    mod.__dict__["lg"] = lg
    res = {}
    try:
        with warnings.catch_warnings():
            warnings.simplefilter("ignore")
            tree = hy_compile(hy.read_many(src, filename=fn), mod, filename=fn, source=src)
        res["py"] = ast.unparse(tree)
        code = compile(tree, fn, "exec")
    except BaseException as e:  # noqa
        res["compile_err"] = "%s: %s" % (type(e).__name__, (getattr(e, "msg", None) or str(e))[:200])
        return res
    try:
        exec(code, mod.__dict__)
    except BaseException as e:  # noqa
        res["exc"] = "%s: %s" % (type(e).__name__, str(e)[:200])
    res["log"] = log
    g = {}
    for k, v in mod.__dict__.items():
        if k in names:
            g[k] = show(v)
    res["globals"] = g
    return res


def job_run(job):
    import hy  # noqa
    out = []
    for i, src in job["programs"]:
        out.append(run_program(hy, src, i, set(job.get("names", []))))
    return out


def main():
    job = json.load(sys.stdin)
    real_stdout = sys.stdout
    sys.stdout = io.StringIO()  # programs may print
    try:
        res = {"c13": job_c13, "run": job_run}[job["kind"]](job)
    finally:
        sys.stdout = real_stdout
    json.dump(res, real_stdout)


if __name__ == "__main__":
    main()
