"""C05 -- fn/defn bind arguments exactly like the equivalent Python def."""
import ast
import itertools
import types

from lib import vlib
from props import ops_common as oc
from translator import ops_lambda

META = {
    "technique": "Coq proofs over a model of the lambda_list grammar, compile_lambda_list, _compile_collect and the "
                 "function-body assembly, against a model of CPython's argument binding over ast.arguments; handler "
                 "functions pinned by fail-closed templates; model-vs-implementation runs (parser, ast.arguments, "
                 "binding against CPython, collected call arguments, body statements); differential oracle: each Hy "
                 "function against the rendered equivalent Python def on the same calls",
    "level_text": "Theorems in coq/Props/C05.v hold for every lambda list (no bound on the number of parameters) and every "
                  "call (no bound on arguments): a list the compiler accepts binds, through the emitted ast.arguments and "
                  "CPython's binding algorithm, exactly as the reference that reads each parameter's own default from the "
                  "Hy structure; the three syntax errors are raised exactly when Python rejects the equivalent def; call "
                  "arguments are split into order-preserving positional and keyword sub-lists; the body returns its last "
                  "form except in async generators. The docstring rule is proved for string-literal and non-string first "
                  "forms and REFUTED in general (a first form that merely compiles to a string constant becomes the "
                  "docstring).",
    "level_note": "Trusted: Coq kernel; translator/ops_lambda.py (templates); the hand-written model of CPython's binding "
                  "algorithm (validated against CPython on every generated signature x call) and of the grammar/compile "
                  "functions (validated against the live parser and hy_compile); annotations and :tp type parameters are "
                  "outside the model; evaluation order of defaults and call arguments is C01's subject.",
}

TRUSTED = [
    "Coq 8.16.1 kernel (coqc, full .vo); no native_compute",
    "axioms: none (Print Assumptions: Closed under the global context for every C05 theorem)",
    "translator/ops_lambda.py: grammar and the functions compile_lambda_list, compile_arguments_set, compile_function_node, "
    "compile_function_lambda, compile_function_def, _compile_collect, _compile_branch, Result.expr_as_stmt matched against "
    "templates (any other shape fails closed)",
    "Ops/PyBinding.v: hand-written model of CPython's initialize_locals over ast.arguments -- validated against this "
    "interpreter on every generated signature x call, not proved",
    "Ops/LambdaList.v: hand-written model of the funcparserlib grammar, compile_lambda_list, _compile_collect, "
    "_compile_branch/compile_function_node -- validated against the live parser / hy_compile on generated inputs",
]

IMPORTS = ["HyV.Ops.PyBinding", "HyV.Gen.LambdaTables", "HyV.Ops.LambdaList"]
NAMES = ["a", "b", "c", "d", "e", "f", "g", "h"]


# ------------------------------------------------------------------ abstract signatures

class Sig:
    """posonly: None | [params]; params are (name, default-id | None); rest: None | '*' | name; kwargs: None | name"""

    def __init__(self, posonly, args, rest, kwonly, kwargs):
        self.posonly, self.args, self.rest, self.kwonly, self.kwargs = posonly, args, rest, kwonly, kwargs

    def tokens(self, ann=None):
        t = []
        a = ann or (lambda: False)
        if self.posonly is not None:
            t += [("arg", n, d, a()) for n, d in self.posonly] + ["slash"]
        t += [("arg", n, d, a()) for n, d in self.args]
        if self.rest == "*":
            t.append("star")
        elif self.rest:
            t.append(("iter", self.rest, a()))
        t += [("arg", n, d, a()) for n, d in self.kwonly]
        if self.kwargs:
            t.append(("map", self.kwargs, a()))
        return t

    def python(self):
        f = lambda n, d: n if d is None else "%s=%d" % (n, 1000 + d)
        parts = []
        if self.posonly is not None:
            parts += [f(n, d) for n, d in self.posonly] + ["/"]
        parts += [f(n, d) for n, d in self.args]
        if self.rest == "*":
            parts.append("*")
        elif self.rest:
            parts.append("*" + self.rest)
        parts += [f(n, d) for n, d in self.kwonly]
        if self.kwargs:
            parts.append("**" + self.kwargs)
        return ", ".join(parts)

    def names(self):
        out = [n for n, _ in (self.posonly or [])] + [n for n, _ in self.args] + [n for n, _ in self.kwonly]
        if self.rest and self.rest != "*":
            out.append(self.rest)
        if self.kwargs:
            out.append(self.kwargs)
        return out

    def coq_raw(self):
        p = lambda n, d: "{| p_name := %s; p_default := %s |}" % (oc.coq_string(n), oc.coq_option(d))
        pl = lambda l: oc.coq_list([p(n, d) for n, d in l])
        rest = "RNone" if self.rest is None else "RBare" if self.rest == "*" else "(RVar %s)" % oc.coq_string(self.rest)
        return ("{| r_posonly := %s; r_args := %s; r_rest := %s; r_kwonly := %s; r_kwargs := %s |}" % (
            "None" if self.posonly is None else "(Some %s)" % pl(self.posonly), pl(self.args), rest, pl(self.kwonly),
            oc.coq_option(self.kwargs, oc.coq_string)))

    def key(self):
        return (tuple(self.posonly) if self.posonly is not None else None, tuple(self.args), self.rest, tuple(self.kwonly),
                self.kwargs)


def tok_coq(t):
    b = lambda x: "true" if x else "false"
    if t == "slash":
        return "TSlash"
    if t == "star":
        return "TStar"
    if t == "other":
        return "TOther"
    if t[0] == "arg":
        return "(TArg %s %s %s)" % (oc.coq_string(t[1]), oc.coq_option(t[2]), b(t[3]))
    if t[0] == "iter":
        return "(TUnpackIter %s %s)" % (oc.coq_string(t[1]), b(t[2]))
    if t[0] == "map":
        return "(TUnpackMap %s %s)" % (oc.coq_string(t[1]), b(t[2]))
    raise ValueError(t)


def tok_hy(hy, t, other_kind=0):
    from hy.models import Symbol, List, Integer, Expression, Keyword, String
    ann = lambda x, flag: Expression([Symbol("annotate"), x, Symbol("int")]) if flag else x
    if t == "slash":
        return Symbol("/")
    if t == "star":
        return Symbol("*")
    if t == "other":
        return [Integer(5), Keyword("k"), String("s"), List([Symbol("x")]), List([Symbol("x"), Integer(1), Integer(2)]),
                Expression([Symbol("unpack-iterable"), Integer(1)]), Expression([Symbol("unpack-mapping"), Symbol("/")]),
                List([Symbol("*"), Integer(1)]), Expression([Symbol("unpack-iterable"), Symbol("x"), Symbol("y")])][other_kind % 9]
    if t[0] == "arg":
        core = Symbol(t[1]) if t[2] is None else List([Symbol(t[1]), Integer(1000 + t[2])])
        return ann(core, t[3])
    if t[0] == "iter":
        return ann(Expression([Symbol("unpack-iterable"), Symbol(t[1])]), t[2])
    if t[0] == "map":
        return ann(Expression([Symbol("unpack-mapping"), Symbol(t[1])]), t[2])
    raise ValueError(t)


def gen_sig(rng, max_params, valid_bias=0.8):
    """a structurally arbitrary signature; with probability valid_bias repaired to one Python accepts"""
    n = rng.randrange(0, max_params + 1)
    names = NAMES[:]
    rng.shuffle(names)
    names = names[:n + 2]
    k = [0]

    def params(cnt, p_default):
        out = []
        for _ in range(cnt):
            d = None
            if rng.random() < p_default:
                d = k[0]
                k[0] += 1
            out.append((names.pop(), d))
        return out
    cuts = sorted(rng.randrange(0, n + 1) for _ in range(2))
    n_po, n_args, n_kw = cuts[0], cuts[1] - cuts[0], n - cuts[1]
    has_slash = rng.random() < 0.45
    posonly = params(n_po, 0.4) if has_slash else None
    if not has_slash:
        n_args += n_po
    args = params(n_args, 0.45)
    rest = rng.choice([None, None, "*", "r", "r"])
    if rest is None:
        args += params(n_kw, 0.45)
        kwonly = []
    else:
        kwonly = params(n_kw, 0.5)
    kwargs = rng.choice([None, None, "kw"])
    s = Sig(posonly, args, rest, kwonly, kwargs)
    if rng.random() < valid_bias:
        # repair: defaults only at the end of the positional parameters, something before /, something after bare *
        pos = (s.posonly or []) + s.args
        seen = False
        fixed = []
        for nm, d in pos:
            if d is not None:
                seen = True
            elif seen:
                d = k[0]
                k[0] += 1
            fixed.append((nm, d))
        if s.posonly is not None:
            s.posonly, s.args = fixed[:len(s.posonly)], fixed[len(s.posonly):]
            if not s.posonly:
                s.posonly = None
        else:
            s.args = fixed
        if s.rest == "*" and not s.kwonly:
            s.rest = None
    return s


def all_sigs(max_params):
    """every signature shape with at most max_params parameters (names fixed by position)"""
    for n in range(0, max_params + 1):
        for n_po in range(0, n + 1):
            for n_args in range(0, n - n_po + 1):
                n_kw = n - n_po - n_args
                for slash in ((False, True) if n_po == 0 else (True,)):
                    for rest in (None, "*", "r"):
                        if rest is None and n_kw:
                            continue
                        for kwargs in (None, "kw"):
                            for dmask in itertools.product((False, True), repeat=n):
                                k = 0
                                ps = []
                                for i in range(n):
                                    ps.append((NAMES[i], (i if dmask[i] else None)))
                                yield Sig(ps[:n_po] if slash else None, ps[n_po:n_po + n_args], rest, ps[n_po + n_args:],
                                          kwargs)


# ------------------------------------------------------------------ calls

def gen_call(rng, sig, max_args):
    """positional values are 0,1,2..; keywords draw from parameter names (biased) and strangers"""
    names = [n for n, _ in (sig.posonly or [])] + [n for n, _ in sig.args] + [n for n, _ in sig.kwonly]
    npos_params = len(sig.posonly or []) + len(sig.args)
    r = rng.random()
    if r < 0.5:
        npos = rng.randrange(0, npos_params + 1)
    elif r < 0.7:
        npos = npos_params + rng.randrange(0, 3)
    else:
        npos = rng.randrange(0, max_args + 1)
    npos = min(npos, max_args)
    pool = names + ["zz", "yy"]
    rng.shuffle(pool)
    nkw = rng.randrange(0, max(1, max_args - npos) + 1)
    if rng.random() < 0.5:
        # aim at a successful call: the parameters still unbound
        want = [n for n in names[npos:] if rng.random() < 0.8]
        kws = want[:max_args]
    else:
        kws = pool[:nkw]
    if rng.random() < 0.08 and kws:
        kws.append(kws[0])              # repeated keyword (only reachable through **)
    pos = list(range(npos))
    kw = [(k, 100 + i) for i, k in enumerate(kws)]
    return pos, kw


def call_coq(pos, kw):
    return "{| c_pos := %s; c_kw := %s |}" % (oc.coq_nat_list(pos),
                                              oc.coq_list(["(%s, %d)" % (oc.coq_string(k), v) for k, v in kw]))


def run_call(f, pos, kw):
    """-> ('Bound', {name: value}) | 'TypeErr' ; the function returns dict(locals())"""
    keys = [k for k, _ in kw]
    try:
        if len(set(keys)) != len(keys):
            # a repeated keyword can only come from ** unpacking of two mappings
            i = next(i for i, k in enumerate(keys) if k in keys[:i])
            r = f(*pos, **dict(kw[:i]), **dict(kw[i:]))
        else:
            r = f(*pos, **dict(kw))
    except TypeError:
        return "TypeErr"
    return ("Bound", canon_locals(r))


def canon_locals(d):
    out = {}
    for k, v in d.items():
        if isinstance(v, tuple):
            out[k] = ("BTuple", list(v))
        elif isinstance(v, dict):
            out[k] = ("BDict", [("tuple", ("str", a), b) for a, b in v.items()])
        elif v >= 1000:
            out[k] = ("BDefault", v - 1000)
        else:
            out[k] = ("BGiven", v)
    return out


def canon_model_bres(parsed):
    if parsed in ("TypeErr", "BadAST"):
        return parsed
    assert parsed[0] == "Bound", parsed
    out = {}
    for item in parsed[1]:
        _, name, b = item
        out[name[1]] = (b[0], b[1])
    return ("Bound", out)


def py_function(sig_text):
    env = {}
    exec(compile("def f(%s):\n    return dict(locals())\n" % sig_text, "<py>", "exec"), env)
    return env["f"]


def function_from_arguments(a):
    """a Python function whose signature is the given ast.arguments node and which returns its locals"""
    body = [ast.Return(value=ast.Call(func=ast.Name(id="dict", ctx=ast.Load()),
                                      args=[ast.Call(func=ast.Name(id="locals", ctx=ast.Load()), args=[], keywords=[])],
                                      keywords=[]))]
    fd = ast.FunctionDef(name="f", args=a, body=body, decorator_list=[], returns=None, type_params=[])
    m = ast.Module(body=[fd], type_ignores=[])
    ast.fix_missing_locations(m)
    env = {}
    exec(compile(m, "<args>", "exec"), env)
    return env["f"]


# ------------------------------------------------------------------ implementation access

class Impl:
    def __init__(self, hy):
        self.hy = hy
        self.mod = types.ModuleType("c05_scratch")
        from hy.core import result_macros as rm
        self.rm = rm

    def ll_model(self, toks, other_kind=0):
        from hy.models import List
        return List([tok_hy(self.hy, t, other_kind) for t in toks])

    def parse(self, toks, other_kind=0):
        """the live lambda_list parser -> canonical parse tree or None"""
        from funcparserlib.parser import NoParseError
        from hy.models import Symbol, List
        try:
            tree = self.rm.lambda_list.parse([self.ll_model(toks, other_kind)])
        except NoParseError:
            return None

        def param(x):
            decl = x[0]
            if isinstance(decl, List):
                return {"p_name": ("str", str(decl[0])), "p_default": ("Some", int(decl[1]) - 1000)}
            return {"p_name": ("str", str(decl)), "p_default": "None"}
        po, args, rest, kwonly, kwargs = tree
        if rest is None:
            r = "RNone"
        elif rest == Symbol("*"):
            r = "RBare"
        else:
            r = ("RVar", ("str", str(rest[0])))
        return {"r_posonly": "None" if po is None else ("Some", [param(x) for x in po]),
                "r_args": [param(x) for x in args], "r_rest": r, "r_kwonly": [param(x) for x in kwonly],
                "r_kwargs": "None" if kwargs is None else ("Some", ("str", str(kwargs[0])))}

    def compile_fn(self, toks, body="(dict (locals))", defn=False):
        """hy_compile of (fn [..] body) -> ('ok', ast.arguments, function object) | ('syntax', message) """
        from hy.compiler import hy_compile
        from hy.errors import HyLanguageError
        from hy.models import Expression, Symbol
        ll = self.ll_model(toks)
        form = Expression(([Symbol("defn"), Symbol("f")] if defn else [Symbol("fn")]) + [ll]
                          + list(self.hy.read_many(body)))
        try:
            tree = hy_compile(form, self.mod, import_stdlib=False)
        except HyLanguageError as e:
            return ("syntax", getattr(e, "msg", None) or str(e))
        except Exception as e:      # the compiler itself failed: not a verdict on the lambda list
            return ("crash", "%s: %s" % (type(e).__name__, e))
        node = next(n for n in ast.walk(tree) if isinstance(n, (ast.Lambda, ast.FunctionDef, ast.AsyncFunctionDef)))
        try:
            if defn:
                env = {}
                exec(compile(tree, "<hy>", "exec"), env)
                fobj = env["f"]
            else:
                fobj = eval(compile(ast.Expression(body=tree.body[-1].value), "<hy>", "eval"),
                            self._env_for(tree))
        except SyntaxError as e:
            return ("pysyntax", str(e))
        except Exception as e:      # e.g. compile() rejecting a malformed ast.arguments node
            return ("crash", "%s: %s" % (type(e).__name__, e))
        return ("ok", node.args, fobj)

    def _env_for(self, tree):
        env = {}
        if len(tree.body) > 1:
            m = ast.Module(body=tree.body[:-1], type_ignores=[])
            exec(compile(m, "<hy>", "exec"), env)
        return env


def canon_arguments(a):
    d = lambda x: x.value - 1000
    return {"posonlyargs": [("str", x.arg) for x in a.posonlyargs], "args": [("str", x.arg) for x in a.args],
            "defaults": [d(x) for x in a.defaults],
            "vararg": "None" if a.vararg is None else ("Some", ("str", a.vararg.arg)),
            "kwonlyargs": [("str", x.arg) for x in a.kwonlyargs],
            "kw_defaults": ["None" if x is None else ("Some", d(x)) for x in a.kw_defaults],
            "kwarg": "None" if a.kwarg is None else ("Some", ("str", a.kwarg.arg))}


def parse_record(p):
    """coq_parse of a printed record {| a := x; b := y |} comes back as a flat token soup; use a tiny dedicated reader"""
    raise NotImplementedError


# Records print as {| f := v; ... |}; coq_parse does not know them, so expressions project the fields into tuples.
RAW_PROJ = ("(fun r => (r_posonly _ r, r_args _ r, r_rest _ r, r_kwonly _ r, r_kwargs _ r))")
ARGS_PROJ = ("(fun a => (posonlyargs _ a, args _ a, defaults _ a, vararg _ a, kwonlyargs _ a, kw_defaults _ a, kwarg _ a))")
PARAM_MAP = "(map (fun p => (p_name _ p, p_default _ p)))"


def raw_expr(e):
    return ("(match %s with Some r => Some (option_map %s (r_posonly _ r), %s (r_args _ r), r_rest _ r, %s (r_kwonly _ r), "
            "r_kwargs _ r) | None => None end)" % (e, PARAM_MAP, PARAM_MAP, PARAM_MAP))


def canon_raw_model(parsed):
    if parsed == "None":
        return None
    _, t = parsed
    _, po, args, rest, kwonly, kwargs = t
    pm = lambda l: [{"p_name": x[1], "p_default": x[2]} for x in l]
    return {"r_posonly": "None" if po == "None" else ("Some", pm(po[1])), "r_args": pm(args), "r_rest": rest,
            "r_kwonly": pm(kwonly), "r_kwargs": kwargs}


def args_expr(raw):
    return ("(match compile_ll nat %s with inr a => inr (posonlyargs _ a, args _ a, defaults _ a, vararg _ a, "
            "kwonlyargs _ a, kw_defaults _ a, kwarg _ a) | inl e => inl (llerr_message e) end)" % raw)


def canon_args_model(parsed):
    if parsed[0] == "inl":
        return ("syntax", parsed[1][1])
    _, t = parsed
    _, po, args, defaults, vararg, kwonly, kwd, kwarg = t
    return ("ok", {"posonlyargs": po, "args": args, "defaults": defaults, "vararg": vararg, "kwonlyargs": kwonly,
                   "kw_defaults": kwd, "kwarg": kwarg})


# ------------------------------------------------------------------ the run

def m_docstring(rec, params):
    i = rec.get("input", {})
    return rec.get("key") == "docstring" and isinstance(i, dict) and i.get("class") == "docstring-from-non-literal-first-form"


def run(chk):
    chk.trusted = TRUSTED
    chk.assumptions = [
        "the equivalent Python def of a lambda list has the same parameters in the same order, / after the positional-only "
        "ones, * or *name, keyword-only ones, **name; defaults are distinct integer constants",
        "bindings are compared as {parameter: value} plus the *args tuple and **kwargs dict; TypeError is compared as such",
        "annotations and :tp are outside the model (annotated parameters are generated for the parser correspondence)",
        "'string literal' in the docstring rule is a Hy String model (including bracket strings), not an f-string or bytes",
    ]
    chk.matchers["c05_docstring"] = m_docstring
    proved = chk.prove("Props/C05.v", ["Props/C05.vo"], [ops_lambda.translate])
    thorough = chk.tier == "thorough"
    hy = vlib.use_repo_in_process()
    impl = Impl(hy)
    model_ok = all(o[1] for o in chk.obligations if o[0].startswith("coq cone"))
    from props import c05_runs
    c05_runs.run_all(chk, hy, impl, model_ok, thorough)


def replay(path):
    """re-run the check that produced the replay file (the failing input is regenerated from the same seed)"""
    import json
    rec = json.load(open(path))
    print("replaying", rec.get("kind"), rec.get("key"), json.dumps(rec.get("input"))[:300])
    chk = vlib.Check("C05", "quick", 0)
    run(chk)
    return chk.finish()
