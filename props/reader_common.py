"""Shared by C18-C21: the extracted reader model as a co-process with oracle
call-backs, the implementation runner with canonicalisation, the comparison of
model trees with implementation models, and the text generators."""
import codecs
import io
import json
import os
import signal
import subprocess
import sys
import warnings

from lib import vlib

warnings.simplefilter("ignore")

# ----------------------------------------------------------------- model side


def build_driver():
    ok, log = vlib.coq_build(["Reader/Extract.vo"])
    if not ok:
        raise RuntimeError("extraction failed: " + log[-2000:])
    ex = os.path.join(vlib.VERIF, "extract")
    return vlib.build_ocaml("reader", [os.path.join(ex, "reader_model.mli"), os.path.join(ex, "reader_model.ml"),
                                       os.path.join(ex, "reader_driver.ml")], "hymodel_reader")


def cps(s):
    return ",".join(str(ord(c)) for c in s)


def uncps(a):
    return "".join(chr(int(x)) for x in a.split(",")) if a else ""


PYSPACE = [c for c in range(0x110000) if chr(c).strip() == ""]


class Oracles:
    """The three oracles of Reader/Model.v, answered by this interpreter and (for
    `numeric`) by the implementation's own as_identifier on the isolated token."""

    def __init__(self):
        hy = vlib.use_repo_in_process()
        from hy.reader.hy_reader import HyReader, as_identifier
        from hy.models import Integer, Float, Complex
        self._as_identifier = as_identifier
        self._numtypes = (Integer, Float, Complex)
        self._reader = HyReader()
        self._reader._set_source(io.StringIO(""), "<oracle>")
        self.num = {}
        self.queries = 0

    def numeric(self, s):
        r = self.num.get(s)
        if r is None:
            try:
                m = self._as_identifier(s, reader=self._reader)
                r = (True, canon_num(m)) if isinstance(m, self._numtypes) else (False, None)
            except Exception:
                r = (False, None)
            self.num[s] = r
        return r

    @staticmethod
    def decode(is_bytes, s):
        """CPython's codecs on a literal body -- what read_chars_until asks of the interpreter"""
        try:
            if is_bytes:
                return "".join(chr(b) for b in codecs.escape_decode(s.encode("ascii"))[0])
            return s.encode("ISO-8859-1", errors="backslashreplace").decode("unicode_escape")
        except Exception:
            return None


def canon_num(m):
    t = type(m).__name__
    if t == "Integer":
        return [t, str(int(m))]
    if t == "Float":
        return [t, float(m).hex()]
    c = complex(m)
    return [t, c.real.hex(), c.imag.hex()]


class Model:
    """One co-process running the extracted model."""

    def __init__(self, binary, oracles):
        self.o = oracles
        self.p = subprocess.Popen([binary], stdin=subprocess.PIPE, stdout=subprocess.PIPE, text=True, bufsize=1,
                                  encoding="ascii")
        self.p.stdin.write("P " + ",".join(map(str, PYSPACE)) + "\n")

    def _converse(self, line):
        self.p.stdin.write(line)
        self.p.stdin.flush()
        while True:
            a = self.p.stdout.readline()
            if not a:
                raise RuntimeError("model driver died: " + line[:200])
            if a.startswith("= "):
                return json.loads(a[2:])
            if a.startswith("Q N "):
                self.o.queries += 1
                self.p.stdin.write("1\n" if self.o.numeric(uncps(a[4:].strip()))[0] else "0\n")
            elif a.startswith("Q D "):
                self.o.queries += 1
                b, _, body = a[4:].rstrip("\n").partition(" ")
                r = self.o.decode(b == "1", uncps(body))
                self.p.stdin.write("-\n" if r is None else "+" + cps(r) + "\n")
            else:
                raise RuntimeError("model driver protocol: " + a[:200])
            self.p.stdin.flush()

    def read_many(self, text, skip_shebang=False):
        return self._converse(("B " if skip_shebang else "R ") + cps(text) + "\n")

    def rd_fuel(self, fuel, text):
        return self._converse("F %d %s\n" % (fuel, cps(text)))

    def close(self):
        try:
            self.p.stdin.close()
            self.p.wait(timeout=10)
        except Exception:
            self.p.kill()


# --------------------------------------------------------- implementation side

class Timeout(BaseException):
    """raised by the watchdog; a BaseException so that the reader's own `except Exception` cannot swallow it"""


def _alarm(signum, frame):
    raise Timeout()


KINDS = {"Expression": "Expr", "List": "List", "Dict": "Dict", "Set": "Set", "Tuple": "Tuple"}


def impl_pos(m):
    return [getattr(m, "_start_line", None), getattr(m, "_start_column", None),
            getattr(m, "_end_line", None), getattr(m, "_end_column", None)]


def canon_impl(m):
    """implementation model -> [tag, payload..., children, pos]"""
    t = type(m).__name__
    pos = impl_pos(m)
    if t == "Symbol":
        return ["Sym", str(m), [], pos]
    if t == "Keyword":
        return ["Kw", m.name, [], pos]
    if t in ("Integer", "Float", "Complex"):
        return ["Num", canon_num(m), [], pos]
    if t == "String":
        return ["Str", [str(m), m.brackets], [], pos]
    if t == "Bytes":
        return ["Byt", "".join(chr(b) for b in bytes(m)), [], pos]
    if t in KINDS:
        return ["Seq", KINDS[t], [canon_impl(x) for x in m], pos]
    if t == "FString":
        return ["FStr", [bool(m.is_tstring), m.brackets], [canon_impl(x) for x in m], pos]
    if t == "FComponent":
        return ["FComp", [bool(m.is_tstring), m.conversion, m.expression], [canon_impl(x) for x in m], pos]
    return ["?" + t, repr(m), [], pos]


MAX_TIMEOUTS = 2


def rejected_program(chk, model, text, ires, oracles):
    """a generated program the implementation does not read: a fault of the generator -- unless the reader model
    reads it (the printed-tree theorems say a well-formed printed program reads), then the implementation is at fault"""
    if model is None or ires[0] in ("Ok", "Other", "Timeout") or hit_recursion_limit(ires):
        return
    mres = model.read_many(text)
    if mres[0] == "Ok":
        chk.fail("well-formed-program-not-read", {"text": text}, ires[0] + ": " + str(ires[1])[:120],
                 "Ok: the reader model reads this generated program",
                 "PYTHONPATH=%s python -c 'import hy; list(hy.read_many(%r))'" % (vlib.REPO, text))


class TooManyTimeouts(Exception):
    """the implementation has failed to terminate MAX_TIMEOUTS times: stop generating"""


class Impl:
    def __init__(self):
        self.timeouts = 0
        self.hy = vlib.use_repo_in_process()
        from hy.reader.exceptions import LexException, PrematureEndOfInput
        self.Lex, self.Prem = LexException, PrematureEndOfInput
        signal.signal(signal.SIGALRM, _alarm)

    def read_many(self, text, watchdog=5, reader=None, skip_shebang=False):
        """-> ("Ok", [models]) | ("Lex", msg) | ("Premature", msg) | ("Other", class name, msg) | ("Timeout",)
        A timeout is reported only if it happens twice in a row, the second time with three times the
        allowance (the machine may be busy).  After MAX_TIMEOUTS confirmed timeouts the next call raises
        TooManyTimeouts: a reader that does not terminate has been shown, and every further hang would
        cost the full allowance again."""
        if self.timeouts >= MAX_TIMEOUTS:
            raise TooManyTimeouts()
        r = self._read_many(text, watchdog, reader, skip_shebang)
        if r[0] == "Timeout":
            r = self._read_many(text, 3 * watchdog, reader, skip_shebang)
            if r[0] == "Timeout":
                self.timeouts += 1
        return r

    def _read_many(self, text, watchdog, reader=None, skip_shebang=False):
        signal.alarm(watchdog)
        try:
            try:
                ms = list(self.hy.read_many(text, reader=reader, skip_shebang=skip_shebang))
                return ("Ok", ms)
            except self.Prem as e:
                return ("Premature", str(getattr(e, "msg", e)))
            except self.Lex as e:
                return ("Lex", str(getattr(e, "msg", e)))
            except Timeout:
                return ("Timeout",)
            except BaseException as e:  # anything else is what C18 forbids
                return ("Other", type(e).__name__, str(e)[:200])
        finally:
            signal.alarm(0)


def hit_recursion_limit(r):
    return r[0] in ("Lex", "Premature") and "recursion" in r[1]


# ------------------------------------------------------------------ comparison

def pos_table(text):
    """Reader.getc: (line, col) after k characters have been consumed"""
    line, col = 1, 0
    tab = [(1, 0)]
    for c in text:
        col += 1
        if c == "\n":
            line += 1
            col = 0
        tab.append((line, col))
    return tab


def text_of(a):
    return "".join(chr(c) for c in a)


def canon_model(t, text, oracles, tab=None, inherited=None):
    """model tree json -> the same shape as canon_impl, positions resolved"""
    n = len(text)
    if tab is None:
        tab = pos_table(text)
    pos = inherited if inherited is not None else [None, None, None, None]
    while t[0] == "At":
        a, b = t[1], t[2]
        pos = [tab[n - a][0], tab[n - a][1], tab[n - b][0], tab[n - b][1]]
        t = t[3]
    tag = t[0]
    if tag == "Sym":
        return ["Sym", text_of(t[1]), [], pos]
    if tag == "Kw":
        return ["Kw", text_of(t[1]), [], pos]
    if tag == "Num":
        return ["Num", oracles.numeric(text_of(t[1]))[1], [], pos]
    if tag == "Str":
        return ["Str", [text_of(t[1]), None if t[2] is None else text_of(t[2])], [], pos]
    if tag == "Byt":
        return ["Byt", text_of(t[1]), [], pos]
    if tag == "Seq":
        return ["Seq", t[1], [canon_model(x, text, oracles, tab, pos) for x in t[2]], pos]
    if tag == "FStr":
        return ["FStr", [t[1], None if t[2] is None else text_of(t[2])],
                [canon_model(x, text, oracles, tab, pos) for x in t[3]], pos]
    if tag == "FComp":
        return ["FComp", [t[1], None if t[2] is None else chr(t[2]), text_of(t[3])],
                [canon_model(x, text, oracles, tab, pos) for x in t[4]], pos]
    raise ValueError(tag)


def strip_pos(c):
    return [c[0], c[1], [strip_pos(x) for x in c[2]]]


def value_only(c):
    """type and value: positions and the recorded source text of f-string fields dropped"""
    pay = c[1][:2] if c[0] == "FComp" else c[1]
    return [c[0], pay, [value_only(x) for x in c[2]]]


def semis_ok(t):
    """Extend.semis_ok: every ';' has a newline somewhere after it"""
    i = t.rfind(";")
    return i < 0 or "\n" in t[i:]


def stop(d):
    """Extend.stop: ends an identifier and is not a double quote"""
    return (d in WS or d in NON_IDENT) and d != '"'


def boundary_safe(t1, t2):
    return semis_ok(t1) and (t2 == "" or stop(t2[0]))


def outcome_class(r):
    return r[0]


def compare(text, mres, ires, oracles, positions=False):
    """None if model outcome and implementation outcome correspond, else a short description"""
    mc = mres[0]
    ic = ires[0]
    if mc != ic:
        return "outcome class: model %s, implementation %s" % (mres[:2] if mc != "Ok" else "Ok", ires[:2] if ic != "Ok" else "Ok")
    if mc != "Ok":
        return None
    mts = [canon_model(t, text, oracles) for t in mres[1]]
    its = [canon_impl(m) for m in ires[1]]
    if not positions:
        mts = [strip_pos(t) for t in mts]
        its = [strip_pos(t) for t in its]
    if mts != its:
        return "trees differ: model %s, implementation %s" % (json.dumps(mts)[:400], json.dumps(its)[:400])
    return None


# ------------------------------------------------------------------ generators
# A generated program is a tree; `Render` prints it with separators and labels
# every cut point (prefix length) with what C19 expects there.

WS = " \t\n\r\f\v"
NON_IDENT = set("()[]{};\"'`~")
SYMBOLS = ["a", "b", "x", "foo", "bar", "baz", "+", "-", "*", "/", "<=", "->", "setv", "defn", "fn", "if", "print", "None",
           "True", "_", "__init__", "a-b", "a_b", "*args", "&rest", "foo?", "set!", "x1", "é", "λ", "日本", "a#b", "a:b",
           "j", "J", "e", "1e", "0x", "1+", "foo.bar", "a.b.c", ".attr", ".a.b", "..up.x", "...", ".", "..",
           "os.path", "self.x", "a.b1", "NaN.x", "x.1a", "$", "%", "^", "&", "|", "\\", "@", "@x", "!", "=", "?", "a\xa0b",
           "\U0001F600", "ｘ", "a\x00b", "\ufeffx", "<", ">", "a,b", "a.b-c", "f", "r", "b", "t", "rb", "fr"]
NUMBERS = ["0", "1", "42", "-1", "+7", "007", "1_000", "1,000", "1,,0", "0x1F", "0o17", "0b101", "1.5", "1.", ".5", "-.5", "1e3",
           "1E-3", "1.5e+10", "1j", "2.5J", "1+2j", "-1.5-2e3j", "NaN", "Inf", "-Inf", "1e999", "0x_1f", "1_", "٣"]
KEYWORDS = ["a", "foo", "foo-bar", "", "+", "x1", "é", "a:b", "#", ":", "1"]
STR_BODIES = ["", "a", "hello world", "a\\nb", "\\\\", "\\\"", "say \\\"hi\\\"", "\\x41", "\\101", "\\u00e9", "\\U0001F600",
              "\\N{DIGIT ONE}", "tab\\there", "line1\nline2", "cr\rx", "crlf\r\ny", "é", "日本", "'", ";not a comment", "(", ")",
              "[ ] { }", "#_ x", "{", "}", "{x}", "\\a\\b\\f\\v\\0", "\\\nx", "~@", ":", "#[[", "]]", "\\'", "\U0001F600"]
RAW_BODIES = ["", "a", "\\d+\\.\\d*", "\\\\", "\\q", "a\\\"b", "C:\\\\dir", "{x}", "é", "x\ny", "\\N{x}", "\\x"]
BYTE_BODIES = ["", "a", "abc", "\\x00\\xff", "\\n", "\\\\", "\\\"", "\\101", "x y", "a\nb", "{}", "\\'"]
DELIMS = ["", "x", "==", "py", "foo", "-", "a b", "f", "f-x", "t", "t-x", "F", "#", "(", "é", "{", "}", "=f"]
BR_CONTENTS = ["", "a", "hello", "]", "]]x", "a]b", "]x", "x]", "[", "[[", "\"", "a\nb", "\nab", "\n\nab", "\r\nab", "\rab", "a\rb",
               "{x}", "{", "}", "\\n", ";", "(", "]=", "]==", "#[[", "é", "日本\U0001F600", "]f", "f]"]
FLIT = ["", "a", "abc ", " x ", "{{", "}}", "{{x}}", "\\n", "\\\\", "\\\"", "\\x41", "\\N{DIGIT ONE}", "é", "(", ")", ";", "'", "~",
        "a\nb", "\r\n", "#", ":", "!", "="]
FSPEC = ["", ">", ">10", "^8", ".2f", "x", " ", "0>5", "{{", "\\n", "é"]


class Gen:
    """grammar-directed generator of programs (as trees)"""

    def __init__(self, rng, fstrings=True, depth=4, debug=True, rmacros=False, rtags="RT|KED"):
        self.rtags = rtags
        self.rmacros = rmacros  # calls of the user-defined reader macros of `macro_reader`
        self.rng = rng
        self.fstrings = fstrings
        self.maxdepth = depth
        self.debug = debug    # f-string fields with "=" record their source text verbatim

    def ident(self):
        r = self.rng
        x = r.random()
        if x < 0.55:
            return ("ident", r.choice(SYMBOLS))
        if x < 0.8:
            return ("ident", r.choice(NUMBERS))
        k = r.randrange(1, 6)
        alphabet = "abcxyz_-+*/<>=!?.0123456789:#$%&^|@,é\\"
        s = "".join(r.choice(alphabet) for _ in range(k))
        if s[0] in ":#":
            s = "q" + s
        return ("ident", s)

    def rmacro(self):
        r = self.rng
        tag = r.choice(self.rtags)
        if tag in "ED":
            return ("rmacro", tag, " " + r.choice(["abc", "x1", "a-b", "foo.bar"]))
        if tag == "R":
            arg = " " * r.choice([1, 1, 2]) + "".join(r.choice("0123456789abcdefABCDEF") for _ in range(6))
        elif tag == "T":
            arg = r.choice([" ", "\n", "  "]) + r.choice("abcxyz()\";") + "".join(r.choice("abcxyz()\"; ") for _ in range(2))
        elif tag == "|":
            arg = " " + "".join(r.choice("abc ()[]\";'#\n") for _ in range(r.randrange(0, 8))) + "|"
        else:
            arg = " " + "".join(r.choice("0123456789") for _ in range(r.randrange(1, 5))) + ";"
        return ("rmacro", tag, arg)

    def atom(self):
        r = self.rng
        if self.rmacros and r.random() < 0.3:
            if r.random() < 0.8:
                return self.rmacro()
            return ("prefix", "#P", [([("ws", " ")], self.atom()), ([("ws", r.choice([" ", "\n"]))], self.atom())])
        x = r.random()
        if x < 0.5:
            return self.ident()
        if x < 0.6:
            return ("kw", r.choice(KEYWORDS))
        if x < 0.8:
            p = r.choice(["", "", "", "r", "b", "rb", "br"])
            if "b" in p:
                body = r.choice(BYTE_BODIES if "r" not in p else ["", "a", "\\q", "\\\\", "x y"])
            elif "r" in p:
                body = r.choice(RAW_BODIES)
            else:
                body = r.choice(STR_BODIES)
            return ("str", p, body)
        if x < 0.9:
            d = r.choice([d for d in DELIMS if not (d == "f" or d.startswith("f-"))])
            c = r.choice(BR_CONTENTS)
            if len(d) >= 1 and r.random() < 0.35:
                # a body that ends in "]" + a proper prefix of the delimiter, right before the real closer
                c = r.choice(["", "m[i", "(get xs k)", "a]b"]) + "]" + d[:r.randrange(0, len(d))]
            if ("]" + d + "]") in c or ("]" + d + "]") in (c + "]" + d):
                # the closing delimiter must first occur at the end
                if (c + "]" + d + "]").find("]" + d + "]") != len(c):
                    c = "ok"
            return ("bracket", d, c)
        return self.ident()

    def sep(self, depth, allow_empty=True):
        r = self.rng
        items = []
        n = r.choice([0, 1, 1, 1, 2, 3]) if allow_empty else r.choice([1, 1, 2, 3])
        for _ in range(n):
            x = r.random()
            if x < 0.7:
                items.append(("ws", "".join(r.choice(WS) for _ in range(r.randrange(1, 4)))))
            elif x < 0.88:
                body = r.choice(["", " c", " (", " \"", "; x", " #_", "é", " a\rb", " ]", " {"])
                items.append(("comment", body))
            else:
                items.append(("discard", [("ws", r.choice(WS))] if r.random() < 0.6 else [],
                              self.form(min(depth + 1, self.maxdepth))))
        return items

    def form(self, depth=0):
        r = self.rng
        x = r.random()
        if depth >= self.maxdepth or x < 0.4:
            return self.atom()
        if x < 0.7:
            op, cl = r.choice([("(", ")"), ("(", ")"), ("[", "]"), ("{", "}"), ("#{", "}"), ("#(", ")")])
            items = [(self.sep(depth), self.form(depth + 1)) for _ in range(r.choice([0, 1, 2, 2, 3, 5]))]
            return ("seq", op, cl, items, self.sep(depth))
        if x < 0.85:
            tag = r.choice(["'", "`", "~", "~@", "#*", "#**", "#^"])
            n = 2 if tag == "#^" else 1
            return ("prefix", tag, [(self.sep(depth), self.form(depth + 1)) for _ in range(n)])
        if x < 0.95 and self.fstrings:
            return self.fstring(depth)
        return self.atom()

    def fparts(self, depth, spec=False):
        r = self.rng
        parts = []
        for _ in range(r.choice([0, 1, 2, 3])):
            if r.random() < 0.5:
                parts.append(("lit", r.choice(FSPEC if spec else FLIT)))
            else:
                ws = lambda: "".join(r.choice(" \n\t") for _ in range(r.choice([0, 0, 1, 2])))
                node = self.form(depth + 1)
                dbg = self.debug and r.random() < 0.2
                conv = r.choice([None, None, "r", "s", "a"])
                sp = self.fparts(depth + 1, spec=True) if (r.random() < 0.35 and depth < self.maxdepth) else None
                parts.append(("field", ws(), node, ws(), dbg, ws(), conv, ws(), sp))
        return parts

    def fstring(self, depth):
        r = self.rng
        if r.random() < 0.75:
            return ("fstr", r.choice(["f", "f", "rf", "fr", "t"]), self.fparts(depth))
        return ("bfstr", r.choice(["f", "f-x", "f-"]), self.fparts(depth))

    def program(self):
        r = self.rng
        items = [(self.sep(0), self.form(0)) for _ in range(r.choice([0, 1, 1, 2, 3, 4]))]
        return (items, self.sep(0))


class Render:
    """Print a program.  mode 'rand': the separators of the tree; 'min': one space
    between items and nothing else; 'long': like 'min' with the sugar written as
    long forms.  Records, for every prefix length k, the label of that cut point:
      ("top", n)      between top-level forms (or in a top-level comment): reads, n forms
      ("atom",)       strictly inside an atom that no open delimiter encloses: no claim
      ("open", why)   inside an unclosed construct: PrematureEndOfInput expected
    `why` is "" or names the construct class of a known observation ("dotted": the
    cut leaves a dotted identifier incomplete; "field": inside an f-string
    replacement field once its form has begun; "rbrace": between the braces of "}}")."""

    def __init__(self, mode="rand"):
        self.mode = mode
        self.out = []
        self.labels = [("top", 0)]
        self.stack = []          # frames: ["delim", kind] | ["prefix", pending, counts] | ["field", phase]
        self.ntop = 0
        self.open_ended = False  # the last token would absorb a following identifier character
        self.no_at = False       # directly after "~"
        self.spans = []          # (start, end, node) for every form printed (C21)

    # -- labelling
    def _field(self):
        for f in reversed(self.stack):
            if f[0] != "prefix":
                return f if f[0] == "field" else None
        return None

    def _label(self, inside_atom, tokprefix=None):
        has_delim = any(f[0] != "prefix" for f in self.stack)
        if has_delim:
            why = ""
            fld = self._field()
            if fld is not None and (fld[1] == "head" or (fld[1] == "form" and inside_atom)):
                why = "field"
                if inside_atom and tokprefix is not None and "." in tokprefix:
                    why = "field+dotted"
            elif inside_atom and tokprefix is not None and "." in tokprefix:
                why = "dotted"
            return ("open", why)
        if self.stack:
            return ("atom",) if inside_atom else ("open", "")
        return ("atom",) if inside_atom else ("top", self.ntop)

    def put(self, s, atom=False):
        """emit characters; cut points strictly inside `s` are inside an atom iff atom=True;
        the cut point at the end is labelled from the current stack (see mark)"""
        for i, c in enumerate(s):
            self.out.append(c)
            last = i == len(s) - 1
            self.labels.append(self._label(atom and not last, s[:i + 1] if atom else None))
        return self

    def mark(self):
        """(re)label the cut point at the current end from the current stack"""
        self.labels[len(self.out)] = self._label(False)

    def form_done(self):
        """a form has just been completed: resolve pending prefixes, count top-level forms"""
        while self.stack and self.stack[-1][0] == "prefix":
            f = self.stack[-1]
            f[1] -= 1
            if f[1] > 0:
                self.mark()
                return
            self.stack.pop()
            if not f[2]:
                # a discard: its operand is dropped, nothing has been completed for the enclosing construct
                self.mark()
                return
        if self.stack and self.stack[-1][0] == "field" and self.stack[-1][1] == "form":
            self.stack[-1][1] = "head"
        if not self.stack:
            self.ntop += 1
        self.mark()

    # -- separators
    def guard(self, nxt):
        """insert a space if the next character would fuse with the previous token"""
        if (self.open_ended and nxt not in WS and (nxt not in NON_IDENT or nxt == '"')) or (self.no_at and nxt == "@"):
            self.put(" ")
        self.open_ended = False
        self.no_at = False

    def sep(self, items):
        if self.mode == "flat":
            # validation printing: discarded forms become ordinary items
            for it in items:
                if it[0] == "discard":
                    self.between()
                    self.sep(it[1])
                    self.form(it[2])
                    self.between()
            return
        if self.mode != "rand":
            return
        for it in items:
            if it[0] == "ws":
                self.guard(it[1][0])
                self.put(it[1])
            elif it[0] == "comment":
                self.guard(";")
                lab = self.labels[len(self.out)]
                n0 = len(self.out)
                self.put(";" + it[1] + "\n")
                # inside a comment the state is that of its start
                for k in range(n0 + 1, len(self.out) + 1):
                    self.labels[k] = lab
            else:
                self.guard("#")
                self.stack.append(["prefix", 1, False])
                self.put("#_")
                self.open_ended = True
                self.sep(it[1])
                self.form(it[2])

    def between(self):
        if self.mode != "rand" and self.out and self.out[-1] not in "([{ ":
            self.put(" ")
            self.open_ended = False
            self.no_at = False

    # -- forms
    def form(self, node):
        k = node[0]
        if k in ("ident", "kw"):
            s = node[1] if k == "ident" else ":" + node[1]
            self.guard(s[0])
            start = len(self.out)
            self.put(s, atom=True)
            self.open_ended = True
            self.spans.append((start, len(self.out), node))
            self.form_done()
        elif k == "str":
            self.guard((node[1] + '"')[0])
            start = len(self.out)
            self.put(node[1] + '"', atom=True)
            self.stack.append(["delim", "str"])
            self.mark()
            self.put(node[2])
            self.put('"')
            self.stack.pop()
            self.spans.append((start, len(self.out), node))
            self.form_done()
        elif k == "bracket":
            self.guard("#")
            start = len(self.out)
            self.stack.append(["delim", "bracket"])
            self.put("#[" + node[1] + "[" + node[2] + "]" + node[1] + "]")
            self.stack.pop()
            self.spans.append((start, len(self.out), node))
            self.form_done()
        elif k == "rmacro":
            # "#" tag argument: the macro consumes its argument itself (getn / chars / peeking)
            self.guard("#")
            start = len(self.out)
            self.stack.append(["delim", "rmacro"])
            self.put("#" + node[1] + node[2])
            self.stack.pop()
            self.spans.append((start, len(self.out), node))
            self.form_done()
            self.open_ended = node[1] in "ED"   # these read an identifier: the next character must end it
        elif k == "seq":
            self.guard(node[1][0])
            start = len(self.out)
            self.stack.append(["delim", "seq"])
            self.put(node[1])
            for i, (s, c) in enumerate(node[3]):
                if i:
                    self.between()
                self.sep(s)
                self.form(c)
            self.sep(node[4])
            self.guard(node[2])
            self.put(node[2])
            self.stack.pop()
            self.spans.append((start, len(self.out), node))
            self.form_done()
        elif k == "prefix":
            if self.mode == "long":
                names = {"'": "quote", "`": "quasiquote", "~": "unquote", "~@": "unquote-splice",
                         "#*": "unpack-iterable", "#**": "unpack-mapping", "#^": "annotate"}
                ops = [c for _, c in node[2]]
                if node[1] == "#^":
                    ops = [ops[1], ops[0]]
                self.form(("seq", "(", ")", [([], ("ident", names[node[1]]))] + [([], c) for c in ops], []))
                return
            self.guard(node[1][0])
            start = len(self.out)
            self.stack.append(["prefix", len(node[2]), True])
            self.put(node[1])
            self.open_ended = node[1].startswith("#")
            self.no_at = node[1] == "~"
            for i, (s, c) in enumerate(node[2]):
                if i:
                    self.between()
                self.sep(s)
                self.form(c)
            self.spans.append((start, len(self.out), node))
        elif k in ("fstr", "bfstr"):
            start = len(self.out)
            if k == "fstr":
                self.guard(node[1][0])
                self.put(node[1] + '"', atom=True)
                self.stack.append(["delim", "fstr"])
                self.mark()
                closer = '"'
            else:
                self.guard("#")
                self.stack.append(["delim", "fstr"])
                self.put("#[" + node[1] + "[")
                closer = "]" + node[1] + "]"
            self.fparts(node[2])
            self.put(closer)
            self.stack.pop()
            self.spans.append((start, len(self.out), node))
            self.form_done()
        else:
            raise ValueError(k)

    def flit(self, s):
        """literal text of an f-string: between the braces of "}}" the reader sees a single "}" """
        n0 = len(self.out)
        self.put(s)
        i = 0
        while i < len(s):
            if s.startswith("\\N{", i):
                j = s.find("}", i)
                i = len(s) if j < 0 else j + 1
            elif s.startswith("\\", i):
                i += 2
            elif s.startswith("}}", i):
                self.labels[n0 + i + 1] = ("open", "rbrace")
                i += 2
            else:
                i += 1

    def fparts(self, parts):
        for p in parts:
            if p[0] == "lit":
                self.flit(p[1])
                continue
            _, ws1, node, ws2, dbg, ws3, conv, ws4, spec = p
            self.stack.append(["field", "form"])
            self.put("{")
            self.open_ended = False
            self.no_at = False
            if ws1:
                self.put(ws1)
            elif node[0] == "seq" and node[1] == "{":
                self.put(" ")
            self.form(node)
            self.stack[-1][1] = "head"
            self.mark()

            def lit(s):
                if s:
                    self.guard(s[0])
                    self.put(s)
            lit(ws2)
            if dbg:
                lit("=")
                lit(ws3)
            if conv:
                lit("!" + conv)
            lit(ws4)
            if spec is not None:
                lit(":")
                self.stack[-1][1] = "spec"
                self.mark()
                self.fparts(spec)
            self.guard("}")
            self.put("}")
            self.stack.pop()
            self.mark()

    def program(self, prog):
        items, trail = prog
        for i, (s, c) in enumerate(items):
            if i:
                self.between()
            self.sep(s)
            self.form(c)
        self.sep(trail)
        assert len(self.labels) == len(self.out) + 1
        return "".join(self.out)


def render(prog, mode="rand"):
    r = Render(mode)
    text = r.program(prog)
    return text, r


# token soup over the syntax-significant characters (C18)
SOUP = ["(", ")", "[", "]", "{", "}", "#{", "#(", '"', "'", "`", "~", "~@", "#_", "#*", "#**", "#^", "#[", "[", "]]", "#", ";", ":",
        ".", "..", "a", "foo", "foo.bar", ".a", "a.", "1", "1.5", "-1", "+1j", "1e3", "0x1F", "1_000", "1,000", "NaN", "Inf", "j",
        'r"', 'b"', 'f"', 'rb"', 't"', 'bf"', 'fr"', "{x}", "{", "}", "{{", "}}", "!", "=", ":>", "!r", "\n", "\r", "\r\n", "\t", " ", " ",
        "\\", '\\"', "\\x41", "\\q", "\\N{DIGIT ONE}", "\\N{", "\\u00e9", "\\x", "\\u12", "\\U00110000", "\\777", "é", "\xa0", "\x00",
        "\ufeff", "\ud800", "\U0001F600", "\u2028", "\x85", "\x1f", "٣", "#!", "@", "_", "*", "**", "^", "f", "f-x", "f-", "t", "-", "x"]


def soup(rng, n=None):
    n = n or rng.choice([1, 2, 3, 5, 8, 13, 21])
    return "".join(rng.choice(SOUP) for _ in range(n))


def mutate(rng, text):
    """delete / insert / swap / duplicate a character or a soup token"""
    if not text:
        return soup(rng, 2)
    k = rng.randrange(len(text) + 1)
    op = rng.randrange(5)
    if op == 0:
        return text[:k] + text[k + 1:]
    if op == 1:
        return text[:k] + rng.choice(SOUP) + text[k:]
    if op == 2 and len(text) > 1:
        j = rng.randrange(len(text))
        a, b = min(j, k), max(j, k)
        if b >= len(text):
            b = len(text) - 1
        if a == b:
            return text[:a] + text[a] + text[a:]
        return text[:a] + text[b] + text[a + 1:b] + text[a] + text[b + 1:]
    if op == 3:
        j = rng.randrange(len(text) + 1)
        a, b = min(j, k), max(j, k)
        return text[:b] + text[a:b] + text[b:]
    return text[:k] + rng.choice(SOUP) + text[k + 1:]


CORPUS = ["a" * 24 + "..b", "x" * 30 + "..", "(" + "q" * 36 + "..r)", "long-name_" * 4 + "..x.y", "a" * 40 + ".b..c",
          "", " ", "\n", "(", ")", "(a", "(a b)", "'", "'a", "#", "# a", "#_", "#_ a", "#_a", "#*", "#* a", "#*a", "#** a", "#^ a b", "#^ a",
          "#[[a]]", "#[x[a]x]", "#[[a", "#[x", "#[a]", "#[f[a{b}c]f]", "#[f[{\"]f]\"}]f]", "#[f-{[a]f-{]", "#[t[{a}]t]",
          '"', '"a', '"a"', '"\\', '"\\q"', '"\\x4"', 'b"é"', 'b"\\u00e9"', 'r"\\"', 'rb"\\x"', 'bf"a"', 'x"a"', '1"a"', 'bb"a"',
          'f"', 'f"{', 'f"{a', 'f"{a}', 'f"{a}"', 'f"{a !r}"', 'f"{a !', 'f"{a :', 'f"{a :>{b}}"', 'f"{a :>{b', 'f"}"', 'f"{{', 'f"{{}}"',
          'f"\\N{DIGIT ONE}"', 'f"\\N{', 'f"\\N{x}"', 'rf"\\N{x}"', 'f"{a =}"', 'f"{a = !s :x}"', 'f"{a}}', 'f"\\{a}"', 'f"{a :\\q}"',
          't"{a}"', 'f"{"x"}"', 'f"{f"{a}"}"', 'f"{;c\na}"', 'f"{#_ b a}"', "f\"{'a}\"", 'f"{a!r}"',
          ":", ":a", ":a.b", ':"a"', "a.b", "a.", ".a", "a..b", "..a", "...", "1.a", "a.1", "1.", "1.5.2", "j", "1j", "\xa03", "٣",
          "~", "~@", "~@a", "~ @a", "~@ a", "`a", ";", ";a", ";a\nb", "a;b\nc", "(;a\n)", "(a . b)", "{a}", "#{a}", "#(a)", "#()", "#{",
          "a\r\nb", "a\x0bb", "a\x0cb", "a\x1cb", "\ufeffa", "a\x00", "(]", "[)", "(a))", "]", "}", "#]", "#)", '#"a"', "#;", "#a", "#\n",
          "#\xa0", "#\u2028a", "#!a\n", "(" * 60 + ")" * 60, "'" * 50 + "a", "#_" * 3 + " a b c d", "#^ #^ a b c", "#* #** a"]


def macro_reader():
    """a fresh HyReader with five user-defined reader macros that take their arguments with the documented
    Reader methods:  #R rrggbb (slurp_space + getn 6)   #T xyz (getn 3)   #| text| (chars until "|")
    #K digits; (peeking to the ";", then getn)   #P form form (parse_one_form twice)
    #E name, #D name (read_ident inside `with end_identifier(";")` / `(")")`)"""
    from hy.reader.hy_reader import HyReader
    from hy.models import Expression, Integer, String, Symbol, Tuple
    R = HyReader()

    def rgb(self, key):
        self.slurp_space()
        d = self.getn(6)
        return Tuple([Integer(int(d[i:i + 2], 16)) for i in (0, 2, 4)])

    def tla(self, key):
        self.slurp_space()
        return String(self.getn(3))

    def bar(self, key):
        out = []
        for c in self.chars():
            if c == "|":
                break
            out.append(c)
        return String("".join(out))

    def count(self, key):
        self.slurp_space()
        n = 0
        for c in self.peeking():
            if c == ";":
                break
            n += 1
        d = self.getn(n)
        self.getc()
        return Integer(int(d))

    def pair(self, key):
        a = self.parse_one_form()
        b = self.parse_one_form()
        return Expression([Symbol("pair"), a, b])

    def ident_until(ch):
        # #E name / #D name: read an identifier that also ends at ";" / ")" (characters that end identifiers anyway)
        def handler(self, key):
            self.slurp_space()
            with self.end_identifier(ch):
                return Symbol(self.read_ident() or "_", from_parser=True)
        return handler

    R.reader_macros.update({"R": rgb, "T": tla, "|": bar, "K": count, "P": pair, "E": ident_until(";"), "D": ident_until(")")})
    return R
