"""C11 -- no subform is silently dropped by the compiler."""
import ast
import types

from lib import vlib

META = {
    "technique": "Coq proof (multiset preservation, any argument list) over a model of _compile_collect and the display/"
                 "call/dict handlers; model-vs-hy_compile correspondence on generated argument lists; slot-filling oracle "
                 "over templates of every core form with uniquely named variables and unpacking forms in every slot",
    "level_text": "C11_*_keeps_every_argument: for every argument list (any length, any mix of forms, #*, #**, keywords) the "
                  "display / call / dict node holds each argument exactly as often as it occurs, or compilation is an error "
                  "(C11_unplaceable_is_an_error: #** outside a dict display or call; odd dict); C11_display/dict_keeps_source_order: the slots hold the forms in source order. The model is compared with "
                  "hy_compile on generated lists; on the real compiler every evaluated slot of ~60 templates of core forms "
                  "is filled with a unique variable / unpacking and must appear in the compiled code or give a Hy error. "
                  "Partial: handlers other than displays/calls/dicts are covered by the oracle only; 'evaluated when control "
                  "reaches it' is C01's simulation on the fragment modelled there.",
    "level_note": "Trusted: Coq kernel; hand model of _compile_collect tied by differential runs against hy_compile; the "
                  "harness's notion of evaluated slots in the templates.",
}

TRUSTED = [
    "Coq 8.16.1 kernel; axioms: none",
    "hand-written model coq/Collect/Model.v of HyASTCompiler._compile_collect, compile_list/set/tuple/dict and the call "
    "path of compile_expression, tied by differential execution against hy_compile (element/keyword structure)",
    "the template list of props/c11.py (which positions of which forms are evaluated)",
]

# %s = an evaluated position
TEMPLATES = [
    "[%s %s %s]", "#{%s %s}", "#(%s %s %s)", "{%s %s %s %s}", "(%s %s %s)", "(f %s :k %s %s)", "(.m %s %s %s)", "(get %s %s %s)",
    "(cut %s %s %s %s)", "(+ %s %s %s)", "(- %s %s)", "(* %s %s %s)", "(** %s %s %s)", "(%% %s %s)", "(@ %s %s)", "(<< %s %s %s)",
    "(& %s %s)", "(| %s %s %s)", "(^ %s %s)", "(bnot %s)", "(not %s)", "(and %s %s %s)", "(or %s %s %s)", "(= %s %s %s)",
    "(< %s %s %s)", "(= %s)", "(< %s)", "(is %s)", "(!= %s %s)", "(is %s %s)", "(in %s %s)", "(not-in %s %s)", "(chainc %s < %s <= %s)", "(if %s %s %s)",
    "(do %s %s %s)", "(setv a %s)", "(setv a %s b %s)", "(setx a %s)", "(setv (get %s %s) %s)", "(+= a %s %s)", "(print f\"{%s} {%s !r}\")",
    "(print f\"{%s :{%s}}\")", "(while %s %s (else %s))", "(for [a %s] %s)", "(lfor a %s :if %s %s)", "(dfor a %s %s %s)",
    "(gfor a %s :setv b %s %s)", "(sfor a %s b %s :do %s %s)", "(with [a %s] %s)", "(with [%s] %s)", "(try %s (except [e %s] %s) (else %s) (finally %s))",
    "(raise %s)", "(raise %s :from %s)", "(assert %s %s)", "(return %s)", "(fn [a [b %s]] %s)", "(defn f [a [b %s] * [c %s]] %s)",
    "(match %s 1 %s _ %s)", "(match %s [a b] %s :if %s)", "(yield %s)", "(await %s)", "(del (get %s %s))", "(let [a %s b %s] %s)",
    "(when %s %s %s)", "(cond %s %s %s %s)", "(quasiquote (a (unquote %s) (unquote-splice %s)))", "(. %s a (b %s))", "(defclass K [%s] (setv x %s))",
    "(annotate a %s)", "(setv #^ %s a %s)", "(unpack-iterable %s)", "(lfor a %s #* %s)", "(eval-and-compile %s)", "(py %s)",
]


def compile_src(src):
    hy = vlib.use_repo_in_process()
    from hy.compiler import hy_compile
    from hy.errors import HyLanguageError
    mod = types.ModuleType("hyverif_c11")
    try:
        tree = hy_compile(hy.read_many(src), mod, import_stdlib=False)
        return ("OK", tree)
    except (HyLanguageError, SyntaxError) as e:
        return ("HYERR", type(e).__name__)
    except Exception as e:
        return ("OTHER", type(e).__name__ + ": " + str(e)[:80])


def names_loaded(tree):
    return {n.id for n in ast.walk(tree) if isinstance(n, ast.Name)}


# ---- correspondence: the collector
def render_args(l):
    out = []
    for a in l:
        if a[0] == "form":
            out.append("v%d" % a[1])
        elif a[0] == "star":
            out.append("#* v%d" % a[1])
        elif a[0] == "double":
            out.append("#** v%d" % a[1])
        else:
            out.append(":k%d" % a[1])
    return " ".join(out)


def coq_args(l):
    c = {"form": "CForm", "star": "CStar", "double": "CDouble", "kw": "CKeyword"}
    return "[" + "; ".join("%s %d" % (c[a[0]], a[1]) for a in l) + "]"


def dump_slot(n):
    if n is None:
        return "ONone"
    if isinstance(n, ast.Name) and n.id[0] == "v":
        return "OLeaf %s" % n.id[1:]
    if isinstance(n, ast.Starred) and isinstance(n.value, ast.Name):
        return "OStar %s" % n.value.id[1:]
    if isinstance(n, ast.Call) and isinstance(n.func, ast.Attribute) and n.func.attr == "Keyword":
        return "OKwObj %s" % n.args[0].value[1:]
    return "?" + ast.dump(n)[:40]


def norm(s):
    return " ".join(s.replace("%nat", "").split())


def collector_correspondence(chk, rng, n):
    kinds = ["display-list", "display-set", "display-tuple", "call", "dict"]
    cases = []
    for i in range(n):
        l = []
        for j in range(rng.randrange(0, 6)):
            r = rng.random()
            l.append(("form", j) if r < 0.5 else ("star", j) if r < 0.65 else ("double", j) if r < 0.8 else ("kw", j))
        cases.append((rng.choice(kinds), l))
    exprs = []
    for kind, l in cases:
        fn = {"call": "compile_call", "dict": "compile_dict"}.get(kind, "compile_display")
        exprs.append("%s %s" % (fn, coq_args(l)))
    res = vlib.coq_eval(["HyV.Collect.Model"], "", exprs, tag="c11")
    for (kind, l), mres in zip(cases, res):
        args = render_args(l)
        src = {"display-list": "[%s]", "display-set": "#{%s}", "display-tuple": "#(%s)", "call": "(f %s)", "dict": "{%s}"}[kind] % args
        r = compile_src(src)
        chk.count("collector:" + kind + ":" + r[0])
        chk.case("C:" + src, nontrivial=len(l) >= 2)
        mres = norm(mres)
        if r[0] == "OTHER":
            chk.fail("internal-error", {"program": src}, r[1], "AST or Hy error", "hy_compile(hy.read_many(src))")
            continue
        if r[0] == "HYERR":
            impl = "Err"
        else:
            node = r[1].body[0].value
            if kind == "call":
                impl = "Ok ([%s], [%s])" % ("; ".join(dump_slot(a) for a in node.args),
                                            "; ".join("(%s, %s)" % (("Some %s" % k.arg[1:]) if k.arg else "None", dump_slot(k.value)) for k in node.keywords))
            elif kind == "dict":
                impl = "Ok ([%s], [%s])" % ("; ".join(dump_slot(a) for a in node.keys), "; ".join(dump_slot(a) for a in node.values))
            else:
                impl = "Ok [%s]" % "; ".join(dump_slot(a) for a in node.elts)
        if norm(impl) != mres:
            chk.disagree("Collect.Model vs hy_compile", src, mres, impl)


# minimised former failures (fixed entries of known_findings.json), judged first on every run
REGRESSIONS = [
    # fixed 251f03c: the annotation of an annotated assignment was dropped when the value needs statements
    ("(setv #^ (v0) a (if (v1a) (do (v1b) (v1c)) (v1d)))", ["v0", "v1a", "v1b", "v1c", "v1d"]),
    ("(defn f [] (setv #^ (v0) a (try (v1) (except [E] (v2)))))", ["v0", "v1", "v2"]),
    # fixed cfc331c: (setv x (and (if ...) d)) dropped d (renaming shortcut on a larger expression)
    ("(setv x (and (if (v0) (do (v1) (v2)) (v3)) (v4)))", ["v0", "v1", "v2", "v3", "v4"]),
    ("(setv x (or (if (v0) (do (v1) (v2)) (v3)) (v4) (v5)))", ["v0", "v1", "v2", "v3", "v4", "v5"]),
]


def slot_oracle(chk, rng, rounds):
    for src, leaves in REGRESSIONS:
        r = compile_src(src)
        chk.count("slots:regression:" + r[0])
        chk.case("S:" + src, nontrivial=(r[0] == "OK"))
        if r[0] != "OK":
            chk.fail("regression-does-not-compile", {"program": src}, r[1], "a Python AST", "hy_compile(hy.read_many(src))")
            continue
        missing = [v for v in leaves if v not in names_loaded(r[1])]
        if missing:
            chk.fail("subform-dropped", {"program": src, "missing": missing},
                     "compiled code never mentions %s: %s" % (missing, ast.unparse(r[1])[:160]),
                     "every evaluated subform appears in the compiled code, or a Hy error",
                     "hy_compile(hy.read_many(src)); ast.walk Names")
    for rnd in range(rounds):
        for tpl in TEMPLATES:
            k = tpl.replace("%%", "").count("%s")
            fills, leaves = [], []
            special = rng.randrange(k) if (k and rnd > 0) else -1
            for i in range(k):
                v = "v%d" % i
                leaves.append(v)
                call = "(%s)" % v          # a call: its evaluation is observable, so it may never be dropped
                if i == special:
                    # unpacking forms, statement-producing forms, and unpacking OF statement-producing forms
                    multi = "(if (%sa) (do (%sb) (%sc)) (%sd))" % (v, v, v, v)
                    choice = rng.choice(["#* " + call, "#** " + call, "(do (setv zz 1) %s)" % call,
                                         "#* (do (setv zz 1) %s)" % call, "#** (do (setv zz 1) %s)" % call,
                                         "#** " + multi, "#* " + multi, multi])
                    if multi in choice:
                        leaves.pop()
                        leaves.extend([v + "a", v + "b", v + "c", v + "d"])
                    fills.append(choice)
                else:
                    fills.append(call)
            src = tpl % tuple(fills)
            r = compile_src(src)
            chk.count("slots:" + r[0])
            chk.case("S:" + src, nontrivial=(r[0] == "OK"), sample={"program": src, "outcome": r[0]} if (rnd == 1 and tpl.startswith("(get")) else None)
            if r[0] == "OTHER":
                chk.fail("internal-error", {"program": src}, r[1], "AST or Hy error", "hy_compile(hy.read_many(src))")
            elif r[0] == "OK":
                present = names_loaded(r[1])
                # names inside (py "...") strings and quoted code are not evaluated subforms
                missing = [v for v in leaves if v not in present and not tpl.startswith("(py")]
                if tpl.startswith("(quasiquote"):
                    missing = [v for v in missing]
                if missing:
                    chk.fail("unary-comparison-operand-dropped" if tpl in ("(= %s)", "(< %s)", "(is %s)") else "subform-dropped", {"program": src, "missing": missing},
                             "compiled code never mentions %s: %s" % (missing, ast.unparse(r[1])[:160]),
                             "every evaluated subform appears in the compiled code, or a Hy error",
                             "hy_compile(hy.read_many(src)); ast.walk Names")


STMT_SHAPES = [
    # (text with %(v)s = the leaf prefix, leaves)
    ("(do (%(v)sa) (%(v)sb))", ["a", "b"]),
    ("(if (%(v)sa) (do (%(v)sb) (%(v)sc)) (%(v)sd))", ["a", "b", "c", "d"]),
    ("(setv zz (%(v)sa))", ["a"]),
    ("(do (setv zz (%(v)sa)) (%(v)sb))", ["a", "b"]),
]
NARY_CONTEXTS = ["%s", "(r %s)", "[q #* %s]", "(setv x %s)", "(defn f [] %s)", "(if (c) %s (e))"]


def nary_bool_oracle(chk, rng, thorough):
    """and / or with 3-5 operands (6 in the thorough tier): a statement-producing operand in every position (one, or two
    of them), every other operand a call of a uniquely named function; in several contexts.  Every leaf must occur in the
    compiled code: the and/or machine folds the ordinary operands that follow a statement-producing one into the
    assignment inside the generated `if`."""
    cases = []
    for op in ("and", "or"):
        for n in range(3, 7 if thorough else 6):
            positions = [(i,) for i in range(n)] + [(i, j) for i in range(n) for j in range(i + 1, n)]
            for pos in positions:
                if len(pos) == 2 and not thorough and rng.random() < 0.5:
                    continue
                shapes = STMT_SHAPES if (thorough or len(pos) == 1) else [rng.choice(STMT_SHAPES)]
                for shape, sl in shapes:
                    ctxs = NARY_CONTEXTS if (thorough or (len(pos) == 1 and n <= 4)) else [rng.choice(NARY_CONTEXTS)]
                    for ctx in ctxs:
                        ops, leaves = [], []
                        for i in range(n):
                            v = "v%d" % i
                            if i in pos:
                                ops.append(shape % {"v": v})
                                leaves += [v + x for x in sl]
                            else:
                                ops.append("(%s)" % v)
                                leaves.append(v)
                        cases.append((ctx % ("(%s %s)" % (op, " ".join(ops))), leaves, n, pos))
    for src, leaves, n, pos in cases:
        r = compile_src(src)
        chk.count("nary-bool:%s:arity %d:%d statement operand(s)" % (r[0], n, len(pos)))
        chk.case("N:" + src, nontrivial=(r[0] == "OK"), sample={"program": src, "outcome": r[0]} if (n == 4 and pos == (1,) and src.startswith("(r (and (v0) (do")) else None)
        if r[0] != "OK":
            chk.fail("nary-bool-does-not-compile", {"program": src}, r[1], "a Python AST", "hy_compile(hy.read_many(src))")
            continue
        missing = [v for v in leaves if v not in names_loaded(r[1])]
        if missing:
            chk.fail("subform-dropped", {"program": src, "missing": missing},
                     "compiled code never mentions %s: %s" % (missing, ast.unparse(r[1])[:240]),
                     "every evaluated subform appears in the compiled code, or a Hy error",
                     "hy_compile(hy.read_many(src)); ast.walk Names")


FALSY_TWINS = [("0", "1"), ('""', '"s"'), ("#()", "#(1)"), ("[]", "[1]"), ("False", "True"), ("0.0", "1.5")]
EXTRA_LITERAL_TEMPLATES = ["(cut (xs) %s)", "(cut (xs) %s %s)", "(cut (xs) %s %s %s)", "(get (xs) %s)", "(f :k %s)", "(setv (cut (xs) %s %s) %s)",
                           "(del (cut (xs) %s %s %s))", "(. (xs) [%s])", "(range %s %s %s)"]


def _unparse(tree):
    try:
        return ast.unparse(tree)
    except Exception as e:        # an AST that Python cannot even print
        return "<unparse fails: %s> %s" % (type(e).__name__, ast.dump(tree)[:300])


def _signature(tree):
    sig = {}
    for n in ast.walk(tree):
        k = type(n).__name__
        sig[k] = sig.get(k, 0) + 1
    return sig


def falsy_literal_oracle(chk, rng, thorough):
    """every evaluated slot filled with a FALSY literal (0, "", #(), [], False, 0.0), the other slots with calls: the compiled
    code must have the shape it has with the truthy twin of that literal (1, "s", #(1), [1], True, 1.5) in the same slot --
    a literal is a subform like any other and is not dropped because it is falsy"""
    for tpl in EXTRA_LITERAL_TEMPLATES + TEMPLATES:
        k = tpl.replace("%%", "").count("%s")
        if tpl.startswith(("(py", "(quasiquote", "(print f")) or not k:
            continue
        for i in range(k):
            always = tpl in EXTRA_LITERAL_TEMPLATES or tpl.startswith(("(cut", "(get"))
            twins = FALSY_TWINS if (thorough or always) else rng.sample(FALSY_TWINS, 2)
            for fl, tr in twins:
                fills_f = ["(v%d)" % j if j != i else fl for j in range(k)]
                fills_t = ["(v%d)" % j if j != i else tr for j in range(k)]
                src_f, src_t = tpl % tuple(fills_f), tpl % tuple(fills_t)
                rf, rt = compile_src(src_f), compile_src(src_t)
                chk.count("falsy-literal:%s/%s" % (rf[0], rt[0]))
                chk.case("Z:" + src_f, nontrivial=(rf[0] == "OK"), sample={"program": src_f, "outcome": rf[0]} if (tpl == "(cut (xs) %s %s %s)" and i == 2 and fl == "0") else None)
                if rf[0] == "OTHER":
                    chk.fail("internal-error", {"program": src_f}, rf[1], "AST or Hy error", "hy_compile(hy.read_many(src))")
                    continue
                if rf[0] != "OK" or rt[0] != "OK":
                    continue
                sf, st = _signature(rf[1]), _signature(rt[1])
                if fl in ("#()", "[]"):
                    sf.pop("Constant", None)
                    st.pop("Constant", None)
                missing = [v for v in ("v%d" % j for j in range(k) if j != i) if v not in names_loaded(rf[1])]
                if sf != st or missing:
                    chk.fail("falsy-literal-dropped", {"program": src_f, "twin": src_t, "missing": missing},
                             "compiled: %s" % _unparse(rf[1])[:200],
                             "the shape of the twin's code: %s" % _unparse(rt[1])[:200],
                             "hy_compile(hy.read_many(src)) for the program and its twin; node-type counts of both ASTs")


UNPACK_CONTEXTS = {
    "unpack-mapping": ["(f %s)", "(f (x) %s :k (w))", "{(k1) (w) %s}", "(.meth %s (obj))", "(. (obj) (meth %s))", "(defclass C [Base %s])",
                       "(f %s %s)"],
    "unpack-iterable": ["(f %s)", "(f (x) %s :k (w))", "[(x) %s]", "#{%s (x)}", "#(%s)", "(.meth %s (obj))", "(defclass C [Base %s])",
                        "(setv [a %s] (x))"],
}


def long_form_unpack_oracle(chk):
    """(unpack-mapping ...) / (unpack-iterable ...) written out with 0, 1, 2, 3 operands in every slot that takes an unpacking:
    a Hy error, or every operand appears in the compiled code"""
    for form, ctxs in UNPACK_CONTEXTS.items():
        for ctx in ctxs:
            for nops in range(0, 4):
                leaves = ["u%d" % j for j in range(nops)]
                unp = "(%s%s)" % (form, "".join(" (%s)" % v for v in leaves))
                src = ctx.replace("%s", unp)
                if ctx.startswith("(setv [a"):
                    leaves = []
                    unp = "(%s%s)" % (form, "".join(" r%d" % j for j in range(nops)))
                    src = ctx % unp
                r = compile_src(src)
                chk.count("long-form-unpack:%s:%d operands:%s" % (form, nops, r[0]))
                chk.case("U:" + src, nontrivial=(r[0] == "OK"))
                if r[0] == "OTHER":
                    chk.fail("internal-error", {"program": src}, r[1], "AST or Hy error", "hy_compile(hy.read_many(src))")
                elif r[0] == "OK":
                    present = names_loaded(r[1]) | {n.id for n in ast.walk(r[1]) if isinstance(n, ast.Name)}
                    want = leaves if leaves else ["r%d" % j for j in range(nops)]
                    missing = [v for v in want if v not in present]
                    if missing or nops != 1:
                        chk.fail("unpack-operand-dropped", {"program": src, "missing": missing},
                                 "compiles to: %s" % _unparse(r[1])[:200],
                                 "a Hy error (the form takes exactly one operand), or every operand in the compiled code",
                                 "hy_compile(hy.read_many(src)); ast.walk Names")


BARE_NAME_PROBES = ["(do (do (setv zz 1) v0) 1)", "(do (if a (do (f) v0) v1) 2)", "(while c (do (f) v0))"]


def bare_name_probe(chk):
    """expr_as_stmt drops a bare variable reference that follows statements: reported as a finding"""
    for src in BARE_NAME_PROBES:
        r = compile_src(src)
        chk.case("B:" + src, nontrivial=True)
        if r[0] == "OK" and "v0" not in names_loaded(r[1]):
            chk.fail("bare-name-dropped", {"program": src, "missing": ["v0"]}, ast.unparse(r[1])[:160],
                     "the reference to v0 is evaluated (NameError if unbound)", "hy_compile(hy.read_many(src))")


def run(chk):
    chk.matchers["bare-name-after-statements"] = lambda rec, params: rec["key"] == "bare-name-dropped"
    chk.matchers["unary-comparison"] = lambda rec, params: rec["key"] == "unary-comparison-operand-dropped"
    chk.trusted = TRUSTED
    chk.assumptions = ["an evaluated subform is observed as a call (vN) of a uniquely named function: vN must occur as a Name in the compiled AST"]
    chk.prove("Props/C11.v", ["Props/C11.vo"], [])
    thorough = chk.tier == "thorough"
    collector_correspondence(chk, chk.rng, 6000 if thorough else 800)
    slot_oracle(chk, chk.rng, 60 if thorough else 8)
    nary_bool_oracle(chk, chk.rng, thorough)
    falsy_literal_oracle(chk, chk.rng, thorough)
    long_form_unpack_oracle(chk)
    bare_name_probe(chk)
    chk.rule = ("(a) argument lists of length 0-5 mixing forms, #*, #**, keywords in list/set/tuple displays, calls and dicts: "
                "model vs hy_compile slot structure or error; (b) %d templates of core forms, every evaluated position filled "
                "with a unique variable, one position per round replaced by #*, #** or a statement-producing do: each variable "
                "must occur in the compiled AST unless compilation raised a Hy error; (c) and/or of arity 3-5 with one or two "
                "statement-producing operands (do, if with statements, setv) in every position, the other operands unique "
                "calls, in six contexts (bare, call argument, #* in a display, setv value, function body, if branch): every "
                "leaf must occur in the compiled AST; non-trivial = compiled / list of >= 2"
                % len(TEMPLATES))
