"""C35 -- Macro lookup and require follow the documented namespaces."""
import json
import os
import re
import sys
import types
import warnings

from lib import vlib
from props import macro_common as mcm
from translator import macro_lookup

META = {
    "technique": "Coq proofs over a model of the compiler's macro namespaces (lookup = interpretation of the chain "
                 "regenerated from macroexpand; scopes = the regenerated local_state context manager run around "
                 "arbitrary nested, possibly failing bodies; require = model of hy.macros.require over the "
                 "regenerated assignment_shape table), for every history; model-vs-hy differential run and a "
                 "lexical-scoping oracle on generated histories executed by the real compiler",
    "level_text": "Theorems in coq/Props/C35.v hold for every compiler state and every history of top-level forms "
                  "(any nesting depth, any number of definitions/requires/pragmas/failures): first-match lookup in "
                  "the documented order, scope exit restores the local-state stack on normal and exceptional exit, "
                  "the mutable stack machine equals the lexical semantics, require brings exactly the listed / "
                  "exported names, a prefixed require brings every macro of the module under <prefix>.<name>, "
                  "warning iff core name and no enclosing pragma disabled it. The model is tied to the source by three regenerated tables and by executing "
                  "generated histories on hy itself.",
    "level_note": "Trusted: Coq kernel; translator/macro_lookup.py; the hand-written parts of the model "
                  "(compile_macro_def's local/global choice, hy.macros.require's loop, warn_on_core_shadow) are tied "
                  "by differential execution only; mangling of names is outside the model (names are mangled names); "
                  "self-require, relative module names and hy.R one-shot requires are not modelled.",
}

TRUSTED = [
    "Coq 8.16.1 kernel (coqc, full .vo); vm_compute for the witness and the example; no native_compute",
    "axioms: none (Print Assumptions: Closed under the global context for every C35 theorem)",
    "translator/macro_lookup.py: lookup chain of macroexpand, assignment_shape table, compile_require's prefixed "
    "override, local_state/new_local_state/"
    "is_in_local_state/get_local_option shapes (fail-closed, regenerated on every run)",
    "hand-written model MacroNS/LookupModel.v, RequireModel.v, LookupMachine.v of compile_macro_def, compile_pragma, "
    "warn_on_core_shadow, hy.macros.require, compile_require: tied by differential execution (vm_compute of the "
    "model vs the real compiler on generated histories), not verified against the source text",
    "the harness: rendering of histories to Hy source, temp modules under /var/tmp/hyverif.c35.*, decoding of "
    "expansion results and warnings",
]

CORE = {"when": (1, "1 2 3", 3), "cond": (2, "1 2 3 4", 2), "assert": (3, "1 2", None)}

# source modules: name -> (macro names in definition order, _hy_export_macros or None)
SRC = [
    ("hvs_a", ["ma", "mb", "m_d", "_pa", "when"], None),
    ("hvs_b", ["ma", "mc", "cond", "_pc"], ["mc", "cond", "_pc", "nomacro"]),
    ("hvs_e", ["mb", "md"], []),
    ("hvs_n", [], None),
    ("hvs_pkg", [], None),
    ("hvs_pkg.sub1", ["ma", "_pb"], None),
    ("hvs_pkg.sub2", [], None),
    ("hvs_pkg.sub3", ["mc", "assert"], ["nothing"]),
]
PLAIN = ["ma", "mb", "mc", "m_d", "md", "_pa", "_pc", "_pb", "when", "cond", "assert", "zz"]
DEFNAMES = ["ma", "mb", "mc", "m_d", "when", "cond", "assert", "md", "_pa"]
ALIASES = ["A", "B", "m_x"]


def src_mid():
    out, i = {}, 10
    for mod, macs, _ in SRC:
        for k in macs:
            out[(mod, k)] = i
            i += 1
    return out


SRC_MID = src_mid()
EXTRA_MID = {n: 60 + i for i, n in enumerate(PLAIN + ["A.ma"])}


def hy_spelling(n, rng):
    """an unmangled spelling of a mangled name"""
    parts = []
    for p in n.split("."):
        lead = len(p) - len(p.lstrip("_"))
        body = p[lead:]
        if "_" in body and rng.random() < 0.6:
            body = body.replace("_", "-")
        parts.append(p[:lead] + body)
    return ".".join(parts)


def module_files():
    files = {"hvs_boom.hy": '(defmacro _boom [] (raise (ValueError "boom")))\n'}
    for mod, macs, exports in SRC:
        text = "".join('(defmacro %s [#* a] "S:%s:%s")\n' % (k.replace("m_d", "m-d"), mod, k) for k in macs)
        if exports is not None:
            text += "(setv _hy_export_macros [%s])\n" % " ".join('"%s"' % e for e in exports)
        if not macs:
            text += "(setv x 1)\n"
        rel = mod.replace(".", "/")
        if mod == "hvs_pkg":
            rel += "/__init__"
        files[rel + ".hy"] = text
    return files


# ------------------------------------------------------------------ generator

class Gen:
    def __init__(self, rng, mode, maxdepth):
        self.rng, self.mode, self.maxdepth = rng, mode, maxdepth
        self.ncall = 0
        self.ndef = 100
        self.qualified = []
        self.local_pkg = False
        self.defined = []          # names defined so far, anywhere (biases later definitions, calls and extras)

    def name_for_call(self):
        r = self.rng
        if self.qualified and r.random() < 0.3:
            return r.choice(self.qualified)
        if self.defined and r.random() < 0.5:
            return r.choice(self.defined)
        return r.choice(PLAIN)

    def call(self, n=None):
        self.ncall += 1
        return ("call", self.ncall, n or self.name_for_call())

    def require(self, depth):
        r = self.rng
        x = r.random()
        if x < 0.08:
            mod = r.choice(["hvs_n", "hvs_zz"])
        elif x < 0.3:
            mod = "hvs_pkg"
        elif x < 0.4:
            mod = "hvs_pkg.sub1"
        else:
            mod = r.choice(["hvs_a", "hvs_a", "hvs_b", "hvs_b", "hvs_e"])
        macs = dict((m, k) for m, k, _ in SRC).get(mod, [])
        y = r.random()
        if mod == "hvs_pkg" and y < 0.8:
            ents = []
            for _ in range(r.randrange(1, 3)):
                sub = r.choice(["sub1", "sub1", "sub2", "sub3", "nosub"] if r.random() < 0.3 else ["sub1", "sub2", "sub3"])
                al = r.choice([None, None, "S", "A"])
                ents.append((sub, al))
                pre = al or sub
                for k in dict((m, k) for m, k, _ in SRC).get("hvs_pkg." + sub, []):
                    self.qualified.append(pre + "." + k)
            if depth > 0:
                self.local_pkg = True
            return ("req", mod, ("list", ents))
        if y < 0.25:
            for k in macs:
                self.qualified.append(mod + "." + k)
            return ("req", mod, ("bare",))
        if y < 0.45:
            return ("req", mod, ("star",))
        if y < 0.65:
            al = r.choice(ALIASES)
            for k in macs:
                self.qualified.append(al + "." + k)
            return ("req", mod, ("as", al))
        ents = []
        for _ in range(r.randrange(0, 4)):
            pool = macs if (macs and r.random() < 0.93) else ["nosuch"]
            k = r.choice(pool)
            al = r.choice([None, None, None] + PLAIN[:8])
            ents.append((k, al))
        return ("req", mod, ("list", ents))

    def item(self, depth):
        r = self.rng
        x = r.random()
        if x < 0.27:
            self.ndef += 1
            n = r.choice(self.defined) if (self.defined and r.random() < 0.45) else r.choice(DEFNAMES)
            self.defined.append(n)
            return ("def", n, self.ndef)
        if x < 0.55:
            return self.call()
        if x < 0.72:
            return self.require(depth)
        if x < 0.80:
            return ("pragma", r.random() >= 0.6)
        if x < 0.84 and self.mode == "B" and depth > 0:
            return ("fail",)
        if x < 0.88:
            return self.vscope()
        if depth < self.maxdepth:
            kind = r.choice(["defn", "fn", "defclass", "lfor"])
            body = [self.item(depth + 1) for _ in range(r.randrange(0, 6))]
            return ("scope", kind, body)
        return self.call()

    def vscope(self, n=None):
        """a let / named except body: definitions and requires that cannot fail, and calls"""
        r = self.rng
        body = []
        for _ in range(r.randrange(1, 4)):
            x = r.random()
            if x < 0.45 or (n and not body):
                self.ndef += 1
                nm = n or (r.choice(self.defined) if (self.defined and r.random() < 0.4) else r.choice(DEFNAMES))
                self.defined.append(nm)
                body.append(("def", nm, self.ndef))
            elif x < 0.65:
                body.append(r.choice([("req", "hvs_a", ("list", [("ma", None), ("mb", "mc")])), ("req", "hvs_b", ("star",)),
                                      ("req", "hvs_e", ("as", "A")), ("req", "hvs_a", ("list", [("when", None)]))]))
            else:
                body.append(self.call(n))
        return ("vscope", r.choice(["let", "except"]), body)

    def history(self):
        r = self.rng
        forms = [self.item(0) for _ in range(r.randrange(2, 8))]
        if self.mode == "B" and r.random() < 0.5:
            forms.insert(r.randrange(len(forms) + 1), ("scope", "defn", [self.item(1), ("fail",)]))
        if r.random() < 0.3:
            # the same name defined at module level and in two nested scopes, called at every level
            n = r.choice(DEFNAMES)
            kinds = ["defn", "fn", "defclass", "lfor"]

            def d():
                self.ndef += 1
                self.defined.append(n)
                return ("def", n, self.ndef)
            inner = ("scope", r.choice(kinds), [self.call(n), d(), self.call(n), ("scope", r.choice(kinds), [self.call(n)])])
            outer = ("scope", r.choice(kinds), [d(), self.call(n), inner, self.call(n)])
            nest = ([d()] if r.random() < 0.5 else []) + [outer, self.call(n)]
            k = r.randrange(len(forms) + 1)
            forms[k:k] = nest
        if r.random() < 0.3:
            # a definition inside a MODULE-LEVEL let / except body is a module-level definition: it goes to the
            # module's _hy_macros and a later module-level definition of the same name replaces it
            n = r.choice(DEFNAMES)
            self.ndef += 1
            self.defined.append(n)
            nest = [self.vscope(n), self.call(n), ("def", n, self.ndef), self.call(n)]
            if r.random() < 0.5:
                nest.append(("scope", r.choice(["defn", "fn", "defclass", "lfor"]), [self.vscope(n), self.call(n)]))
                nest.append(self.call(n))
            k = r.randrange(len(forms) + 1)
            forms[k:k] = nest
        if r.random() < 0.35:
            # :warn-on-core-shadow set at two or three nesting levels with different values, core-shadowing
            # definitions and requires under each of them: the innermost enclosing setting decides
            kinds = ["defn", "fn", "defclass", "lfor"]
            b0 = r.random() < 0.5

            def shadow():
                x = r.random()
                if x < 0.5:
                    self.ndef += 1
                    n = r.choice(["when", "cond", "assert"])
                    self.defined.append(n)
                    return ("def", n, self.ndef)
                if x < 0.7:
                    return ("req", "hvs_a", ("list", [("when", None)]))
                if x < 0.85:
                    return ("req", "hvs_b", ("list", [("mc", "cond")]))
                return ("req", "hvs_a", ("star",))
            deepest = ("scope", r.choice(kinds), ([("pragma", b0)] if r.random() < 0.5 else []) + [shadow()])
            inner = ("scope", r.choice(kinds), [shadow()] if r.random() < 0.3 else [])
            inner[2].extend([("pragma", not b0), shadow(), deepest, shadow()])
            if r.random() < 0.6:
                nest = [("pragma", b0), shadow(), inner, shadow()]
            else:
                nest = [("scope", r.choice(kinds), [("pragma", b0), shadow(), inner, shadow()]), shadow()]
            k = r.randrange(len(forms) + 1)
            forms[k:k] = nest
        # calls of each name at the end
        names = list(PLAIN)
        r.shuffle(names)
        tail = [self.call(n) for n in names[: r.randrange(4, len(names) + 1)]]
        tail += [self.call(n) for n in sorted(set(self.qualified))[:6]]
        pool = (self.defined * 3 + PLAIN + ["A.ma"]) if self.defined else PLAIN + ["A.ma"]
        extra = sorted(set(r.choice(pool) for _ in range(r.randrange(1, 4)))) if r.random() < 0.45 else []
        return {"mode": self.mode, "forms": forms + tail, "extra": extra, "local_pkg": self.local_pkg}


# ------------------------------------------------------------------ rendering

class Render:
    def __init__(self, rng):
        self.rng = rng
        self.k = 0

    def call_text(self, n):
        base = n.split(".")[-1] if False else n
        args = CORE[n][1] if n in CORE else "1"
        return '(try (%s %s) (except [e Exception] "NOMACRO"))' % (hy_spelling(base, self.rng), args)

    def item(self, it):
        t = it[0]
        if t == "def":
            return '(defmacro %s [#* a] "D%d")' % (hy_spelling(it[1], self.rng), it[2])
        if t == "call":
            return "(_rec %d %s)" % (it[1], self.call_text(it[2]))
        if t == "pragma":
            return "(pragma :warn-on-core-shadow %s)" % ("True" if it[1] else "False")
        if t == "fail":
            return "(hy.R.hvs_boom._boom)"
        if t == "req":
            mod, sh = it[1], it[2]
            ms = hy_spelling(mod, self.rng)
            if sh[0] == "bare":
                return "(require %s)" % ms
            if sh[0] == "star":
                return "(require %s *)" % ms
            if sh[0] == "as":
                return "(require %s :as %s)" % (ms, hy_spelling(sh[1], self.rng))
            ents = " ".join(hy_spelling(k, self.rng) + (" :as " + hy_spelling(a, self.rng) if a else "") for k, a in sh[1])
            return "(require %s [%s])" % (ms, ents)
        if t == "vscope":
            body = " ".join(self.item(x) for x in it[2])
            if it[1] == "let":
                return "(let [_v 1] %s None)" % body
            return '(try (raise (ValueError "x")) (except [_e ValueError] %s None))' % body
        if t == "scope":
            self.k += 1
            body = " ".join(self.item(x) for x in it[2])
            kind = it[1]
            if kind == "defn":
                return "(do (defn _f%d [] %s) (_f%d))" % (self.k, body, self.k)
            if kind == "fn":
                return "((fn [] %s))" % body
            if kind == "defclass":
                return "(defclass _C%d [] %s)" % (self.k, body)
            return "(lfor _ [0] (do %s None))" % body
        raise ValueError(t)


# ------------------------------------------------------------------ Coq terms

def coq_item(it):
    t = it[0]
    if t == "def":
        return "IDef %s %d%%N" % (mcm.coq_name(it[1]), it[2])
    if t == "call":
        return "ICall %d%%N %s" % (it[1], mcm.coq_name(it[2]))
    if t == "pragma":
        return "IPragma %s" % ("true" if it[1] else "false")
    if t == "fail":
        return "IFail"
    if t == "req":
        sh = it[2]
        if sh[0] == "bare":
            s = "RBare"
        elif sh[0] == "star":
            s = "RStar"
        elif sh[0] == "as":
            s = "(RAs %s)" % mcm.coq_name(sh[1])
        else:
            s = "(RList %s)" % mcm.coq_list(
                ["(%s, %s)" % (mcm.coq_name(k), "Some " + mcm.coq_name(a) if a else "None") for k, a in sh[1]],
                "(list N * option (list N))")
        return "IReq %s %s" % (mcm.coq_name(it[1]), s)
    if t == "scope":
        return "IScope %s" % mcm.coq_list(["(%s)" % coq_item(x) for x in it[2]], "item")
    raise ValueError(t)


def coq_defs():
    core = mcm.coq_ns([(n, v[0]) for n, v in CORE.items()])
    env = mcm.coq_list(
        ["(%s, mkSrc %s %s)" % (mcm.coq_name(mod), mcm.coq_ns([(k, SRC_MID[(mod, k)]) for k in macs]),
                                "None" if ex is None else "(Some %s)" % mcm.coq_list([mcm.coq_name(e) for e in ex], "(list N)"))
         for mod, macs, ex in SRC], "(list N * srcmod)")
    return "Definition hcore : ns := %s.\nDefinition henv : srcenv := %s.\n" % (core, env)


SENT = 1000000


def flatten(items):
    """`let` and `except` bodies open a variable scope but NOT a macro scope: for the macro namespaces their
    items belong to the enclosing block"""
    out = []
    for it in items:
        if it[0] == "vscope":
            out.extend(flatten(it[2]))
        elif it[0] == "scope":
            out.append(("scope", it[1], flatten(it[2])))
        else:
            out.append(it)
    return out


def with_sentinels(forms):
    out = []
    for j, f in enumerate(forms):
        out.extend(flatten([f]))
        out.append(("call", SENT + j, "hvnone"))
    return out


def coq_expr(h, probes):
    forms = mcm.coq_list(["(%s)" % coq_item(x) for x in with_sentinels(h["forms"])], "item")
    extra = mcm.coq_ns([(n, EXTRA_MID[n]) for n in h["extra"]])
    return "observe hcore henv %s (@nil (list N * N)) %s %s" % (
        extra, forms, mcm.coq_list([mcm.coq_name(p) for p in probes], "(list N)"))


def parse_model(ns, nforms, nprobes):
    """-> per-form records, probe results, final stack depth"""
    i = 0
    recs = [{"warn": [], "calls": {}, "reqerr": False, "abort": False} for _ in range(nforms)]
    cur = 0
    while ns[i] != 9:
        tag = ns[i]
        if tag == 1:
            ln = ns[i + 1]
            recs[cur]["warn"].append("".join(chr(c) for c in ns[i + 2:i + 2 + ln]))
            i += 2 + ln
        elif tag == 2:
            cid, r = ns[i + 1], ns[i + 2]
            if cid >= SENT:
                cur = cid - SENT + 1
            else:
                recs[cur]["calls"][cid] = None if r == 0 else r - 1
            i += 3
        elif tag == 3:
            recs[cur]["reqerr"] = True
            i += 1
        elif tag == 4:
            recs[cur]["abort"] = True
            i += 1
        else:
            raise RuntimeError("bad model output")
    i += 1
    probes = [None if x == 0 else x - 1 for x in ns[i:i + nprobes]]
    i += nprobes
    assert ns[i] == 9
    return recs, probes, ns[i + 1]


# ------------------------------------------------------------------ the documented semantics (oracle reference)

UNKNOWN = "?"


class Spec:
    """Lexical scoping + the documented require sets, straight from the docs."""

    def __init__(self, extra):
        self.extra = {n: (EXTRA_MID[n], None) for n in extra}
        self.modns = {}
        self.src = {m: (k, e) for m, k, e in SRC}

    def lookup(self, env, n):
        for d in [self.extra] + [f["macros"] for f in env] + [self.modns]:
            if n in d:
                return d[n]
        if n in CORE:
            return (CORE[n][0], None)
        return (None, None)

    def warn_on(self, env):
        for f in env:
            if f["warn"] is not None:
                return f["warn"]
        return True

    def exported(self, mod):
        macs, ex = self.src[mod]
        return [k for k in macs if (k in ex if ex is not None else not k.startswith("_"))]

    def require(self, env, target, mod, sh, rec):
        if mod not in self.src:
            return "HyRequireError"
        macs, ex = self.src[mod]
        new = []
        if not macs:
            if sh[0] != "list":
                return None
            for sub, al in sh[1]:
                full = mod + "." + sub
                if full not in self.src:
                    for sub2, al2 in sh[1]:
                        for k in self.src.get(mod + "." + sub2, ([], None))[0]:
                            target[(al2 or sub2) + "." + k] = (UNKNOWN, None)
                    return "HyRequireError"
                for k in self.src[full][0]:
                    target[(al or sub) + "." + k] = (SRC_MID[(full, k)], {"shape": "package", "mod": full, "name": k})
            return None
        if sh[0] == "list":
            for k, al in sh[1]:
                if k not in macs:
                    for k2, al2 in sh[1]:
                        target[al2 or k2] = (UNKNOWN, None)
                    rec["warn_unjudged"] = True
                    return "HyRequireError"
            for k, al in sh[1]:
                new.append((al or k, (SRC_MID[(mod, k)], {"shape": "list", "mod": mod, "name": k})))
        elif sh[0] == "star":
            for k in self.exported(mod):
                new.append((k, (SRC_MID[(mod, k)], {"shape": "star", "mod": mod, "name": k})))
        else:
            pre = mod if sh[0] == "bare" else sh[1]
            expd = self.exported(mod)
            for k in macs:       # documented: every macro foo in mymodule -> mymodule.foo
                new.append((pre + "." + k, (SRC_MID[(mod, k)], {"shape": sh[0], "mod": mod, "name": k,
                                                                "exported": k in expd})))
        for n, b in new:
            if n in CORE and self.warn_on(env):
                rec["warn"].append(n)
            target[n] = b
        return None

    def items(self, items, env, rec):
        for it in items:
            t = it[0]
            depth = len(env) - 1
            target = env[0]["macros"] if depth > 0 else self.modns
            if t == "def":
                if it[1] in CORE and self.warn_on(env):
                    rec["warn"].append(it[1])
                target[it[1]] = (it[2], None)
            elif t == "call":
                rec["calls"][it[1]] = self.lookup(env, it[2])
            elif t == "pragma":
                env[0]["warn"] = it[1]
            elif t == "fail":
                return "HyMacroExpansionError"
            elif t == "req":
                e = self.require(env, target, it[1], it[2], rec)
                if e:
                    return e
            elif t == "scope":
                e = self.items(it[2], [{"macros": {}, "warn": None}] + env, rec)
                if e:
                    return e
        return None

    def run(self, forms):
        env = [{"macros": {}, "warn": None}]
        out = []
        for f in forms:
            rec = {"warn": [], "calls": {}, "exc": None, "warn_unjudged": False}
            rec["exc"] = self.items(flatten([f]), env, rec)
            out.append(rec)
        return out


# ------------------------------------------------------------------ running the real compiler

WARN_RE = re.compile(r"New macro `(.+)` will shadow the core macro of the same name")


class Real:
    def __init__(self, hy):
        self.hy = hy
        self.n = 0
        self.tag2mid = {"S:%s:%s" % (m, k): v for (m, k), v in SRC_MID.items()}
        self.tag2mid.update({"X:" + n: v for n, v in EXTRA_MID.items()})

    def decode(self, name, v):
        if isinstance(v, str):
            if v == "NOMACRO":
                return None
            if v.startswith("D") and v[1:].isdigit():
                return int(v[1:])
            if v in self.tag2mid:
                return self.tag2mid[v]
            return ("?", v)
        if name in CORE and v == CORE[name][2] and type(v) is type(CORE[name][2]):
            return CORE[name][0]
        return ("?", repr(v))

    def warns(self, w):
        out = []
        for x in w:
            m = WARN_RE.search(str(x.message))
            if m and issubclass(x.category, RuntimeWarning):
                out.append(self.hy.mangle(m.group(1)))
        return out

    def run(self, h, texts, probes, names_of_calls):
        hy = self.hy
        from hy.compiler import HyASTCompiler, hy_eval
        self.n += 1
        mname = "hvt_%d" % self.n
        m = types.ModuleType(mname)
        sys.modules[mname] = m
        raw = {}

        def rec(i, v):
            raw[i] = v
            return v
        m.__dict__["_rec"] = rec

        def mk(tag):
            return lambda *a: hy.models.String(tag)
        extra = {n: mk("X:" + n) for n in h["extra"]}
        recs = []
        try:
            if h["mode"] == "A":
                with warnings.catch_warnings(record=True) as w:
                    warnings.simplefilter("always")
                    exc = None
                    try:
                        hy.eval(hy.read_many("\n".join(texts)), module=m, macros=extra)
                    except Exception as e:
                        exc = type(e).__name__
                recs.append({"warn": self.warns(w), "exc": exc})
            else:
                comp = HyASTCompiler(m, extra_macros=extra)
                for t in texts:
                    with warnings.catch_warnings(record=True) as w:
                        warnings.simplefilter("always")
                        exc = None
                        try:
                            hy_eval(hy.read(t), locals=m.__dict__, module=m, compiler=comp)
                        except Exception as e:
                            exc = type(e).__name__
                    recs.append({"warn": self.warns(w), "exc": exc})
                recs.append({"depth": len(comp.local_state_stack)})
            calls = {i: self.decode(names_of_calls[i], v) for i, v in raw.items()}
            pr = []
            rd = Render(__import__("random").Random(0))
            for p in probes:
                with warnings.catch_warnings():
                    warnings.simplefilter("ignore")
                    try:
                        v = hy.eval(hy.read(rd.call_text(p)), module=m)
                        pr.append(self.decode(p, v))
                    except Exception as e:
                        pr.append(("?", type(e).__name__))
        finally:
            sys.modules.pop(mname, None)
        return recs, calls, pr


def call_names(forms, out=None):
    out = {} if out is None else out
    for it in forms:
        if it[0] == "call":
            out[it[1]] = it[2]
        elif it[0] in ("scope", "vscope"):
            call_names(it[2], out)
    return out


def has_local_pkg_require(it, depth=0):
    if it[0] == "req" and it[1] == "hvs_pkg" and it[2][0] == "list" and depth > 0:
        return any(dict((m, k) for m, k, _ in SRC).get("hvs_pkg." + s) for s, _ in it[2][1])
    if it[0] == "scope":
        return any(has_local_pkg_require(x, depth + 1) for x in it[2])
    if it[0] == "vscope":
        return any(has_local_pkg_require(x, depth) for x in it[2])
    return False


# ------------------------------------------------------------------ the check

# ------------------------------------------------------------------ relative module names (oracle only; not in the model)

REL_LEAVES = ["hvr.sib", "hvr.a.b", "hvr.a.c.d", "hvr.inner.sib", "hvr.inner.deep.sib"]
REL_PKGS = ["hvr", "hvr.a", "hvr.a.c", "hvr.inner", "hvr.inner.deep"]


def relative_cases():
    """(requiring package, dots, path segments, via_list, target module)"""
    cases = []
    for pkg in ["hvr", "hvr.inner", "hvr.inner.deep", "hvr.a"]:
        comps = pkg.split(".")
        for dots in range(1, len(comps) + 1):
            base = comps[: len(comps) - (dots - 1)]
            for leaf in REL_LEAVES:
                lc = leaf.split(".")
                if lc[: len(base)] != base:
                    continue
                path = lc[len(base):]
                cases.append((pkg, dots, path, False, leaf))
                cases.append((pkg, dots, path, True, leaf))
    return cases


def relative_files(cases):
    files = {}
    for p in REL_PKGS:
        files[p.replace(".", "/") + "/__init__.hy"] = ""
    for leaf in REL_LEAVES:
        files[leaf.replace(".", "/") + ".hy"] = '(defmacro m [] "%s")\n' % leaf
    texts = []
    for k, (pkg, dots, path, via_list, leaf) in enumerate(cases):
        if via_list:
            form = "(require %s%s [%s :as S])" % ("." * dots, ".".join(path[:-1]), path[-1])
            text = form + " (setv v (S.m))\n"
        else:
            form = "(require %s%s [m])" % ("." * dots, ".".join(path))
            text = form + " (setv v (m))\n"
        files["%s/rq%d.hy" % (pkg.replace(".", "/"), k)] = text
        texts.append(form)
    return files, texts


def relative_requires(chk, root):
    import importlib
    cases = relative_cases()
    files, texts = relative_files(cases)
    mcm.write_modules(root, files)
    importlib.invalidate_caches()
    for k, ((pkg, dots, path, via_list, leaf), form) in enumerate(zip(cases, texts)):
        segs = len(path) - (1 if via_list else 0)
        modname = "%s.rq%d" % (pkg, k)
        with warnings.catch_warnings():
            warnings.simplefilter("ignore")
            try:
                got = importlib.import_module(modname).v
            except Exception as e:
                got = "%s: %s" % (type(e).__name__, str(e)[:80])
        chk.count("relative:dots%d-segments%d%s" % (dots, segs, "-list" if via_list else ""))
        chk.case("rel:" + modname + form, nontrivial=True,
                 sample={"in_package": pkg, "form": form, "target": leaf} if k % 25 == 3 else None)
        if got != leaf:
            chk.fail("relative-module-name", {"in_package": pkg, "form": form, "dots": dots, "segments": segs}, got, leaf,
                     "a package tree as written by props/c35.py:relative_files; module %s contains: %s; "
                     "PYTHONPATH=%s:<root> python -c 'import hy, %s'" % (modname, form, vlib.REPO, modname))


def m_local_package(rec, params):
    return rec["key"] == "local-package-require-runtime-error" and rec["observed"] == "HyRequireError"


# former failing inputs (fixed by repo commits 2d979da and 9d3eea4 resp. still open), run first on every run
CORPUS = [
    {"mode": "A", "extra": [], "local_pkg": False, "forms": [
        ("req", "hvs_a", ("as", "B")), ("req", "hvs_e", ("bare",)), ("req", "hvs_b", ("bare",)),
        ("call", 1, "B._pa"), ("call", 2, "B.ma"), ("call", 3, "hvs_e.mb"), ("call", 4, "hvs_e.md"),
        ("call", 5, "hvs_b.ma"), ("call", 6, "hvs_b._pc"), ("call", 7, "_pa"), ("call", 8, "ma")]},
    {"mode": "B", "extra": [], "local_pkg": False, "forms": [
        ("scope", "defn", [("req", "hvs_b", ("as", "A")), ("call", 1, "A.ma"), ("call", 2, "A.mc"), ("call", 3, "A._pc")]),
        ("req", "hvs_b", ("star",)), ("call", 4, "ma"), ("call", 5, "mc"), ("call", 6, "A.ma"),
        ("req", "hvs_a", ("bare",)), ("call", 7, "hvs_a._pa"), ("call", 8, "hvs_a.when")]},
    {"mode": "B", "extra": [], "local_pkg": False, "forms": [
        ("pragma", True),
        ("scope", "defn", [("pragma", False), ("def", "when", 101), ("req", "hvs_b", ("list", [("mc", "cond")])),
                           ("scope", "fn", [("def", "assert", 102)])]),
        ("def", "when", 103),
        ("pragma", False),
        ("scope", "defclass", [("pragma", True), ("def", "cond", 104), ("scope", "lfor", [("req", "hvs_a", ("list", [("when", None)]))])]),
        ("def", "assert", 105)]},
    {"mode": "A", "extra": [], "local_pkg": False, "forms": [
        ("pragma", False),
        ("scope", "fn", [("pragma", True), ("def", "when", 101), ("scope", "defn", [("pragma", False), ("def", "cond", 102)]),
                         ("def", "assert", 103)]),
        ("def", "cond", 104)]},
    {"mode": "A", "extra": [], "local_pkg": False, "forms": [
        ("vscope", "let", [("def", "ma", 101)]), ("call", 1, "ma"), ("def", "ma", 102), ("call", 2, "ma"),
        ("vscope", "except", [("req", "hvs_a", ("list", [("mb", None)])), ("call", 3, "mb")]), ("def", "mb", 103), ("call", 4, "mb")]},
    {"mode": "B", "extra": [], "local_pkg": True, "forms": [
        ("scope", "defn", [("req", "hvs_pkg", ("list", [("sub1", None)])), ("call", 1, "sub1.ma")]), ("call", 2, "sub1.ma")]},
]


def run(chk):
    chk.trusted = TRUSTED
    chk.assumptions = [
        "names in the model are mangled names; the harness spells them with hyphens or underscores at random",
        "a macro scope is what docs/macros.rst says: function, class or comprehension (fn, defn, defclass, lfor)",
        "the documented set of (require m) and (require m :as A) is read from docs/api.rst: every macro of m; "
        "_hy_export_macros (or the no-leading-underscore default) governs (require m *) only (the code agrees since 2d979da)",
        "relative module names in require resolve like Python's relative imports (the code agrees since 9d3eea4)",
        "after a require that raises HyRequireError the names it listed are not judged (their state is undocumented)",
        "observation: each call site evaluates to a string naming the macro definition it expanded with; "
        "core macros are recognised by their value; a call that is not a macro call evaluates to a marker",
    ]
    chk.matchers["local-package-require-runtime-error"] = m_local_package
    chk.prove("Props/C35.v", ["Props/C35.vo", "MacroNS/LookupEncode.vo"], [macro_lookup.translate])
    thorough = chk.tier == "thorough"
    n_hist = 6000 if thorough else 400
    chk.rule = ("history = 2-7 generated top-level forms (defmacro / require in 5 shapes incl. package path and missing "
                "names / pragma / call / failing form / scope of kind defn|fn|defclass|lfor nested to depth %d) over 12 "
                "plain and the arising qualified names, 8 source modules on disk, optional hy.eval macros dict, then "
                "calls of the names; mode A = hy.eval(hy.read_many(..), macros=..) in one go, mode B = one compiler "
                "fed form by form with failing forms in between, then probes with a fresh compiler; non-trivial = "
                "distinct history with at least one scope or require and at least one call resolved to a user macro"
                % (4 if thorough else 3))
    root = mcm.temp_dir("c35")
    try:
        mcm.write_modules(root, module_files())
        sys.path.insert(0, root)
        sys.dont_write_bytecode = True
        hy = vlib.use_repo_in_process()
        mcm.import_quietly(["hvs_boom"] + [m for m, _, _ in SRC])
        import builtins
        missing = [n for n in CORE if n not in builtins._hy_macros]
        chk.obligation("the core names used by the generator are core macros of this hy (builtins._hy_macros)", not missing, str(missing))
        relative_requires(chk, root)
        real = Real(hy)
        hists, exprs, obs = [], [], []
        probes = ["ma", "mb", "mc", "m_d", "when", "cond", "A.ma", "hvs_a.ma", "_pa"]
        for k in range(n_hist + len(CORPUS)):
            if k < len(CORPUS):
                h = dict(CORPUS[k], forms=list(CORPUS[k]["forms"]))
                chk.count("corpus")
            else:
                mode = "A" if chk.rng.random() < 0.45 else "B"
                g = Gen(chk.rng, mode, 4 if thorough else 3)
                h = g.history()
            rd = Render(chk.rng)
            texts = [rd.item(f) for f in h["forms"]]
            h["texts"] = texts
            hists.append(h)
            exprs.append(coq_expr(h, probes))
            obs.append(real.run(h, texts, probes, call_names(h["forms"])))
        outs = vlib.coq_eval(["HyV.MacroNS.LookupEncode"],
                             "Import HyV.Base.Text HyV.MacroNS.LookupModel HyV.MacroNS.RequireModel HyV.MacroNS.LookupMachine.\n"
                             + coq_defs(), exprs, tag="c35", shard=60)
        for h, o, (recs, calls, pr) in zip(hists, outs, obs):
            judge(chk, h, parse_model(mcm.nums(o), len(h["forms"]), len(probes)), recs, calls, pr, probes)
    finally:
        if root in sys.path:
            sys.path.remove(root)
        mcm.cleanup()


def how(h):
    return ("PYTHONPATH=%s python: write props/c35.py:module_files() to a directory on sys.path; mode %s; extra=%r; forms:\n%s"
            % (vlib.REPO, h["mode"], h["extra"], "\n".join(h["texts"])))


def judge(chk, h, model, recs, calls, pr, probes):
    mrecs, mprobes, mdepth = model
    forms = h["forms"]
    inp = {"mode": h["mode"], "extra": h["extra"], "source": h["texts"]}
    spec = Spec(h["extra"])
    srecs = spec.run(forms)
    names = call_names(forms)
    chk.count("mode:" + h["mode"])
    chk.count("extra:%d" % len(h["extra"]))
    flat = json.dumps(forms)
    for kind in ("scope", "req", "fail", "pragma"):
        if '"%s"' % kind in flat:
            chk.count("has:" + kind)
    # ---- which forms really ran
    if h["mode"] == "A":
        first_abort = next((j for j, r in enumerate(mrecs) if r["abort"]), None)
        m_warn = [w for r in (mrecs if first_abort is None else mrecs[:first_abort + 1]) for w in r["warn"]]
        m_exc = None if first_abort is None else ("HyRequireError" if mrecs[first_abort]["reqerr"] else "HyMacroExpansionError")
        r_warn, r_exc = recs[0]["warn"], recs[0]["exc"]
        if r_warn != m_warn or r_exc != m_exc:
            chk.disagree("LookupMachine.run_top vs hy.eval (warnings, exception)", inp, {"warn": m_warn, "exc": m_exc},
                         {"warn": r_warn, "exc": r_exc})
        m_calls = {}
        if first_abort is None:
            for r in mrecs:
                m_calls.update(r["calls"])
        if calls != m_calls and r_exc == m_exc:
            chk.disagree("LookupMachine.run_top vs hy.eval (call resolutions)", inp,
                         {str(k): v for k, v in sorted(m_calls.items())}, {str(k): v for k, v in sorted(calls.items())})
        ran = range(len(forms)) if first_abort is None else []
        real_exc = {j: None for j in ran}
        # oracle on warnings
        s_first = next((j for j, r in enumerate(srecs) if r["exc"]), None)
        s_warn = [w for r in (srecs if s_first is None else srecs[:s_first + 1]) for w in r["warn"]]
        unj = any(r["warn_unjudged"] for r in srecs)
        if not unj and r_warn != s_warn:
            chk.fail("warnings", inp, r_warn, s_warn, how(h))
        s_exc = None if s_first is None else srecs[s_first]["exc"]
        if r_exc != s_exc:
            chk.fail("exception", inp, r_exc, s_exc, how(h))
    else:
        ran = []
        for j, f in enumerate(forms):
            rr, mr, sr = recs[j], mrecs[j], srecs[j]
            m_exc = None if not mr["abort"] else ("HyRequireError" if mr["reqerr"] else "HyMacroExpansionError")
            lp = has_local_pkg_require(f)
            if lp and rr["exc"] == "HyRequireError" and m_exc is None:
                chk.count("local-package-require-crash")
                chk.fail("local-package-require-runtime-error", dict(inp, form=h["texts"][j]), rr["exc"], None, how(h))
                if rr["warn"] != mr["warn"]:
                    chk.disagree("LookupMachine.run_top vs compiler (warnings)", dict(inp, form=j), mr["warn"], rr["warn"])
                continue
            if rr["warn"] != mr["warn"] or rr["exc"] != m_exc:
                chk.disagree("LookupMachine.run_top vs compiler (warnings, exception of one form)", dict(inp, form=j),
                             {"warn": mr["warn"], "exc": m_exc}, {"warn": rr["warn"], "exc": rr["exc"]})
            if not sr["warn_unjudged"] and rr["warn"] != sr["warn"]:
                chk.fail("warnings", dict(inp, form=h["texts"][j]), rr["warn"], sr["warn"], how(h))
            if rr["exc"] != sr["exc"]:
                chk.fail("exception", dict(inp, form=h["texts"][j]), rr["exc"], sr["exc"], how(h))
            if rr["exc"] is None and m_exc is None:
                ran.append(j)
                for cid, v in mr["calls"].items():
                    if calls.get(cid, "missing") != v:
                        chk.disagree("LookupMachine.run_top vs compiler (call resolution)",
                                     dict(inp, call=names[cid], id=cid), v, calls.get(cid, "missing"))
        if recs[-1]["depth"] != mdepth or mdepth != 1:
            chk.disagree("local_state_stack depth after the history", inp, mdepth, recs[-1]["depth"])
            chk.fail("scope-not-popped", inp, recs[-1]["depth"], 1, how(h))
    # ---- oracle on the calls of forms that ran
    user_hits = 0
    for j in ran:
        for cid, (exp, prov) in srecs[j]["calls"].items():
            got = calls.get(cid, "missing")
            if exp == UNKNOWN:
                chk.count("call:unjudged")
                continue
            if isinstance(got, int) and got >= 10:
                user_hits += 1
            chk.count("call:" + ("not-a-macro" if exp is None else "core" if exp < 10 else "source" if exp < 60
                                 else "extra" if exp < 100 else "defmacro"))
            if got != exp:
                key = "lookup"
                if prov and prov.get("shape") in ("bare", "as") and prov.get("exported") is False:
                    key = "require-prefixed-nonexported"
                chk.fail(key, dict(inp, call=names[cid], id=cid, cause=prov), got, exp, how(h))
    # ---- probes with a fresh compiler (module macros persist, local ones do not)
    aborted_a = h["mode"] == "A" and any(r["abort"] for r in mrecs)
    if not aborted_a:
        if pr != mprobes:
            chk.disagree("module macros seen by a fresh compiler", dict(inp, probes=probes), mprobes, pr)
        env = [{"macros": {}, "warn": None}]
        spec.extra = {}
        for p, got in zip(probes, pr):
            exp, prov = spec.lookup(env, p)
            if exp == UNKNOWN:
                continue
            if got != exp:
                key = "lookup-fresh-compiler"
                if prov and prov.get("shape") in ("bare", "as") and prov.get("exported") is False:
                    key = "require-prefixed-nonexported"
                chk.fail(key, dict(inp, call=p, cause=prov), got, exp, how(h))
    nontriv = user_hits > 0 and ('"scope"' in flat or '"req"' in flat)
    chk.case("\n".join(h["texts"]) + repr(h["extra"]) + h["mode"], nontrivial=nontriv,
             sample={"mode": h["mode"], "extra": h["extra"], "forms": h["texts"][:6]} if chk.evaluations % 97 == 3 else None)
