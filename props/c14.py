"""C14 -- hy2py output is valid Python that behaves like the compiled AST."""
import ast
import contextlib
import io
import sys
import types
import unicodedata
import warnings

from lib import vlib
from props import run_gen
from translator import valid_keywords

META = {
    "technique": "Coq theorems about the identifier rewriting (keyword mincing) of hy/compat.py over the interpreter's "
                 "regenerated keyword list and the regenerated mincing constants; differential execution of the unparsed "
                 "source against the compiled AST on generated effectful programs; parse check of ast.unparse on random "
                 "model trees over all core heads; hy2py_worker end-to-end on a sample",
    "level_text": "Theorems (coq/Props/C14.v): for every keyword of the running interpreter except True/False/None the "
                  "rewriting succeeds, yields a non-keyword different from it whose NFKC normal form is the keyword "
                  "(C14_mince_correct_partial), no identifier field is a keyword after rewriting "
                  "(C14_rewrite_leaves_no_keyword), the rewriting never raises (C14_rewrite_total) and re-parsing gives the "
                  "original identifier (C14_rewrite_normalises_back). Each run: every generated program's unparsed source "
                  "parses, and exec of that source vs exec of the compiled AST agree on effect log, escaping exception "
                  "type and final globals; ast.parse(ast.unparse(a)) on every tree the C10 generator compiles.",
    "level_note": "Partial: that CPython's ast.unparse/parser round-trip on the ASTs hy emits, and behaviour equality, are "
                  "decided dynamically only; `printable` for whole ASTs is not modelled. NFKC on the bold letters is a "
                  "hypothesis validated exhaustively here. Trusted: Coq kernel, translator/valid_keywords.py, harness.",
}

TRUSTED = [
    "Coq 8.16.1 kernel; vm_compute over Gen/Keywords.v",
    "axioms: none",
    "translator/valid_keywords.py: keyword.kwlist of the running interpreter and the mincing expression / exclusions / "
    "guard of hy/compat.py:rewriting_unparse (fail-closed)",
    "hypothesis nfkc_bold (NFKC maps a mathematical bold small letter followed by ASCII to the plain letter): validated "
    "here for all 26 letters with every keyword tail and random ASCII tails",
    "CPython's ast.unparse / parser / compile as executed by the oracle",
]


def validate_nfkc_bold(chk):
    import keyword
    try:
        x = valid_keywords.extract(vlib.REPO)
    except Exception as e:       # the tie is broken: still compare the real unparse with the last known constants
        chk.notes.append("mincing constants not regenerated (%s); using the defaults" % type(e).__name__)
        x = {"exclusions": ["True", "False", "None"], "from": 97, "to": 0x1D41A, "lists": True, "neg_types": ["int", "float"]}
    bad = []
    tails = sorted({k[1:] for k in keyword.kwlist} | {"", "_", "x1", "Z_9", "~!"})
    for c in "abcdefghijklmnopqrstuvwxyz":
        for t in tails:
            m = chr(ord(c) - x["from"] + x["to"]) + t
            if unicodedata.normalize("NFKC", m) != c + t:
                bad.append(m)
    chk.obligation("hypothesis nfkc_bold holds in this interpreter (26 letters x %d ASCII tails)" % len(tails), not bad, repr(bad[:5]))
    # the model's mince against the real rewriting, for every keyword
    import hy.compat  # noqa
    for k in keyword.kwlist + keyword.softkwlist + ["x", "If", "iff", "None_"]:
        a = ast.parse("zq = 1")
        a.body[0].targets[0].id = k
        try:
            out = ast.unparse(a).split(" = ")[0]
        except Exception as e:
            out = "raises " + type(e).__name__
        if k in keyword.kwlist and k not in x["exclusions"]:
            want = chr(ord(k[0]) - x["from"] + x["to"]) + k[1:]
        else:
            want = k
        chk.count("corr:mince-vs-real-unparse")
        chk.case(("mince", k), nontrivial=(want != k))
        if out != want:
            chk.disagree("Valid.Mince.rewrite_ident (as evaluated by the harness) vs ast.unparse after hy.compat", k, want, out)
        # list-of-strings fields (Global.names): minced iff the regenerated flag says so
        g = ast.Module(body=[ast.Global(names=[k, "zq"])], type_ignores=[])
        try:
            out2 = ast.unparse(g)
        except Exception as e:
            out2 = "raises " + type(e).__name__
        want2 = "global %s, zq" % (want if x["lists"] else k)
        chk.count("corr:mince-list-field-vs-real-unparse")
        if out2 != want2:
            chk.disagree("Valid.Mince.rewrite_field (list of names) vs ast.unparse after hy.compat", k, want2, out2)
    # negative constants: the model's negconst against the real transformation
    for v, kind in ((-2, "int"), (-1.5, "float"), (-0.0, "float"), (float("-inf"), "float"), (-2j, "complex"), (2, "int"), (0.0, "float")):
        e = ast.Expression(body=ast.BinOp(left=ast.Constant(v), op=ast.Pow(), right=ast.Constant(2)))
        out = ast.unparse(e)
        import math
        neg = math.copysign(1, v.imag if kind == "complex" else v) < 0
        handled = kind in x["neg_types"]
        left = ast.parse(out, mode="eval").body.left
        wrapped = isinstance(left, ast.UnaryOp) and isinstance(left.op, ast.USub) and isinstance(left.operand, ast.Constant)
        chk.count("corr:negconst-vs-real-unparse")
        chk.case(("negconst", repr(v)), nontrivial=neg)
        if wrapped != (neg and handled):
            chk.disagree("Valid.Mince.negconst vs ast.unparse after hy.compat", repr(v), "parenthesised negation: %s" % (neg and handled), out)
        if neg and handled:
            try:
                same = repr(eval(out)) == repr(v ** 2)
            except Exception:
                same = False
            if not same:
                chk.fail("negative-constant-printed-with-another-value", {"python": out, "constant": repr(v)}, out, repr(v ** 2), "ast.unparse of BinOp(Constant(v), Pow, Constant(2))")


# ------------------------------------------------------------------ known defects of the unchanged tree

def _bad_line(rec):
    """the line of the printed Python that the parser rejects"""
    import re
    py = rec.get("input", {}).get("python", "")
    m = re.search(r"line (\d+)", str(rec.get("observed")))
    lines = py.splitlines()
    if m and 0 < int(m.group(1)) <= len(lines):
        return lines[int(m.group(1)) - 1].strip()
    return ""


def _parse_failure(rec):
    return rec.get("key", "").startswith(("unparsed-source-does-not-parse:SyntaxError", "hy2py-output-does-not-parse"))


def _kw_alt():
    import keyword
    return "|".join(k for k in keyword.kwlist if k not in ("True", "False", "None"))


def global_keyword_matcher(rec, params):
    """fields that hold a *list* of names are not minced: `global <kw>` / `nonlocal <kw>` / `case C(<kw>=...)`"""
    import re
    if not _parse_failure(rec):
        return False
    line = _bad_line(rec)
    if re.search(r"^(global|nonlocal) (\w+, )*(%s)(, \w+)*$" % _kw_alt(), line):
        return True
    return line.startswith("case ") and re.search(r"[(,] ?(%s)=" % _kw_alt(), line) is not None


def class_kwd_unmangled_matcher(rec, params):
    """class-pattern keyword attributes are printed unmangled (C34's finding seen through hy2py): `case C(a-b=1)`, `case C(=x)`"""
    import re
    if not _parse_failure(rec):
        return False
    line = _bad_line(rec)
    return line.startswith("case ") and re.search(r"[(,] ?(=|[^\s(),=]*[^\w\s(),=.'\"\[\]{}:|*][^\s(),=]*=)", line) is not None


def constant_name_matcher(rec, params):
    """an identifier field named None/True/False (attribute, global, keyword argument, parameter, import, function or class
    name) cannot be written in Python"""
    import re
    if not _parse_failure(rec):
        return False
    line = _bad_line(rec)
    c = "(None|True|False)"
    if re.match(r"^(async def|def|class) %s\b" % c, line):      # (setx \uff2eone (defn f [] 1)): Result.rename names the function None
        return True
    return re.search(r"\.%s\b|\b%s=|^(global|nonlocal|import) (\w+, )*%s\b|\bas %s\b|^def \w+\([^)]*\b%s\b|lambda [^:]*\b%s\b" % ((c,) * 6), line) is not None


def negative_imaginary_matcher(rec, params):
    """a negative *imaginary* literal is still compiled to Constant(-nj) and printed without parentheses (NegativeConstants
    handles int and float only): `-1j ** 2`, `-2j.conjugate()`, `-1j.real`"""
    import re
    pat = r"(?<![\w.)\]])-\d[\d_.]*(e[+-]?\d+)?j(\s*\*\*|\s*\.\s*[A-Za-z_]|\[)"
    py = rec.get("input", {}).get("python", "")
    if rec.get("key", "").startswith("behaviour-differs:"):
        return re.search(pat, py) is not None
    if _parse_failure(rec):
        return re.search(pat, _bad_line(rec)) is not None
    return False


def starred_annotation_matcher(rec, params):
    """#^ (unpack-iterable x) as a parameter or return annotation: compile() accepts Starred there, the printed `def f(a: *x)` / `-> *x` does not parse"""
    import re
    line = _bad_line(rec)
    return _parse_failure(rec) and re.match(r"^(async )?def ", line) is not None and re.search(r"(: |-> )\*", line) is not None


def constant_attribute_pattern_matcher(rec, params):
    """(match x (. None m) y): a value pattern whose dotted name starts at a constant is accepted by compile() and printed
    as `case None.m:`, which the parser rejects (a value pattern must start with a name)"""
    import re
    line = _bad_line(rec)
    return _parse_failure(rec) and line.startswith("case ") and re.search(r"(?<![\w.])(None|True|False)\.\w", line) is not None


def import_dot_matcher(rec, params):
    import re
    return _parse_failure(rec) and re.match(r"^import \.+( as \w+)?(, .*)?$", _bad_line(rec)) is not None


def except_without_type_matcher(rec, params):
    """`except* :` without a type, and `except as name:` when the type form has no expression"""
    import re
    return _parse_failure(rec) and re.match(r"^except(\*:|\*? as \w+:)$", _bad_line(rec)) is not None


def deftype_matcher(rec, params):
    """(deftype name value) without :tp builds TypeAlias without the type_params field; ast.unparse raises AttributeError"""
    if rec.get("key") not in ("unparse-raises:AttributeError", "hy2py-raises:AttributeError"):
        return False
    text = rec.get("input", {}).get("tree", "") + rec.get("input", {}).get("program", "")
    return "'TypeAlias' object has no attribute 'type_params'" in str(rec.get("observed")) and "(deftype " in text


# ------------------------------------------------------------------ execution harness

SAFE = (int, str, bool, type(None), float, complex, bytes)


def show(v, depth=0):
    if isinstance(v, SAFE):
        try:
            return repr(v)
        except ValueError:
            return "int:huge:%d" % (v % 1000003)
    if depth > 4:
        return "..."
    if isinstance(v, (list, tuple)):
        return type(v).__name__ + "(" + ", ".join(show(x, depth + 1) for x in v) + ")"
    if isinstance(v, dict):
        return "dict(" + ", ".join("%s: %s" % (show(k, depth + 1), show(x, depth + 1)) for k, x in v.items()) + ")"
    if isinstance(v, (set, frozenset)):
        return "set(" + ", ".join(sorted(show(x, depth + 1) for x in v)) + ")"
    t = type(v)
    if t.__module__ == "hy.models":
        return "hy.models.%s(%s)" % (t.__name__, getattr(v, "name", None) if t.__name__ == "Keyword" else str(v))
    if isinstance(v, BaseException):
        return "exc:" + t.__name__
    if isinstance(v, type):
        return "class:" + v.__name__
    if callable(v):
        return "callable:" + getattr(v, "__name__", "?")
    return "obj:" + t.__name__


def fresh_env(name):
    log = []

    def zq_log(k, v=None):
        log.append((k, show(v)))
        return v

    class zq_cm:
        def __init__(self, k):
            self.k = k

        def __enter__(self):
            log.append((self.k, "enter"))
            return self.k

        def __exit__(self, *a):
            log.append((self.k, "exit:" + (a[0].__name__ if a[0] else "None")))
            return False

    def zq_kw(**kw):
        return sorted(kw.items())

    def zq_sum(*a):
        return sum(a)

    def zq_deco(f):
        log.append(("deco", f.__name__))
        return f
    g = {"__name__": name, "zq_log": zq_log, "zq_cm": zq_cm, "zq_kw": zq_kw, "zq_sum": zq_sum, "zq_deco": zq_deco}
    return g, log


def observe(code_obj, name):
    g, log = fresh_env(name)
    exc = None
    out = io.StringIO()
    try:
        with warnings.catch_warnings(), contextlib.redirect_stdout(out):
            warnings.simplefilter("ignore")
            exec(code_obj, g)
    except BaseException as e:
        if isinstance(e, (KeyboardInterrupt, SystemExit)):
            raise
        exc = type(e).__name__
    final = {k: show(v) for k, v in g.items() if not k.startswith(("zq_", "__")) and k not in ("hy",) and not k.startswith("_hy_")}
    return {"log": log, "exception": exc, "globals": dict(sorted(final.items())), "stdout": out.getvalue()}


def localise(a, b):
    """first differing line of the two ast dumps"""
    da = ast.dump(a, indent=1).splitlines()
    db = ast.dump(b, indent=1).splitlines()
    for i, (x, y) in enumerate(zip(da, db)):
        if x != y:
            return "dump line %d: compiled `%s` vs reparsed `%s`" % (i, x.strip(), y.strip())
    return "dumps equal up to length %d/%d" % (len(da), len(db))


def judge_program(chk, hy, src, i, tag="behaviour"):
    """one program: unparsed source must parse, and behave like the compiled AST"""
    modname = "zq_c14_%d" % i
    mod = types.ModuleType(modname)
    sys.modules[modname] = mod
    try:
        with warnings.catch_warnings():
            warnings.simplefilter("ignore")
            try:
                tree = hy.compiler.hy_compile(hy.read_many(src), mod, source=src, filename="<c14>")
                code1 = compile(tree, "<c14>", "exec")
            except Exception as e:
                chk.count("filtered:does-not-compile:" + type(e).__name__)
                return
            how = "PYTHONPATH=%s hy2py on the program, then run both; program: %r" % (vlib.REPO, src)
            try:
                py = ast.unparse(tree)
            except Exception as e:
                chk.fail("unparse-raises:" + type(e).__name__, {"program": src}, str(e)[:200], "Python source", how)
                return
            try:
                reparsed = ast.parse(py)
                code2 = compile(reparsed, "<c14>", "exec")
            except Exception as e:
                chk.fail("unparsed-source-does-not-parse:" + type(e).__name__, {"program": src, "python": py}, str(e)[:200],
                         "source that parses and compiles", how)
                return
    finally:
        sys.modules.pop(modname, None)
    o1 = observe(code1, "zq_c14_run")
    o2 = observe(code2, "zq_c14_run")
    chk.count(tag + ":programs")
    chk.count(tag + ":exception:" + str(o1["exception"]))
    chk.case(("prog", src), nontrivial=len(o1["log"]) > 0 or tag == "corpus",
             sample={"program": src, "python": py[:400], "log_events": len(o1["log"]), "exception": o1["exception"]}
             if i % 251 == 3 else None)
    for field in ("log", "exception", "globals", "stdout"):
        if o1[field] != o2[field]:
            chk.fail("behaviour-differs:" + field, {"program": src, "python": py, "where": localise(tree, reparsed)},
                     {"compiled_ast": o1[field] if field != "log" else o1[field][:30],
                      "unparsed_source": o2[field] if field != "log" else o2[field][:30]},
                     "equal " + field, how)
            break


def corpus_first(chk, hy):
    """minimised past failures (corpus/C14/cases.json), run before anything generated"""
    import json
    import os
    path = os.path.join(vlib.VERIF, "corpus", "C14", "cases.json")
    if not os.path.exists(path):
        return
    for i, c in enumerate(json.load(open(path))):
        before = len(chk.failures) + len(chk.known_hits)
        judge_program(chk, hy, c["source"], 900000 + i, tag="corpus")


def behaviour_oracle(chk, hy, n):
    rng = chk.rng
    gen = run_gen.RG(rng)
    for i in range(n):
        judge_program(chk, hy, gen.program(), i)


def parse_oracle(chk, hy, n):
    """ast.parse(ast.unparse(a)) for every well-formed form of the tree generator that compiles"""
    from props import valid_gen
    rng = chk.rng
    gen = valid_gen.G(hy, rng, max_depth=5, compile_time_heads=False)
    done = 0
    for i in range(n):
        # well-formed programs only: what the compiler does with malformed trees it happens to accept is C10's subject
        tree = gen.headed(1) if rng.random() < 0.85 else gen.form(0)
        mod = types.ModuleType("zq_c14p")
        sys.modules["zq_c14p"] = mod
        try:
            with warnings.catch_warnings():
                warnings.simplefilter("ignore")
                try:
                    a = hy.compiler.hy_compile(tree, mod, filename="<c14>", source="")
                    compile(a, "<c14>", "exec")
                except BaseException:
                    chk.count("filtered:parse-oracle:not-accepted-by-compiler")
                    continue
                done += 1
                text = hy.repr(tree)
                chk.case(("tree", text), nontrivial=len(text) > 12)
                chk.count("parse:trees")
                try:
                    py = ast.unparse(a)
                except Exception as e:
                    chk.fail("unparse-raises:" + type(e).__name__, {"tree": text}, str(e)[:200], "Python source", "ast.unparse(hy_compile(tree))")
                    continue
                try:
                    b = ast.parse(py)
                    compile(b, "<c14>", "exec")
                except Exception as e:
                    chk.fail("unparsed-source-does-not-parse:" + type(e).__name__, {"tree": text, "python": py[:4000]}, str(e)[:200],
                             "source that parses and compiles", "ast.parse(ast.unparse(hy_compile(tree)))")
        finally:
            sys.modules.pop("zq_c14p", None)


def hy2py_end_to_end(chk, hy, n):
    """the real entry point: hy.cmdline.hy2py_worker on program text, output must parse"""
    import argparse
    from hy.cmdline import hy2py_worker
    rng = chk.rng
    gen = run_gen.RG(rng)
    for i in range(n):
        src = gen.program()
        mod = types.ModuleType("zq_c14_pre")
        sys.modules["zq_c14_pre"] = mod
        try:
            with warnings.catch_warnings():
                warnings.simplefilter("ignore")
                compile(hy.compiler.hy_compile(hy.read_many(src), mod, source=src, filename="<c14>"), "<c14>", "exec")
        except BaseException as e:
            if isinstance(e, KeyboardInterrupt):
                raise
            chk.count("filtered:hy2py:compile-error")
            continue
        finally:
            sys.modules.pop("zq_c14_pre", None)
        buf = io.StringIO()
        opts = argparse.Namespace(with_source=False, with_ast=False, without_python=False, output=None)
        try:
            with contextlib.redirect_stdout(buf), warnings.catch_warnings():
                warnings.simplefilter("ignore")
                hy2py_worker(src, opts, filename="zq_c14_e2e.hy")
        except BaseException as e:
            if isinstance(e, KeyboardInterrupt):
                raise
            chk.fail("hy2py-raises:" + type(e).__name__, {"program": src}, str(e)[:200], "Python source", "hy2py on the program")
            continue
        chk.count("hy2py:programs")
        chk.case(("hy2py", src), nontrivial=True)
        try:
            ast.parse(buf.getvalue())
        except Exception as e:
            chk.fail("hy2py-output-does-not-parse", {"program": src, "python": buf.getvalue()[:4000]}, str(e)[:200], "Python source",
                     "echo program | PYTHONPATH=%s python -m hy.cmdline hy2py" % vlib.REPO)


def run(chk):
    chk.trusted = TRUSTED
    chk.assumptions = [
        "`behaves like` = equal effect log (zq_log / context-manager events in order), equal escaping exception type, equal "
        "final user globals (values of plain data types by repr, others by type), equal stdout",
        "programs are those of props/run_gen.py (assignment, operators, and/or, if/when/cond, do, try, raise, while, for, "
        "comprehensions, fn/defn/defclass, match, with, let, f-strings, unpacking, keyword arguments, names that need "
        "mangling or are Python keywords); programs the compiler rejects are filtered and counted",
    ]
    chk.matchers["c14_global_keyword_not_minced"] = global_keyword_matcher
    chk.matchers["c14_deftype_without_tp"] = deftype_matcher
    chk.matchers["c14_class_kwd_unmangled"] = class_kwd_unmangled_matcher
    chk.matchers["c14_constant_name"] = constant_name_matcher
    chk.matchers["c14_import_dot"] = import_dot_matcher
    chk.matchers["c14_constant_attribute_pattern"] = constant_attribute_pattern_matcher
    chk.matchers["c14_starred_annotation"] = starred_annotation_matcher
    chk.matchers["c14_negative_imaginary"] = negative_imaginary_matcher
    chk.matchers["c14_except_without_type"] = except_without_type_matcher
    thorough = chk.tier == "thorough"
    ok = chk.prove("Props/C14.v", ["Props/C14.vo"], [valid_keywords.translate])
    hy = vlib.use_repo_in_process()
    import hy.compiler  # noqa
    # a broken tie (translator / proof) must not stop the search for a failing input: everything below runs regardless
    try:
        validate_nfkc_bold(chk)
    except Exception as e:
        chk.obligation("mincing model vs real ast.unparse, NFKC hypothesis", False, "%s: %s" % (type(e).__name__, str(e)[:500]))
    chk.rule = ("behaviour: seeded random programs (2-7 top-level forms, depth <= 4) executed twice -- compile(hy_compile(p)) "
                "and compile(ast.parse(ast.unparse(hy_compile(p)))); parse: every tree of the C10 generator (no compile-time "
                "heads) that the compiler accepts; hy2py: hy2py_worker on program text; non-trivial = program that logs at "
                "least one event / tree of more than 12 characters")
    corpus_first(chk, hy)
    behaviour_oracle(chk, hy, 25000 if thorough else 1400)
    parse_oracle(chk, hy, 100000 if thorough else 4500)
    hy2py_end_to_end(chk, hy, 3000 if thorough else 200)


def replay(path):
    """re-run the oracle on the program of a replay file"""
    import json
    d = json.load(open(path))
    print(json.dumps({k: d.get(k) for k in ("key", "observed", "expected", "how")}, indent=1, ensure_ascii=False)[:3000])
    inp = d.get("input", {})
    if "program" not in inp:
        return 1
    hy = vlib.use_repo_in_process()
    import hy.compiler  # noqa
    mod = types.ModuleType("zq_c14_replay")
    sys.modules["zq_c14_replay"] = mod
    src = inp["program"]
    tree = hy.compiler.hy_compile(hy.read_many(src), mod, source=src, filename="<c14>")
    py = ast.unparse(tree)
    print(py)
    try:
        o2 = observe(compile(ast.parse(py), "<c14>", "exec"), "zq_c14_run")
    except SyntaxError as e:
        print("unparsed source does not parse:", e)
        return 1
    o1 = observe(compile(tree, "<c14>", "exec"), "zq_c14_run")
    same = o1 == o2
    print("compiled AST :", o1)
    print("unparsed src :", o2)
    return 0 if same else 1
