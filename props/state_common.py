"""Helpers shared by the State family (C39, C40, C28, C29)."""
import ast
import re

from lib import vlib


def coq_to_py(s):
    """Parse the printed normal form of a Gallina term built from tuples, lists, strings, Z/N/nat
    numerals, bools, option and a few unary constructors into Python data.
    Constructors C x y become ("C", x, y); nullary ones become "C"."""
    s = re.sub(r"%[A-Za-z_]+", "", s)
    # tokenise
    toks = re.findall(r'"(?:[^"]|"")*"|[()\[\];,]|-?\d+|[A-Za-z_][A-Za-z_0-9\'.]*', s)
    pos = [0]

    def peek():
        return toks[pos[0]] if pos[0] < len(toks) else None

    def nxt():
        t = toks[pos[0]]
        pos[0] += 1
        return t

    def atom():
        t = nxt()
        if t == "(":
            items = [app()]
            while peek() == ",":
                nxt()
                items.append(app())
            assert nxt() == ")", s
            return items[0] if len(items) == 1 else tuple(items)
        if t == "[":
            items = []
            if peek() != "]":
                items.append(app())
                while peek() == ";":
                    nxt()
                    items.append(app())
            assert nxt() == "]", s
            return items
        if t.startswith('"'):
            return t[1:-1].replace('""', '"')
        if re.fullmatch(r"-?\d+", t):
            return int(t)
        if t == "true":
            return True
        if t == "false":
            return False
        return ("@", t)

    def app():
        head = atom()
        if isinstance(head, tuple) and len(head) == 2 and head[0] == "@":
            args = []
            while peek() is not None and peek() not in (")", "]", ";", ","):
                args.append(atom())
            args = [a[1] if isinstance(a, tuple) and len(a) == 2 and a[0] == "@" else a for a in args]
            return (head[1], *args) if args else head[1]
        return head

    out = app()
    assert pos[0] == len(toks), (s, toks[pos[0]:])
    return out


def flatten_left(t, n):
    """Coq prints (a, b, c) for the left-nested ((a, b), c); our parser already yields a flat tuple."""
    assert isinstance(t, tuple) and len(t) == n, (t, n)
    return t


def coq_string(s):
    return '"' + s.replace('"', '""') + '"'


def gen_eqs(sem_path=None):
    """Regenerate coq/State/EvalRestoreEqs.v (statement level) and EvalRestoreEqsExpr.v (expression level) from the text
    of coq/State/EvalRestoreSem.v: one unfolding equation per interpreter function, each proved by `reflexivity`.
    Run by hand after editing the semantics:  python -c "from props import state_common as s; s.gen_eqs()" """
    import os
    sem_path = sem_path or os.path.join(vlib.COQ, "State", "EvalRestoreSem.v")
    src = open(sem_path).read()
    ARG = r'\((?:[^()]|\([^()]*(?:\([^()]*\)[^()]*)*\))*\)'
    names = ['eval', 'evals', 'evalkw', 'ocall', 'run_beh', 'call_value', 'call_method', 'call_fun', 'assign',
             'assigns', 'exec', 'handle', 'exec_for', 'exec_block']

    def lemmas(body, helpers, blk):
        out = []
        for part in re.split(r'\n+(?:\(\*[^\n]*\*\)\n)?(?=with )', body):
            part = part.strip()
            if part.endswith("."):
                part = part[:-1]
            m = re.match(r'(?:Fixpoint|with) (\w+) \(fuel : nat\) ((?:%s\s*)+)\{struct fuel\}\s*:\s*A :=\n  match fuel with\n'
                         r'  \| O => timeout\n  \| S f =>(.*)\n  end\s*$' % ARG, part, re.S)
            assert m, part[:200]
            name, args, b = m.groups()
            args = ' '.join(args.split())
            vs = []
            for a in re.finditer(ARG, args):
                vs += a.group(0)[1:-1].split(':', 1)[0].split()
            for n in names:
                b = re.sub(r'(?<![\w.])%s\b(?!_)' % n, n + '_', b)
            for h in helpers:
                b = re.sub(r'(?<![\w.])%s\b(?!_)' % h, h + '_', b)
            out.append("Lemma %s_eq f %s :\n  %s_ (S f) %s =%s.\nProof. reflexivity. Qed.\n"
                       % (name, args, name, " ".join(vs), b.rstrip()))
        return out
    head = ("From HyV Require Export State.EvalRestoreSem.\n\nSection Eqs.\n"
            "Variables (P : prog) (Orc : oracle) (A : Type) (timeout : A) (stuck : string -> A).\n")
    # statement level
    body = src[src.index("Fixpoint exec (fuel : nat)"):src.index("End Sem.")]
    helpers = {'truthy_k': '(truthy_k A stuck)', 'dispatch': '(dispatch A)'}
    text = ("(* Unfolding equations of the statement-level interpreter functions, produced mechanically from the text of\n"
            "   EvalRestoreSem.v (props/state_common.py: gen_eqs); each is proved by computation, so it cannot drift from\n"
            "   the definition. *)\n" + head)
    text += "\n".join("Notation %s_ := (%s P Orc A timeout stuck)." % (n, n) for n in names) + "\n"
    text += "\n".join("Notation %s_ := %s." % kv for kv in helpers.items()) + "\n\n"
    text += "\n".join(lemmas(body, helpers, False)) + "\nEnd Eqs.\n"
    open(os.path.join(vlib.COQ, "State", "EvalRestoreEqs.v"), "w").write(text)
    # expression level
    body = src[src.index("Fixpoint eval (fuel : nat)"):src.index("End Expr.")]
    helpers = {'truthy_k': '(truthy_k A stuck)', 'nth_k': '(nth_k A stuck)', 'subscript_k': '(subscript_k A stuck)',
               'contains_k': '(contains_k A stuck)', 'builtin_method_k': '(builtin_method_k A stuck)',
               'glob_get': '(glob_get P)'}
    text = ("(* Unfolding equations of the expression-level interpreter functions, produced mechanically from the\n"
            "   text of EvalRestoreSem.v (props/state_common.py: gen_eqs); each is proved by computation.  Used by the\n"
            "   parametricity proof (EvalRestoreParam.v). *)\n" + head +
            "Variable blk : env -> list stmt -> st -> (env -> st -> A) -> (val -> env -> st -> A) -> "
            "(val -> env -> st -> A) -> A.\n")
    text += "\n".join("Notation %s_ := (%s P Orc A timeout stuck blk)." % (n, n) for n in names[:10]) + "\n"
    text += "\n".join("Notation %s_ := %s." % kv for kv in helpers.items()) + "\n\n"
    text += "\n".join(lemmas(body, helpers, True)) + "\nEnd Eqs.\n"
    open(os.path.join(vlib.COQ, "State", "EvalRestoreEqsExpr.v"), "w").write(text)
