"""Helpers shared by the State family (C39, C40, C28, C29)."""
import ast
import re

from lib import vlib


def coq_to_py(s):
    """Parse the printed normal form of a Gallina term built from tuples, lists, strings, Z/N/nat
    numerals, bools, option and a few unary constructors into Python data.
    Constructors C x y become ("C", x, y); nullary ones become "C"."""
    s = re.sub(r"%[A-Za-z_]+", "", s)
    # tokenise
    toks = re.findall(r'"(?:[^"]|"")*"|[()\[\];,]|-?\d+|[A-Za-z_][A-Za-z_0-9\'.]*', s)
    pos = [0]

    def peek():
        return toks[pos[0]] if pos[0] < len(toks) else None

    def nxt():
        t = toks[pos[0]]
        pos[0] += 1
        return t

    def atom():
        t = nxt()
        if t == "(":
            items = [app()]
            while peek() == ",":
                nxt()
                items.append(app())
            assert nxt() == ")", s
            return items[0] if len(items) == 1 else tuple(items)
        if t == "[":
            items = []
            if peek() != "]":
                items.append(app())
                while peek() == ";":
                    nxt()
                    items.append(app())
            assert nxt() == "]", s
            return items
        if t.startswith('"'):
            return t[1:-1].replace('""', '"')
        if re.fullmatch(r"-?\d+", t):
            return int(t)
        if t == "true":
            return True
        if t == "false":
            return False
        return ("@", t)

    def app():
        head = atom()
        if isinstance(head, tuple) and len(head) == 2 and head[0] == "@":
            args = []
            while peek() is not None and peek() not in (")", "]", ";", ","):
                args.append(atom())
            args = [a[1] if isinstance(a, tuple) and len(a) == 2 and a[0] == "@" else a for a in args]
            return (head[1], *args) if args else head[1]
        return head

    out = app()
    assert pos[0] == len(toks), (s, toks[pos[0]:])
    return out


def flatten_left(t, n):
    """Coq prints (a, b, c) for the left-nested ((a, b), c); our parser already yields a flat tuple."""
    assert isinstance(t, tuple) and len(t) == n, (t, n)
    return t


def coq_string(s):
    return '"' + s.replace('"', '""') + '"'
