"""C06 -- let bindings are lexically scoped."""
import time

from lib import vlib
from props import scope_common as sc
from props import scope_oracle as so
from props import scope_progs as sp
from translator import scope_sets

META = {
    "technique": "Coq: lexical resolver (specification) vs state-machine model of the scope classes driven by a model of "
                 "the compile walk (refinement); three ties to the code on every run: recorded scope-event traces vs the "
                 "machine, recorded traces vs the walk model, machine vs resolver on each generated program; generated "
                 "programs executed and judged against a lexical reference interpreter",
    "level_text": "C06_let_refines_lexical_partial (coq/Props/C06.v): for EVERY module built from literals, symbols, setv/setx, "
                  "do, calls, let (any number of sequential bindings), fn and defn, nested to any depth, the scope machine run "
                  "on the compile walk's events gives every identifier node exactly the name the lexical resolver prescribes "
                  "(shadowing, restore on exit, setv targets, deferred ScopeFn.__exit__ resolution at the definition point, "
                  "nothing renamed outside). Classes, declarations, comprehension forms and defn of a let-bound name are "
                  "outside the specification (full statement kept as C06_let_refines_lexical_full). Both models are compared "
                  "with the real compiler on every run; the dynamic statement is checked by execution.",
    "level_note": "Closures' dynamic behaviour (call-time binding) relies on Python's own semantics and is checked by "
                  "execution against the reference interpreter, not proved.",
}

TRUSTED = [
    "Coq 8.16.1 kernel (coqc, full .vo); vm_compute for per-program refinement instances",
    "axioms: none",
    "hand-written models Scope/Machine.v (hy/scoping.py) and Scope/Walk.v (the scope calls of compile_symbol, "
    "compile_assign, compile_let, compile_function_*, compile_class_expression, compile_global_or_nonlocal), each tied "
    "to the code by differential execution on recorded scope-event traces (props/scope_trace.py)",
    "Scope/Lexical.v, the specification: written from docs/api.rst (`let`) and Python's function scoping",
    "the lexical reference interpreter props/scope_progs.py, the generator and harness; CPython as executor",
    sc.DEVIATION_TRUST,
]

DOC = [
    ("witness:docs let example",
     [("let", [("x", ("lit", 5)), ("y", ("lit", 6))],
       [("ref", "r1", "x"), ("ref", "r2", "y"),
        ("let", [("x", ("lit", 7))], [("ref", "r3", "x"), ("ref", "r4", "y")]),
        ("ref", "r5", "x"), ("ref", "r6", "y")])]),
    ("witness:docs sequential let",
     [("let", [("x", ("lit", 1)), ("x", ("fn", [], [("ref", "r1", "x")]))], [("call", ("sym", "x"), [])])]),
    ("witness:closure sees later setv",
     [("let", [("x", ("lit", 1))],
       [("setv", "f1", ("fn", [], [("ref", "r1", "x")])), ("call", ("sym", "f1"), []),
        ("setv", "x", ("lit", 2)), ("call", ("sym", "f1"), []), ("ref", "r2", "x")]),
      ("setv", "x", ("lit", 9)), ("call", ("sym", "f1"), []), ("ref", "r3", "x")]),
    ("witness:setx of a let-bound name in a generator-function comprehension inside a function",
     [("let", [("y", ("lit", 6))],
       [("defn", "f1", [], [("setv", "res1", ("lfor", "lfor", [("for", "z", 2)],
                                              ("do", [("setx", "y", ("lit", 7)), ("ref", "r1", "z")]))),
                            ("ref", "r2", "y")]),
        ("call", ("sym", "f1"), []), ("ref", "r3", "y")])]),
    ("witness:sibling comprehensions sharing a name (correct Python; CPython 3.12.1 mis-runs it, judged under the independent interpreter)",
     [("setv", "x", ("lit", 1)), ("setv", "y", ("lit", 2)),
      ("defn", "main", [], [("setv", "res1", ("lfor", "lfor", [("for", "x", 1)], ("ref", "r1", "y"))),
                            ("setv", "res2", ("lfor", "lfor", [("for", "y", 1)], ("ref", "r2", "x"))),
                            ("ref", "r3", "y")]),
      ("call", ("sym", "main"), []), ("ref", "r4", "x")]),
    ("witness:closure inside a comprehension captures its variable, the name is free in the function afterwards "
     "(correct Python; CPython 3.12.1 leaks the variable, judged under the independent interpreter)",
     [("setv", "x", ("lit", 1)), ("setv", "z", ("lit", 3)),
      ("defn", "main", [],
       [("defn", "f2", [], [("setv", "res1", ("lfor", "lfor", [("for", "z", ("rng", ("ref", "r1", "x")))],
                                              ("call", ("fn", [], [("ref", "r2", "z")]), []))),
                            ("ref", "r3", "z")]),
        ("call", ("sym", "f2"), []), ("setx", "z", ("lit", 4))]),
      ("call", ("sym", "main"), [])]),
    ("witness:closure inside a comprehension whose variable shadows a let binding",
     [("let", [("x", ("lit", 100))],
       [("setv", "res1", ("lfor", "lfor", [("for", "x", 3)], ("call", ("fn", [], [("ref", "r1", "x")]), []))),
        ("setv", "res2", ("lfor", "lfor", [("for", "x", 2)], ("lfor", "lfor", [("for", "y", 2)], ("ref", "r2", "x")))),
        ("ref", "r3", "x")])]),
    ("witness:first iterable names the let-bound variable that the form rebinds",
     [("let", [("x", ("lit", 2))],
       [("setv", "res1", ("lfor", "lfor", [("for", "x", ("rng", ("ref", "r1", "x")))], ("ref", "r2", "x"))),
        ("ref", "r3", "x")])]),
    ("witness:class attribute hides let binding",
     [("let", [("x", ("lit", 1))],
       [("class", "C1", [("x", 2)], [("defn", "m", ["self"], [("ref", "r1", "x")])]), ("callm", "C1", "m")])]),
]


def run(chk):
    chk.trusted = TRUSTED
    chk.assumptions = [
        "filtered (no claim, counted): defn of a let-bound name (documented hoisting), setx/setv to a comprehension's own "
        "variable, let inside a loop body with escaping closures (not generated), declarations (C07's subject), a "
        "short-circuit / conditional value that mentions the target of its own assignment (recorded finding C01-result-rename)",
        "a let inside a function is a new variable per call (the renamed Python local); at module level it is executed "
        "once by the generated programs",
    ]
    so.register_matchers(chk, "C06")
    t0 = time.time()
    chk.prove("Props/C06.v", ["Props/C06.vo", "Gen/SetUses.vo"], [scope_sets.translate])
    sc.coqchk(chk, "HyV.Props.C06")
    phases = chk.extra.setdefault("phase_seconds", {})
    phases["proof"] = round(time.time() - t0, 1)
    thorough = chk.tier == "thorough"
    labelled = list(DOC)
    g6 = sp.Gen(chk.rng, "c06")
    for i in range(16000 if thorough else 600):
        labelled.append(("c06:%d" % i, g6.program()))
    for i in range(400 if thorough else 25):
        labelled.append(("scenario-hoist:%d" % i, g6.scenario("hoist")))
        labelled.append(("scenario-default-lambda:%d" % i, g6.scenario("default-lambda")))
        labelled.append(("scenario-defn-own-default:%d" % i, g6.scenario("defn-own-default")))
        labelled.append(("scenario-shortcircuit:%d" % i, g6.scenario("shortcircuit")))
    chk.rule = ("programs = the documentation's let examples + seeded random programs with up to 4 nested binding constructs "
                "(let with 1-2 sequential bindings, defn, fn stored and called later, lfor with own variables and setx, "
                "setv/setx, a few classes, defn of pool names (hoisting), parameter defaults that are lambdas, first iterables that "
                "read a name; plus randomly filled scenarios: defn of a name an outer let binds written inside an inner let, "
                "lambda default with a parameter spelled like a let-bound name, defn of a let-bound name with a parameter default reading that name, setv/setx of a let-bound name (directly or through a closure) to a short-circuit/conditional value that needs statements) over the names x y z, at module level and inside a function; every reference "
                "is logged. Each is (a) compiled with the scope classes instrumented -> machine correspondence, walk "
                "correspondence, refinement instance; (b) executed and compared with the lexical reference interpreter "
                "(log, exception kind, module globals). non-trivial = distinct program containing a let")
    t1 = time.time()
    so.correspondence(chk, labelled, limit=(4000 if thorough else 200))
    phases["machine trace correspondence"] = round(time.time() - t1, 1)
    t2 = time.time()
    so.walk_and_lex(chk, labelled, limit=(4000 if thorough else 200))
    phases["walk correspondence + refinement instances"] = round(time.time() - t2, 1)
    t3 = time.time()
    so.oracle(chk, "C06", labelled, need=("let",))
    phases["oracle"] = round(time.time() - t3, 1)


def replay(path):
    return so.replay(path)
