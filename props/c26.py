"""C26 -- Model constructors accept exactly what Hy syntax can express."""
import json
import warnings

from lib import vlib
from props import lit_common as lc
from props import num_common as nc
from props import c22 as g22
from translator import lit_tables

META = {
    "technique": "Coq proof relating the constructors' own checks (Symbol via as_identifier, Keyword, String brackets) to a "
                 "token-level model of the reader, for every string; regenerated NON_IDENT / whitespace / separator tables; "
                 "extracted-model differential run against the constructors and hy.read_many; direct oracle: constructor "
                 "success vs read result on the real code",
    "level_text": "Theorems C26_symbol_ctor_iff and C26_keyword_ctor_iff (both directions, every string, no length bound) and "
                  "C26_bracket_reads_back / C26_bracket_ctor_if_partial hold over the model; C26_bracket_ctor_iff_refuted "
                  "exhibits the three classes of strings the String constructor accepts although the bracket string does not "
                  "read back, each replayed on the real code as a recorded finding. Model and code are compared on every run.",
    "level_note": "Trusted: Coq kernel; the token-level reader model covers identifiers, numbers, dotted forms, keywords, quoted "
                  "and bracket strings, comments and whitespace -- every other form is one opaque outcome (argued, not "
                  "modelled, never to be a bare symbol / keyword / string); models of int/float/complex grammars and of the "
                  "string decoders as in C22/C23; translator/lit_tables.py; extraction + driver + harness.",
}

TRUSTED = [
    "Coq 8.16.1 kernel (coqc, full .vo); vm_compute for the refutation witnesses; no native_compute",
    "axioms: none (Print Assumptions: Closed under the global context for every C26 theorem)",
    "token-level model of HyReader.parse / try_parse_one_form (Lit/Ctor.v: read_many): forms outside identifiers, numbers, "
    "dotted forms, keywords, strings, bracket strings, comments are the opaque outcome ROther -- that such forms never yield a "
    "bare top-level Symbol/Keyword/String is argued from the reader's handlers, not proved",
    "oracle records of C22 (Unicode digit/space classes) and C23 (\\N{} table); models of CPython's numeric grammars and "
    "string decoders validated by the C22 / C23 checks",
    "translator/lit_tables.py (NON_IDENT, whitespace class, ':#', separators, bracket constants)",
    "hand-written models of Symbol.__new__ / Keyword.__init__ / String.__new__ (Lit/Ctor.v), tied by differential execution: "
    "extraction (ExtrOcamlBasic only) + extract/lit_driver.ml + this harness",
]

IDENT = list("abcxyzfoo-_!?*+<>=/&%$@^|\\") + ["foo", "bar", "a-b", "None", "quote", "λ", "é", "😀", "İ"]
DELIM = list("()[]{};\"'`~")
WS = [" ", "\t", "\n", "\r", "\x0b", "\x0c"]
UWS = ["\xa0", " ", "\x85", "　", "\x1c", " "]
HEADS = [":", "#", "."]


def gen_symbolish(rng):
    r = rng.random()
    if r < 0.22:
        t = g22.gen_pylit(rng)[0] if rng.random() < 0.5 else g22.gen_extension(rng)[0]
        return t, "numeric"
    if r < 0.34:
        return g22.gen_nearmiss(rng)[0], "near-numeric"
    if r < 0.40:
        return rng.choice(["", ".", "..", "...", ":", "#", "a.b", ".a", "a.", "a..b", "..a.b", "1.a", "a.1", "a.:b", "a.#b",
                           "#a", ":a", "a:", "a#", "a:b", "j", "J", "-", "+", "_", ",", "None", "True", "'", "`", "~", "~@",
                           "#_", "#*", "#**", "#^", "#[[x]]", "\"a\"", "r\"a\"", "b\"", "; c", "a;b", "a b", " a", "a ",
                           "\ta", "a\n", "(a)", "[", "]", "{}", "#(", "#{", "a'b", "a\"b", "a`b", "a~b", "a(b", "quote"]), "fixed"
    n = rng.choice([1, 1, 2, 3, 4, 6])
    parts = []
    for _ in range(n):
        q = rng.random()
        if q < 0.62:
            parts.append(rng.choice(IDENT))
        elif q < 0.70:
            parts.append(rng.choice(DELIM))
        elif q < 0.77:
            parts.append(rng.choice(WS))
        elif q < 0.83:
            parts.append(rng.choice(UWS))
        elif q < 0.91:
            parts.append(rng.choice(HEADS))
        elif q < 0.96:
            parts.append(rng.choice("0123456789"))
        else:
            parts.append(chr(rng.randrange(0x20, 0x3000)))
    return "".join(parts), "random"


BDELIMS = ["", "", "x", "==", "foo", "f", "f-x", "fx", "F", "t", "t-x", " ", "a b", "\n", "\r", "\r\n", "\"", "é", "😀", ";", "(",
           "#", "ab", "aab", "xx", "-", "f-", "\\", "a[", "]", "[]"]


def gen_bracket_pair(rng):
    d = rng.choice(BDELIMS) if rng.random() < 0.85 else "".join(rng.choice("ab=-f \n\r\"é") for _ in range(rng.randrange(4)))
    n = rng.choice([0, 1, 2, 3, 5, 8])
    parts = []
    if rng.random() < 0.25:
        parts.append(rng.choice(["\n", "\r", "\r\n", "\n\n", " \n"]))
    for _ in range(n):
        q = rng.random()
        if q < 0.30:
            parts.append(rng.choice("abcxyz019 _-{}();:'\"\\"))
        elif q < 0.40:
            parts.append("]")
        elif q < 0.58:
            parts.append("]" + d[:rng.randrange(len(d) + 1)])
        elif q < 0.66:
            parts.append(d[:rng.randrange(len(d) + 1)] + "]")
        elif q < 0.71:
            parts.append("]" + d + "]")
        elif q < 0.80:
            parts.append(rng.choice(["\n", "\r", "\r\n"]))
        elif q < 0.88:
            parts.append(rng.choice(["é", "ł", "😀", "\x00", "\xa0"]))
        else:
            parts.append(rng.choice(["[", "{x}", "{", "}", "#[", "]]"]))
    s = "".join(parts)
    if rng.random() < 0.15:
        s = s + "]" + d          # the closing delimiter would complete the sequence
    return d, s


def render_bracket(d, s):
    return "#[" + d + "[" + ("\n" if s[:1] in ("\n", "\r") else "") + s + "]" + d + "]"


# ------------------------------------------------------------------ observations

def canon_forms(hy, text):
    """list(hy.read_many(text)) in the model's vocabulary: ('ok', [forms]) / ('lex',) / ('premature',) / ('other', why)"""
    from hy.reader.exceptions import LexException, PrematureEndOfInput
    M = hy.models
    try:
        with warnings.catch_warnings():
            warnings.simplefilter("ignore")
            ms = list(hy.read_many(text))
    except PrematureEndOfInput:
        return ("premature",)
    except LexException:
        return ("lex",)
    except Exception as e:
        return ("other", type(e).__name__)
    out = []
    for m in ms:
        c = nc.canon_model(hy, m)
        if c[0] in ("sym", "int", "float", "complex", "dotted", "keyword"):
            out.append(c)
        elif type(m) is M.String:
            out.append(("str", "str", [ord(x) for x in m], m.brackets))
        elif type(m) is M.Bytes:
            out.append(("str", "bytes", list(m), None))
        else:
            return ("other", type(m).__name__)
    return ("ok", out)


def decode_rout(nums, text):
    d = nc.Dec(nums)
    k = d.take()
    if k == 2:
        return ("lex",)
    if k == 3:
        return ("premature",)
    if k == 4:
        return ("other", "model")
    n = d.take()
    out = []
    for _ in range(n):
        fk = d.take()
        if fk == 1:
            out.append(("sym", d.text()))
        elif fk == 2:
            out.append(("keyword", d.text()))
        elif fk == 3:
            nk = d.take()
            if nk == 0:
                out.append(("int", d.Z()))
            elif nk == 1:
                out.append(("float", nc.canon_float(nc.fdesc_value(d.fdesc()))))
            else:
                re_ = nc.fdesc_value(d.fdesc())
                im = nc.fdesc_value(d.fdesc())
                out.append(("complex", nc.canon_float(re_), nc.canon_float(im)))
        elif fk == 4:
            head = d.text()
            k2 = d.take()
            parts = tuple(d.text() for _ in range(k2))
            out.append(("dotted", (".",) + parts if head == "" else (head, "None") + parts))
        else:
            kind = "str" if d.take() == 0 else "bytes"
            v = [ord(c) for c in d.text()]
            b = d.text() if d.take() == 1 else None
            out.append(("str", kind, v, b))
    return ("ok", out)


def ctor_ok(f):
    try:
        with warnings.catch_warnings():
            warnings.simplefilter("ignore")
            f()
        return True
    except ValueError:
        return False


# ------------------------------------------------------------------ known-finding matcher

def bracket_class(d, s):
    cl = []
    if d == "f" or d.startswith("f-"):
        cl.append("f-delimiter")
    if "\r" in s:
        cl.append("carriage-return")
    closer = "]" + d + "]"
    if closer not in s and (s + closer).find(closer) < len(s):
        cl.append("completed-by-delimiter")
    return cl


def m_bracket_accepts(rec, params):
    """String(s, brackets=d) accepted although the bracket string does not read back, for the class in params"""
    if rec["key"] != "bracket-ctor-accepts-unreadable":
        return False
    return params.get("class") in bracket_class(rec["input"]["delimiter"], rec["input"]["content"])


# ------------------------------------------------------------------ main

def run(chk):
    chk.trusted = TRUSTED
    chk.assumptions = [
        "'reading s yields that one symbol' = list(hy.read_many(s)) is exactly [Symbol(s)]; likewise for ':' + s and Keyword(s)",
        "'the bracket string with delimiter d and content s' is '#[' + d + '[' + (a line feed iff s begins with a newline) + s + "
        "']' + d + ']' (DESIGN section 9); it reads back when list(hy.read_many(that)) is exactly [String(s)] with brackets == d",
        "delimiters containing '[' or ']' are generated, counted and not judged",
    ]
    chk.matchers["bracket_ctor_accepts"] = m_bracket_accepts
    chk.prove("Props/C26.v", ["Props/C26.vo", "Lit/Extract.vo"], [lit_tables.translate])
    try:
        binary = lc.build_driver()
    except Exception as e:   # a broken tie must not stop the oracle on the real code
        chk.obligation("extracted model builds", False, str(e)[-1500:])
        binary = None
        chk.count("model-dependent parts skipped (no extracted model)")
    thorough = chk.tier == "thorough"
    rng = chk.rng
    try:
        hy = vlib.use_repo_in_process()
    except Exception:
        import traceback
        chk.fail("hy-core-unreadable", {"text": "import hy"}, traceback.format_exc()[-1500:], "hy imports",
                 "PYTHONPATH=%s /venv/bin/python -c 'import hy'" % vlib.REPO)
        return
    M = hy.models
    n_sym = 200000 if thorough else 14000
    n_br = 150000 if thorough else 9000
    texts = [gen_symbolish(rng) for _ in range(n_sym)]
    pairs = [("x", "a]x"), ("", "a]"), ("f", "a"), ("f-x", "a"), ("x", "a\rb"), ("x", "\r"), ("x", "\na"), ("x", "\n\na"),
             ("x", "a]x]b"), ("==", "a]=]"), ("\n", "a"), ("ab", "]a"), ("aab", "]aa"), ("xx", "]x"), ("", ""), ("x", "")]
    pairs += [gen_bracket_pair(rng) for _ in range(n_br)]
    chk.rule = ("symbols/keywords: strings from numeric literals and near-misses (C22 generators), fixed edge texts, and random "
                "mixes of identifier pieces, delimiters, ASCII and non-ASCII whitespace, ':' '#' '.' heads, digits; bracket "
                "strings: delimiter from a list incl. f, f-x, whitespace, newlines + content biased to ']' + prefixes of the "
                "delimiter, newlines of three styles, 15% ending in ']' + delimiter; non-trivial = distinct input the "
                "constructor accepts")
    lines = []
    for t, _ in texts:
        ut = nc.utable(t)
        lt = lc.name_table_arg([t]) if "N{" in t else ""
        lines.append(("sym_ok", ut, lc.arg(t)))
        lines.append(("kw_ok", lc.arg(t)))
        lines.append(("read", ut, lt, lc.arg(t)))
        lines.append(("read", ut, lt, lc.arg(":" + t)))
    for d, s in pairs:
        src = render_bracket(d, s)
        lines.append(("str_ok", lc.arg(d), lc.arg(s)))
        lines.append(("render_bracket", lc.arg(d), lc.arg(s)))
        lines.append(("read", nc.utable(src), "", lc.arg(src)))
    res = lc.run_driver(binary, lines) if binary else None

    def cmp_read(what, src, mnums):
        got = canon_forms(hy, src)
        if mnums is None:
            return got
        m = decode_rout(mnums, src)
        if m[0] == "other":
            chk.count("model-read:outside-fragment")
        elif m != got:
            chk.disagree(what, src, repr(m)[:300], repr(got)[:300])
        return got

    for i, (t, kind) in enumerate(texts):
        chk.count("gen:" + kind)
        cs = ctor_ok(lambda: M.Symbol(t))
        ck = ctor_ok(lambda: M.Keyword(t))
        if res:
            ms, mk = bool(res[4 * i][0]), bool(res[4 * i + 1][0])
            if ms != cs:
                chk.disagree("Lit.Ctor.sym_ok vs hy.models.Symbol", t, ms, cs)
            if mk != ck:
                chk.disagree("Lit.Ctor.kw_ok vs hy.models.Keyword", t, mk, ck)
        got_s = cmp_read("Lit.Ctor.read_top vs hy.read_many", t, res[4 * i + 2] if res else None)
        got_k = cmp_read("Lit.Ctor.read_top vs hy.read_many", ":" + t, res[4 * i + 3] if res else None)
        rs = got_s == ("ok", [("sym", t)])
        rk = got_k == ("ok", [("keyword", t)])
        chk.count("symbol:ctor=%s read=%s" % (cs, rs))
        chk.count("keyword:ctor=%s read=%s" % (ck, rk))
        chk.case("S" + t, nontrivial=cs, sample={"text": t, "Symbol": cs, "Keyword": ck} if i % 2503 == 1 else None)
        chk.case("K" + t, nontrivial=ck)
        if cs != rs:
            chk.fail("symbol-ctor-vs-read", {"text": t, "codepoints": [ord(c) for c in t]},
                     "Symbol() %s, reading gives %s" % ("succeeds" if cs else "raises", repr(got_s)[:200]),
                     "constructor succeeds exactly when reading yields that one symbol",
                     "PYTHONPATH=%s /venv/bin/python -c 'import hy; print(list(hy.read_many(%r))); hy.models.Symbol(%r)'" % (vlib.REPO, t, t))
        if ck != rk:
            chk.fail("keyword-ctor-vs-read", {"text": t, "codepoints": [ord(c) for c in t]},
                     "Keyword() %s, reading ':'+s gives %s" % ("succeeds" if ck else "raises", repr(got_k)[:200]),
                     "constructor succeeds exactly when reading ':' + s yields that one keyword",
                     "PYTHONPATH=%s /venv/bin/python -c 'import hy; print(list(hy.read_many(%r))); hy.models.Keyword(%r)'" % (vlib.REPO, ":" + t, t))
    off = 4 * len(texts)
    for i, (d, s) in enumerate(pairs):
        src = render_bracket(d, s)
        cb = ctor_ok(lambda: M.String(s, brackets=d))
        if res:
            mok = bool(res[off + 3 * i][0])
            if "".join(chr(c) for c in res[off + 3 * i + 1]) != src:
                chk.disagree("Lit.Ctor.render_bracket vs harness rendering", (d, s), res[off + 3 * i + 1], src)
            if mok != cb:
                chk.disagree("Lit.Ctor.str_ok vs hy.models.String", (d, s), mok, cb)
        if "[" in d or "]" in d:
            chk.count("bracket:delimiter with square brackets (not judged)")
            continue
        got = cmp_read("Lit.Ctor.read_top vs hy.read_many", src, res[off + 3 * i + 2] if res else None)
        rb = got == ("ok", [("str", "str", [ord(c) for c in s], d)])
        chk.count("bracket:ctor=%s read=%s" % (cb, rb))
        for c in bracket_class(d, s):
            chk.count("bracket:class " + c)
        chk.case("B" + src, nontrivial=cb, sample={"delimiter": d, "content": s, "String": cb, "reads back": rb} if i % 1501 == 1 else None)
        if cb and not rb:
            chk.fail("bracket-ctor-accepts-unreadable", {"delimiter": d, "content": s, "source": src},
                     "String(s, brackets=d) succeeds, reading gives %s" % repr(got)[:200],
                     "constructor succeeds exactly when the bracket string reads back as s",
                     "PYTHONPATH=%s /venv/bin/python -c 'import hy; hy.models.String(%r, brackets=%r); print(list(hy.read_many(%r)))'" % (vlib.REPO, s, d, src))
        elif rb and not cb:
            chk.fail("bracket-ctor-rejects-readable", {"delimiter": d, "content": s, "source": src},
                     "String(s, brackets=d) raises, yet the bracket string reads back", "constructor succeeds", "")
    import os
    if os.environ.get("LIT_DEBUG"):
        for d in chk.disagreements[:40]:
            print("DISAGREE", d["correspondence"], repr(d["input"]), d["model"], d["impl"])
        for f in chk.failures[:40]:
            print("FAIL", f["key"], repr(f["input"])[:150], f["observed"][:150])


def replay(path):
    rec = json.load(open(path))
    print(json.dumps(rec, indent=1)[:3000])
    return 0


def setup():
    lc.build_driver()
